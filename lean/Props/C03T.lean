import Lemmas
import Lemmas.TFrame
/-!
# C03 — BackupFS is transparent: the end-to-end statement on the link-free fragment

Setting: exactly that of `Props.C01.rollback_restores_linkfree_partial` and
`Props.C07.rollback_returns_nil_linkfree_partial` — the OS model behind two `PrefixFS` layers
(`osCfg bk kk`), a well-formed link-free disk (`OSGood`), nothing tracked, healthy filesystems (empty
fault plan), backup root empty at the start; any covered history `ops` has been run, and `op` is the
next covered operation, issued in the world `w := runOps cfg w0 ops`.

`Op.direct fs m op` (Lemmas/TDirect.lean) is the same operation issued directly on the filesystem
`fs` over the disk `m`; here `fs` is the base filesystem `(osCfg bk kk).base` (PrefixFS(bk) over the OS
model) and `m` the very disk `w.fs` the BackupFS operation starts from.

* `transparent_linkfree_partial` — for every covered operation (Create/OpenFile with the writes
  through the handle, Mkdir, MkdirAll, Remove, RemoveAll, Rename, Chmod, Chown, Lchown, Chtimes, Stat,
  Lstat, Readlink; every spelling of an absolute name):
  (a) the operation through BackupFS succeeds iff the direct call does — with ONE exception, stated as
      a disjunct: `RemoveAll` of a name below a regular file, where BackupFS returns nil and
      `os.RemoveAll` ENOTDIR (the reading adopted by the project counts this as "does not exist");
      on success both return the same data (`OpOut.data`: the handle and the outcome of the write;
      the `FileInfo`; the link text); when both fail, the error classes coincide except when a proper
      ancestor of the name is a regular file: there BackupFS reports `errDirInfoExpected` (class
      `typeMismatch`, from `copyDir` in `backupDirs`) where the OS reports ENOTDIR (for `Rename`:
      ENOTDIR, or the ENOENT of the other name);
  (b) the base views afterwards coincide at every key (`osView` compares whole nodes — type,
      content, all twelve mode bits, owner, file mtimes — with directory timestamps erased, as
      everywhere in this development; nothing else is erased).
  Of the next operation only `Op.AbsNames` is needed (weaker than `Op.Covered`: a `Rename` of a non-empty
  directory is admitted; `Op.Covered.absNames`).  Hypothesis beyond C01's: `Op.WalkDepthOK` — for `RemoveAll` of a directory the subtree fits the depth
  bound 64 of the model's `Walk` (a bound of the model, not of the code).
* `removeAll_below_file_differs` — the exception is real: a concrete disk on which the two differ.
* `affects_only_named_entry` — an operation changes the base view only at the entry the caller
  named (both names for Rename, the subtree for RemoveAll, the ancestor chain for MkdirAll).
* `readonly_changes_nothing_disk` — Stat/Lstat/Readlink/OpenFile(O_RDONLY) leave the disk (hence both
  views) and the tracked map untouched, in every world, under every fault plan.

Proof: `Lemmas/T*.lean` — the key lemma `sat_prepareT` (on healthy filesystems under the invariant
`InvB`, `prepare` keeps the base view and either succeeds with the cleaned name or fails exactly
because a proper ancestor is a regular file, in which case every direct call fails with ENOTDIR);
non-interference of the OS model (`Lemmas/TRel*.lean`: the result and the base-view effect of a base
call depend only on the base view and the umask); `PrefixFS` cleans names itself (`TClean`);
`RemoveAll`: the walk of BackupFS in lock-step with `HiddenFS.RemoveAll` with nothing hidden
(`TWalk`, `TRA1..3`), whose effect is `Props.C15.removeAll_transparent_linkfree_partial`.
-/
namespace Props.C03
open BFS BFS.BackupFS

/-- the invariant a covered history establishes (as in `Props.C07.backup_invariant_after_history`) -/
theorem invB_after_history (bk kk : Key) (hr : Roots bk kk)
    (w0 : World) (hg : OSGood bk kk w0.fs) (hinfos : w0.infos = []) (hnf : w0.faults = [])
    (hempty : ∀ k, k ≠ [] → w0.fs.get (kk ++ k) = none) (ops : List Op)
    (hcov : CoveredHist (osCfg bk kk) (osSimR hr) w0 ops) :
    InvB (osSimR hr) (osView bk kk .base w0.fs) (osView bk kk .backup w0.fs []) (runOps (osCfg bk kk) w0 ops) :=
  (history_keepsB ops w0 (InvB.init (S := osSimR hr) hg hinfos hnf
    (fun k hk => by show (w0.fs.get (kk ++ k)).map eraseMt = none; rw [hempty k hk]; rfl)) hcov).inv

/-- T03.T  BackupFS is transparent — link-free fragment, healthy filesystems. -/
theorem transparent_linkfree_partial (bk kk : Key) (hbk : PKey bk) (hkk : PKey kk)
    (hne1 : bk ≠ []) (hne2 : kk ≠ []) (hd1 : ¬ bk <+: kk) (hd2 : ¬ kk <+: bk)
    (w0 : World) (hg : OSGood bk kk w0.fs) (hinfos : w0.infos = []) (hnf : w0.faults = [])
    (hempty : ∀ k, k ≠ [] → w0.fs.get (kk ++ k) = none)
    (ops : List Op) (hcov : CoveredHist (osCfg bk kk) (osSim bk kk hbk hkk hne1 hne2 hd1 hd2) w0 ops)
    (op : Op) (hop : op.AbsNames)
    (hdepth : op.WalkDepthOK bk kk (runOps (osCfg bk kk) w0 ops).fs) :
    let w := runOps (osCfg bk kk) w0 ops
    let x := Op.exec (osCfg bk kk) op w
    let d := Op.direct (osCfg bk kk).base w.fs op
    -- (a) same success / failure — but for `RemoveAll` below a regular file
    (((∃ a, x.2 = .ok a) ↔ (∃ b, d.2 = .ok b)) ∨
      (∃ p k, op = .removeAll p ∧ PKey k ∧ clean p = kp k ∧ FileAnc (osView bk kk .base w.fs) k ∧
        (∃ a, x.2 = .ok a) ∧ d.2 = .error .notDir)) ∧
    -- same data
    (∀ a b, x.2 = .ok a → d.2 = .ok b → a.data = b) ∧
    -- same error class, but for `errDirInfoExpected` in place of ENOTDIR / ENOENT
    (∀ e1 e2, x.2 = .error e1 → d.2 = .error e2 → e1 = e2 ∨ (e1 = .typeMismatch ∧ e2.isNotFound = true)) ∧
    -- (b) same base view afterwards
    (∀ k, osView bk kk .base x.1.fs k = osView bk kk .base d.1 k) := by
  intro w x d
  have hr : Roots bk kk := ⟨hbk, hkk, hne1, hne2, hd1, hd2⟩
  have hinv := invB_after_history bk kk hr w0 hg hinfos hnf hempty ops hcov
  rcases op_transp_all hr hinv hop hdepth with ht | ⟨p, k, hp, hk, hname, hfa, ⟨a, ha, _⟩, hderr, htw, _⟩
  · exact ⟨Or.inl ht.res.success_iff, fun a b ha hb => ht.res.same_data ha hb,
      fun e1 e2 h1 h2 => ht.res.error_class h1 h2, fun k => ht.twin.same_view k⟩
  · refine ⟨Or.inr ⟨p, k, hp, hk, hname, hfa, ⟨a, ha⟩, hderr⟩, ?_, ?_, fun j => htw.same_view j⟩
    · intro a' b _ hb
      have : d.2 = .error .notDir := hderr
      rw [this] at hb; cases hb
    · intro e1 e2 h1 _
      have : x.2 = .ok a := ha
      rw [this] at h1; cases h1

/-- (c1) an operation affects exactly the entry the caller named: outside it (`Op.Outside`: the named
key; both keys for Rename; the subtree for RemoveAll; the ancestor chain for MkdirAll) the base view
after the operation through BackupFS is the base view before — by (b) and the frame of the direct
call. -/
theorem affects_only_named_entry (bk kk : Key) (hbk : PKey bk) (hkk : PKey kk)
    (hne1 : bk ≠ []) (hne2 : kk ≠ []) (hd1 : ¬ bk <+: kk) (hd2 : ¬ kk <+: bk)
    (w0 : World) (hg : OSGood bk kk w0.fs) (hinfos : w0.infos = []) (hnf : w0.faults = [])
    (hempty : ∀ k, k ≠ [] → w0.fs.get (kk ++ k) = none)
    (ops : List Op) (hcov : CoveredHist (osCfg bk kk) (osSim bk kk hbk hkk hne1 hne2 hd1 hd2) w0 ops)
    (op : Op) (hop : Op.Covered (osSim bk kk hbk hkk hne1 hne2 hd1 hd2) (runOps (osCfg bk kk) w0 ops) op)
    (hdepth : op.WalkDepthOK bk kk (runOps (osCfg bk kk) w0 ops).fs)
    (j : Key) (hj : op.Outside j) :
    osView bk kk .base (Op.exec (osCfg bk kk) op (runOps (osCfg bk kk) w0 ops)).1.fs j =
      osView bk kk .base (runOps (osCfg bk kk) w0 ops).fs j := by
  have hr : Roots bk kk := ⟨hbk, hkk, hne1, hne2, hd1, hd2⟩
  have hinv := invB_after_history bk kk hr w0 hg hinfos hnf hempty ops hcov
  have hb := (transparent_linkfree_partial bk kk hbk hkk hne1 hne2 hd1 hd2 w0 hg hinfos hnf hempty ops hcov
    op hop.absNames hdepth).2.2.2 j
  exact hb.trans (direct_frame hr hinv.good hop hj)

/-- (c2) read-only operations change nothing: for every world and fault plan (no invariant needed),
`Stat`, `Lstat`, `Readlink` and `OpenFile(O_RDONLY)` — with whatever is then attempted through the
read-only handle — leave the disk (hence both views) and the tracked map as they are. -/
theorem readonly_changes_nothing_disk (bk kk : Key) (hbk : PKey bk) (hkk : PKey kk)
    (hne1 : bk ≠ []) (hne2 : kk ≠ []) (hd1 : ¬ bk <+: kk) (hd2 : ¬ kk <+: bk)
    (w : World) (op : Op) (hro : op.ReadOnly) :
    (Op.exec (osCfg bk kk) op w).1.fs = w.fs ∧ (Op.exec (osCfg bk kk) op w).1.infos = w.infos ∧
    (∀ s k, osView bk kk s (Op.exec (osCfg bk kk) op w).1.fs k = osView bk kk s w.fs k) := by
  have hs := readonly_sameFS ⟨hbk, hkk, hne1, hne2, hd1, hd2⟩ w hro
  exact ⟨hs.fs, hs.infos, fun s k => by rw [hs.fs]⟩

/-! ### the exception and the error-class difference are real (evaluated on the model) -/

/-- `RemoveAll("/f/x")` where `/f` is a regular file (the example disk of C01: base root `/b`, file
`/b/f`): BackupFS returns nil, the direct call ENOTDIR. -/
theorem removeAll_below_file_differs :
    (∃ a, (Op.exec (osCfg [['b']] [['k']]) (.removeAll "/f/x".toList) { fs := exDisk }).2 = .ok a) ∧
    (Op.direct (osCfg [['b']] [['k']]).base exDisk (.removeAll "/f/x".toList)).2 = .error .notDir :=
  ⟨⟨.unit, by rfl⟩, by rfl⟩

/-- `Mkdir("/f/x")` on the same disk: the direct call fails with ENOTDIR; through BackupFS it fails with
`errDirInfoExpected` (class `typeMismatch`; `#eval` on the model, see NOTES — the general statement is the
third clause of `transparent_linkfree_partial`). -/
theorem mkdir_below_file_direct_class :
    (Op.direct (osCfg [['b']] [['k']]).base exDisk (.mkdir "/f/x".toList 0o755)).2 = .error .notDir := by rfl

/-! ### non-vacuity -/

/-- the hypotheses of `transparent_linkfree_partial` hold of an ordinary disk (`/b` with a file and a
directory, backup root `/k`, empty), a history that creates, overwrites, removes, makes directories,
changes metadata and removes a tree, and a next operation (names relative to the base root) -/
example : OSGood [['b']] [['k']] exDisk ∧
    CoveredHist (osCfg [['b']] [['k']]) osSim_example { fs := exDisk }
      [.creat "/n".toList "x", .write "/f".toList (O_WRONLY ||| O_TRUNC) 0 "y", .remove "/f".toList,
       .mkdirAll "/d/e//g/../h".toList 0o755, .chmod "/d".toList 0o4711, .removeAll "/d".toList] ∧
    (Op.chown "/n".toList 5 6).AbsNames ∧
    (Op.chown "/n".toList 5 6).WalkDepthOK [['b']] [['k']] (runOps (osCfg [['b']] [['k']]) { fs := exDisk }
      [.creat "/n".toList "x", .write "/f".toList (O_WRONLY ||| O_TRUNC) 0 "y", .remove "/f".toList,
       .mkdirAll "/d/e//g/../h".toList 0o755, .chmod "/d".toList 0o4711, .removeAll "/d".toList]).fs := by
  refine ⟨osGood_example, ⟨?_, ?_, ?_, ?_, ?_, ?_, trivial⟩, ?_, trivial⟩
  · show isAbs _ = true; decide
  · show isAbs _ = true; decide
  · show isAbs _ = true ∧ clean _ ≠ rootP; decide
  · show isAbs _ = true; decide
  · show isAbs _ = true; decide
  · show isAbs _ = true ∧ clean _ ≠ rootP; decide
  · show isAbs _ = true; decide

/-- … and of a `RemoveAll` of a directory: the depth hypothesis holds of the example disk -/
example : (Op.removeAll "/d".toList).AbsNames ∧
    (Op.removeAll "/d".toList).WalkDepthOK [['b']] [['k']] exDisk := by
  refine ⟨by show isAbs _ = true ∧ clean _ ≠ rootP; decide, ?_⟩
  intro k _ _ j _ hv
  obtain ⟨n0, h0⟩ := osView_ne_none hv
  have h0' : exDisk.get ([['b']] ++ j) = some n0 := h0
  rcases exDisk_live h0' with ⟨e, _⟩ | ⟨e, _⟩ | ⟨e, _⟩ | ⟨e, _⟩ | ⟨e, _⟩ <;>
    (have := congrArg List.length e
     rw [List.length_append] at this
     simp only [List.length_cons, List.length_nil] at this
     omega)

end Props.C03
