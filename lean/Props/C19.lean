import Lemmas
/-!
# C19 — depth ordering and ancestor enumeration are correct for all paths

Property theorems only (helper lemmas live in `Lemmas/`).  All statements quantify over every
`Path = List Char`, i.e. every valid-UTF-8 Go string.
-/
namespace Props.C19
open BFS

/-- T19.1 `LessFilePathSeparators` is a strict total order on all strings. -/
theorem lessFPS_strict_total :
    (∀ a, lessFPS a a = false) ∧
    (∀ a b c, lessFPS a b = true → lessFPS b c = true → lessFPS a c = true) ∧
    (∀ a b, a ≠ b → lessFPS a b = true ∨ lessFPS b a = true) :=
  ⟨lessFPS_irrefl, fun _ _ _ h1 h2 => lessFPS_trans h1 h2, fun _ _ h => lessFPS_total h⟩

/-- T19.2 every proper ancestor of a cleaned path (absolute or relative, root included) is
ordered strictly before it. -/
theorem ancestor_less (p q : Path) (hp : IsClean p) (hq : ProperAncestor q p) :
    lessFPS q p = true ∧ lessFPS p q = false :=
  ⟨ancestor_less_of_clean hp hq, lessFPS_asymm (ancestor_less_of_clean hp hq)⟩

/-- T19.3a `ByMostFilePathSeparators`: in the sorted sequence no path stands before one of its
descendants, i.e. every path comes before each of its ancestors. -/
theorem sortMost_child_before_ancestor (l : List Path) (hclean : ∀ p ∈ l, IsClean p) :
    (sortMost l).Pairwise (fun a b => ¬ ProperAncestor a b) := by
  have hp := sortBy_pairwise (strictTotal_flip strictTotal_lessFPS) l
  refine List.Pairwise.imp_of_mem ?_ hp
  intro a b _ hb hle hanc
  have hbl : b ∈ l := (sortBy_perm _ l).subset hb
  have := ancestor_less_of_clean (hclean b hbl) hanc
  unfold leOf at hle
  simp only at hle
  rw [this] at hle; cases hle

/-- T19.3b `ByLeastFilePathSeparators`: no path stands before one of its ancestors. -/
theorem sortLeast_ancestor_before_child (l : List Path) (hclean : ∀ p ∈ l, IsClean p) :
    (sortLeast l).Pairwise (fun a b => ¬ ProperAncestor b a) := by
  have hp := sortBy_pairwise strictTotal_lessFPS l
  refine List.Pairwise.imp_of_mem ?_ hp
  intro a b ha _ hle hanc
  have hal : a ∈ l := (sortBy_perm _ l).subset ha
  have := ancestor_less_of_clean (hclean a hal) hanc
  unfold leOf at hle
  rw [this] at hle; cases hle

/-- T19.3c the root sorts first under `ByLeast…` … -/
theorem sortLeast_root_first (l : List Path) (hnd : l.Nodup) (hr : rootP ∈ l) :
    (sortLeast l).head? = some rootP := by
  have hp := sortBy_pairwise_strict strictTotal_lessFPS hnd
  have hmem : rootP ∈ sortLeast l := (sortBy_perm _ l).symm.subset hr
  unfold sortLeast at *
  cases hs : sortBy lessFPS l with
  | nil => rw [hs] at hmem; simp at hmem
  | cons x xs =>
    rw [hs] at hp hmem
    simp only [List.head?_cons, Option.some.injEq]
    rcases List.mem_cons.mp hmem with h | h
    · exact h.symm
    · have := (List.pairwise_cons.mp hp).1 rootP h
      by_cases hx : x = rootP
      · exact hx
      · have h2 := lessFPS_root_lt hx
        rw [lessFPS_asymm this] at h2; cases h2

/-- … and last under `ByMost…`. -/
theorem sortMost_root_last (l : List Path) (hnd : l.Nodup) (hr : rootP ∈ l) :
    (sortMost l).getLast? = some rootP := by
  have hp := sortBy_pairwise_strict (strictTotal_flip strictTotal_lessFPS) hnd
  have hmem : rootP ∈ sortMost l := (sortBy_perm _ l).symm.subset hr
  unfold sortMost at *
  generalize sortBy (fun a b => lessFPS b a) l = s at hp hmem
  induction s with
  | nil => simp at hmem
  | cons x xs ih =>
    have hp' := List.pairwise_cons.mp hp
    cases xs with
    | nil => simp at hmem; simp [hmem]
    | cons y ys =>
      rw [List.getLast?_cons_cons]
      apply ih hp'.2
      rcases List.mem_cons.mp hmem with h | h
      · exfalso
        have h1 := hp'.1 y (by simp)
        subst h
        by_cases hy : y = rootP
        · subst hy; rw [lessFPS_irrefl] at h1; cases h1
        · have h2 := lessFPS_root_lt hy
          rw [lessFPS_asymm h1] at h2; cases h2
      · exact h

/-- T19.4 whatever sorted permutation `sort.Sort` produces, it is this one: the result does
not depend on the sorting algorithm … -/
theorem sortMost_unique (l l' : List Path) (hperm : l'.Perm l)
    (hsorted : l'.Pairwise (fun a b => lessFPS a b = false)) : l' = sortMost l :=
  sorted_perm_unique (strictTotal_flip strictTotal_lessFPS) hperm hsorted

theorem sortLeast_unique (l l' : List Path) (hperm : l'.Perm l)
    (hsorted : l'.Pairwise (fun a b => lessFPS b a = false)) : l' = sortLeast l :=
  sorted_perm_unique strictTotal_lessFPS hperm hsorted

/-- … nor on the input permutation. -/
theorem sort_perm_invariant (l₁ l₂ : List Path) (h : l₁.Perm l₂) :
    sortMost l₁ = sortMost l₂ ∧ sortLeast l₁ = sortLeast l₂ :=
  ⟨sortBy_perm_invariant (strictTotal_flip strictTotal_lessFPS) h,
   sortBy_perm_invariant strictTotal_lessFPS h⟩

theorem sort_is_perm (l : List Path) : (sortMost l).Perm l ∧ (sortLeast l).Perm l :=
  ⟨sortBy_perm _ l, sortBy_perm _ l⟩

/-- T19.5 `IterateDirTree` visits, for every cleaned path over arbitrary Unicode names, exactly
the chain root (or first component), …, parent, path — each once, in that order. -/
theorem iterateDirTree_spec (p : Path) (hp : IsClean p) : iterateDirTree p = chain p :=
  iterateDirTree_clean hp

/-- the visitor used to state the stop behaviour: records what it sees, proceeds while `ok` -/
def record (ok : Path → Bool) : List Path → Path → List Path × Except Unit Bool :=
  fun s p => (s ++ [p], .ok (ok p))

/-- elements up to and including the first one rejected -/
def takeThrough (ok : Path → Bool) : List Path → List Path
  | [] => []
  | p :: ps => if ok p then p :: takeThrough ok ps else [p]

/-- T19.5b the visit stops exactly after the first element the visitor rejects, and reports
`aborted = true` iff some element was rejected. -/
theorem iterateDirTree_stop (ok : Path → Bool) (ps acc : List Path) :
    iterVisit (record ok) acc ps = (acc ++ takeThrough ok ps, .ok (ps.any (fun p => !ok p))) := by
  induction ps generalizing acc with
  | nil => simp [iterVisit, takeThrough]
  | cons p ps ih =>
    simp only [iterVisit, record]
    cases hok : ok p with
    | true => simp [ih, takeThrough, hok]
    | false => simp [takeThrough, hok]

/-- a visitor error stops the iteration and is returned -/
theorem iterateDirTree_error {σ ε} (v : σ → Path → σ × Except ε Bool) (s s' : σ) (p : Path) (e : ε)
    (ps : List Path) (h : v s p = (s', .error e)) : iterVisit v s (p :: ps) = (s', .error e) := by
  simp [iterVisit, h]

/-! ## non-vacuity: concrete instances of the hypotheses and conclusions -/

example : IsClean "/d/ä".toList ∧ iterateDirTree "/d/ä".toList = ["/".toList, "/d".toList, "/d/ä".toList] := by
  decide
example : IsClean "ä/b€".toList ∧ chain "ä/b€".toList = ["ä".toList, "ä/b€".toList] := by decide
example : ProperAncestor "/".toList "/a".toList ∧ ProperAncestor "a".toList "a/b".toList := by decide
example : sortMost ["/test/0".toList, "/".toList, "/test".toList, "/test/0/2".toList]
    = ["/test/0/2".toList, "/test/0".toList, "/test".toList, "/".toList] := by decide
example : sortLeast ["/test/0".toList, "/".toList, "/test".toList]
    = ["/".toList, "/test".toList, "/test/0".toList] := by decide

end Props.C19
