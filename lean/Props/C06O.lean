import Lemmas.HOLEx
import Props.C06D
/-!
# C06 (disk level, OBSERVE half) — calls on visible names learn nothing about hidden content … but one bit

`Props/C06D.lean` proves that a call naming something at or below a hidden path is refused identically
on every disk, and that no call changes a hidden node.  Here: what calls on VISIBLE names can learn.
Setting: `HiddenFS(hidden keys hks)` over `PrefixFS(kp bk)` over the OS model (`hfs bk hks`), disks
without symlinks at/below `bk` (`WFB bk`).

* O06.1 `hidden_content_unobservable_linkfree` — TWO-DISK NON-INTERFERENCE.  Two link-free disks that
  hold the same node at every key NOT at or below a hidden key and are ARBITRARY at and below the hidden
  keys (other content, other entries, other types, other metadata) — except that every visible directory
  has a hidden entry on one disk iff it has one on the other (`SameHP`) — give every one of the 16
  methods, with ANY name strings (hidden names are refused identically), the same observation
  (`observeH`: result, and through a returned handle `Read`, `File.Stat`, the filtered `Readdirnames`),
  and are in the same relation afterwards; the hidden parts of both are untouched.
* O06.2 `hidden_content_unobservable_history_linkfree` — along any history of calls without `Symlink`.
* O06.3 `hidden_content_unobservable_with_links_partial` — disks WITH symlinks (end of the file): single
  calls whose own route is free of symlinks; `stat_through_final_symlink_observes_hidden` shows the route
  hypothesis forced also for calls that change nothing.
* THE BOUNDARY (kernel-checked, to be replayed on the implementation):
  `remove_parent_observes_hidden_existence` — `Remove(d)` of a visible directory `d` that directly
  contains a hidden path returns ENOTEMPTY iff a hidden entry exists in it (when `d` has no visible
  entry), and removes `d` otherwise: ONE BIT about hidden content is observable, and
  `probe_hidden_existence` — a caller can always bring a directory into that state by removing its
  visible entries (`RemoveAll(d)` does it in one call: it spares `d` and the hidden entries), then `Remove(d)`.  `SameHP` is
  exactly the hypothesis that excludes it; everything else about hidden content (what the entry is,
  what is below it, how many hidden entries there are) is unobservable: O06.1.
  `hidden_content_unobservable_without_presence_partial` (and `…_history_…`): without `SameHP` — hidden
  entries present on one disk and absent on the other — every call other than `Remove` of the directory
  of a hidden path observes the same (`RemoveAll` included): that `Remove` is the ONLY leak.
-/
namespace Props.C06
open BFS BFS.D BFS.PX BFS.HO BFS.HiddenFS BFS.HLL

/-! ## what a caller observes of one call through HiddenFS -/

structure HObs where
  ret : Except Err Ret
  through : Option (Except Err String × Except Err Info × Except Err (List Name))
deriving DecidableEq

/-- the result of the call and — when it is a handle — what can be read through it right after:
content, `File.Stat`, `Readdirnames(-1)` (filtered by `hiddenFile`) -/
def observeH (bk : Key) (hks : List Key) (m : MFS) (c : Call) : HObs :=
  { ret := ((hfs bk hks).call m c).2, through := throughOf bk hks ((hfs bk hks).call m c) }

/-- the agreement relation of the theorems: the same node at every VISIBLE key (every key that is not
`bk ++ j` with `j` at or below a hidden key — `HO.hidD_iff`), the same umask, and the same answer, for
every visible directory, to "does it have a hidden entry" (`HO.SameHP`; implied by "the same hidden
keys exist": `HO.sameHP_of_same_roots`) -/
structure AgreeOutside (bk : Key) (hks : List Key) (m1 m2 : MFS) : Prop where
  agr : Agr (Vis bk hks) m1 m2
  presence : SameHP bk hks m1 m2

/-- O06.1.  `hsh`: only for `RemoveAll`, whose walk descends into hidden directories before skipping
their entries — the model's `Walk` has a depth bound of 64, which must not be hit inside a hidden
subtree (`Shallow`; the implementation has no such bound: its analogue is PATH_MAX). -/
theorem hidden_content_unobservable_linkfree (bk : Key) (hbk : PKey bk) (hks : List Key)
    (hp : ∀ h ∈ hks, PKey h) (hne : hks ≠ []) (m1 m2 : MFS) (hw1 : WFB bk m1) (hw2 : WFB bk m2)
    (ha : AgreeOutside bk hks m1 m2) (c : Call)
    (hsh : (∃ n, c = .removeAll n) → Shallow bk hks m1 ∧ Shallow bk hks m2) :
    observeH bk hks m1 c = observeH bk hks m2 c ∧
    AgreeOutside bk hks ((hfs bk hks).call m1 c).1 ((hfs bk hks).call m2 c).1 ∧
    (∀ j, HidK hks j → ((hfs bk hks).call m1 c).1.get (bk ++ j) = m1.get (bk ++ j)) ∧
    (∀ j, HidK hks j → ((hfs bk hks).call m2 c).1.get (bk ++ j) = m2.get (bk ++ j)) := by
  obtain ⟨e1, e2, e3, e4, e5, e6, _⟩ := hidden_call_two hbk hp hne ⟨hw1, hw2, ha.agr, ha.presence⟩ c hsh
  refine ⟨?_, ⟨e3, e4⟩, e5, e6⟩
  unfold observeH
  rw [e1, e2]

/-- O06.1 without the presence hypothesis — THE EXACT BOUNDARY.  Two link-free disks that agree on the
visible keys and are COMPLETELY arbitrary at and below the hidden keys (present on one, absent on the
other, …).  Every method, with any names — `Remove` only when its (cleaned) name is not the directory of a
hidden path (`hnp`) — observes the same, and the disks agree on the visible keys afterwards.  So the one
bit of `remove_parent_observes_hidden_existence` is the ONLY thing a call can learn: `RemoveAll` of any
visible name, `Rename`, listings, `Stat` … of the parent of a hidden path observe nothing. -/
theorem hidden_content_unobservable_without_presence_partial (bk : Key) (hbk : PKey bk) (hks : List Key)
    (hp : ∀ h ∈ hks, PKey h) (hne : hks ≠ []) (m1 m2 : MFS) (hw1 : WFB bk m1) (hw2 : WFB bk m2)
    (ha : Agr (Vis bk hks) m1 m2) (c : Call)
    (hsh : (∃ n, c = .removeAll n) → Shallow bk hks m1 ∧ Shallow bk hks m2)
    (hnp : ∀ n, c = .remove n → ∀ h ∈ hks, h ≠ [] → clean n ≠ kp h.dropLast) :
    observeH bk hks m1 c = observeH bk hks m2 c ∧
    Agr (Vis bk hks) ((hfs bk hks).call m1 c).1 ((hfs bk hks).call m2 c).1 ∧
    (∀ j, HidK hks j → ((hfs bk hks).call m1 c).1.get (bk ++ j) = m1.get (bk ++ j)) ∧
    (∀ j, HidK hks j → ((hfs bk hks).call m2 c).1.get (bk ++ j) = m2.get (bk ++ j)) := by
  obtain ⟨e1, e2, e3, e5, e6, _⟩ := hidden_call_two_nopres hbk hp hne hw1 hw2 ha c hsh hnp
  refine ⟨?_, e3, e5, e6⟩
  unfold observeH
  rw [e1, e2]

/-- handles kept for later: a handle returned through HiddenFS on a link-free disk names a visible key,
and whatever is read through it LATER (content, `Stat`, the filtered listing) is the same on any two
link-free disks that agree on the visible keys at that time -/
theorem hidden_handle_reads (bk : Key) (hbk : PKey bk) (hks : List Key) (hp : ∀ h ∈ hks, PKey h)
    (hne : hks ≠ []) (m : MFS) (hw : WFB bk m) (c : Call) (h : Handle)
    (hr : ((hfs bk hks).call m c).2 = .ok (.handle h)) :
    (∃ x, PKey x ∧ ¬ HidK hks x ∧ h.key = bk ++ x) ∧
    ∀ (m1 m2 : MFS), WFB bk m1 → WFB bk m2 → Agr (Vis bk hks) m1 m2 →
      ((hfs bk hks).hread m1 h, (hfs bk hks).hstat m1 h, (hfs bk hks).hreaddirnames m1 h) =
        ((hfs bk hks).hread m2 h, (hfs bk hks).hstat m2 h, (hfs bk hks).hreaddirnames m2 h) :=
  hidden_handle_reads_two hbk hp hne hw hr

/-! ## O06.2 — histories -/

def runCallsH (bk : Key) (hks : List Key) : MFS → List Call → MFS
  | m, [] => m
  | m, c :: cs => runCallsH bk hks ((hfs bk hks).call m c).1 cs

def obsCallsH (bk : Key) (hks : List Key) : MFS → List Call → List HObs
  | _, [] => []
  | m, c :: cs => observeH bk hks m c :: obsCallsH bk hks ((hfs bk hks).call m c).1 cs

/-- every method but `Symlink` -/
def notSymlink : Call → Bool
  | .symlink _ _ => false
  | _ => true

theorem notSymlink_ne {c : Call} (h : notSymlink c = true) : ∀ o n, c ≠ .symlink o n := by
  intro o n e
  subst e
  cases h

/-- O06.2.  The same history of calls — any methods but `Symlink` (the disks stay link-free), any
names — on two disks that agree outside the hidden subtrees: the same observations at every step; the
disks agree outside at the end; the hidden part of each disk is at the end exactly what it was at the
start; the hypotheses hold again (the statement extends to every continuation). -/
theorem hidden_content_unobservable_history_linkfree (bk : Key) (hbk : PKey bk) (hks : List Key)
    (hp : ∀ h ∈ hks, PKey h) (hne : hks ≠ []) :
    ∀ (cs : List Call) (m1 m2 : MFS), WFB bk m1 → WFB bk m2 → Shallow bk hks m1 → Shallow bk hks m2 →
      AgreeOutside bk hks m1 m2 → (∀ c ∈ cs, notSymlink c = true) →
      obsCallsH bk hks m1 cs = obsCallsH bk hks m2 cs ∧
      AgreeOutside bk hks (runCallsH bk hks m1 cs) (runCallsH bk hks m2 cs) ∧
      (∀ j, HidK hks j → (runCallsH bk hks m1 cs).get (bk ++ j) = m1.get (bk ++ j)) ∧
      (∀ j, HidK hks j → (runCallsH bk hks m2 cs).get (bk ++ j) = m2.get (bk ++ j)) ∧
      WFB bk (runCallsH bk hks m1 cs) ∧ WFB bk (runCallsH bk hks m2 cs) ∧
      Shallow bk hks (runCallsH bk hks m1 cs) ∧ Shallow bk hks (runCallsH bk hks m2 cs)
  | [], m1, m2, hw1, hw2, s1, s2, ha, _ => ⟨rfl, ha, fun _ _ => rfl, fun _ _ => rfl, hw1, hw2, s1, s2⟩
  | c :: cs, m1, m2, hw1, hw2, s1, s2, ha, hns => by
    obtain ⟨e1, e2, e3, e4, e5, e6, e7⟩ :=
      hidden_call_two hbk hp hne ⟨hw1, hw2, ha.agr, ha.presence⟩ c (fun _ => ⟨s1, s2⟩)
    obtain ⟨w1, w2⟩ := e7 (notSymlink_ne (hns c (by simp)))
    obtain ⟨r1, r2, r3, r4, r5⟩ := hidden_content_unobservable_history_linkfree bk hbk hks hp hne cs _ _ w1 w2
      (s1.of_same e5) (s2.of_same e6) ⟨e3, e4⟩ (fun c' h' => hns c' (List.mem_cons_of_mem _ h'))
    refine ⟨?_, r2, fun j hj => (r3 j hj).trans (e5 j hj), fun j hj => (r4 j hj).trans (e6 j hj), r5⟩
    show observeH bk hks m1 c :: _ = observeH bk hks m2 c :: _
    rw [r1]
    congr 1
    unfold observeH
    rw [e1, e2]

/-- O06.2 without the presence hypothesis: histories that never `Remove` the directory of a hidden path
(and contain no `Symlink`) observe the same on two disks that agree on the visible keys, whatever the
hidden keys hold or do not hold -/
theorem hidden_content_unobservable_history_without_presence_partial (bk : Key) (hbk : PKey bk)
    (hks : List Key) (hp : ∀ h ∈ hks, PKey h) (hne : hks ≠ []) :
    ∀ (cs : List Call) (m1 m2 : MFS), WFB bk m1 → WFB bk m2 → Shallow bk hks m1 → Shallow bk hks m2 →
      Agr (Vis bk hks) m1 m2 → (∀ c ∈ cs, notSymlink c = true) →
      (∀ c ∈ cs, ∀ n, c = .remove n → ∀ h ∈ hks, h ≠ [] → clean n ≠ kp h.dropLast) →
      obsCallsH bk hks m1 cs = obsCallsH bk hks m2 cs ∧
      Agr (Vis bk hks) (runCallsH bk hks m1 cs) (runCallsH bk hks m2 cs) ∧
      (∀ j, HidK hks j → (runCallsH bk hks m1 cs).get (bk ++ j) = m1.get (bk ++ j)) ∧
      (∀ j, HidK hks j → (runCallsH bk hks m2 cs).get (bk ++ j) = m2.get (bk ++ j))
  | [], m1, m2, _, _, _, _, ha, _, _ => ⟨rfl, ha, fun _ _ => rfl, fun _ _ => rfl⟩
  | c :: cs, m1, m2, hw1, hw2, s1, s2, ha, hns, hnp => by
    obtain ⟨e1, e2, e3, e5, e6, e7⟩ :=
      hidden_call_two_nopres hbk hp hne hw1 hw2 ha c (fun _ => ⟨s1, s2⟩) (hnp c (by simp))
    obtain ⟨w1, w2⟩ := e7 (notSymlink_ne (hns c (by simp)))
    obtain ⟨r1, r2, r3, r4⟩ := hidden_content_unobservable_history_without_presence_partial bk hbk hks hp hne cs
      _ _ w1 w2 (s1.of_same e5) (s2.of_same e6) e3 (fun c' h' => hns c' (List.mem_cons_of_mem _ h'))
      (fun c' h' => hnp c' (List.mem_cons_of_mem _ h'))
    refine ⟨?_, r2, fun j hj => (r3 j hj).trans (e5 j hj), fun j hj => (r4 j hj).trans (e6 j hj)⟩
    show observeH bk hks m1 c :: _ = observeH bk hks m2 c :: _
    rw [r1]
    congr 1
    unfold observeH
    rw [e1, e2]

/-! ## non-vacuity

HiddenFS root `/b`; hidden paths `/d/h` and `/hid`.  `roomA`: `/b/d/h` is a FILE with a secret,
`/b/hid` a directory holding the file `x`; visible: `/b/d` (the parent of the hidden `/d/h`) with the
file `/b/d/w`, the file `/b/v`, the directory `/b/e` with `/b/e/g`.  `roomB`: same visible part;
`/b/d/h` is a DIRECTORY with two entries, `/b/hid` holds a sub-directory tree instead. -/

def fmo (mode : Nat) : Meta := { mode := mode, uid := 0, gid := 0, mtime := .old 0 }

def hk2 : List Key := [[['d'], ['h']], ["hid".toList]]

def visPart : List (Key × Node) :=
  [([], .dir exMeta), ([['b']], .dir exMeta), ([['b'], ['d']], .dir exMeta),
   ([['b'], ['d'], ['w']], .file "w" (fmo 0o644)), ([['b'], ['v']], .file "vis" (fmo 0o644)),
   ([['b'], ['e']], .dir exMeta), ([['b'], ['e'], ['g']], .file "g" (fmo 0o600))]

def roomA : MFS := ofList (visPart ++
  [([['b'], ['d'], ['h']], .file "secret" (fmo 0o600)),
   ([['b'], "hid".toList], .dir exMeta), ([['b'], "hid".toList, ['x']], .file "one" (fmo 0o600))])

def roomB : MFS := ofList (visPart ++
  [([['b'], ['d'], ['h']], .dir (fmo 0o700)), ([['b'], ['d'], ['h'], ['p']], .file "" (fmo 0o600)),
   ([['b'], ['d'], ['h'], ['q']], .dir exMeta),
   ([['b'], "hid".toList], .dir (fmo 0o711)), ([['b'], "hid".toList, ['y']], .dir exMeta),
   ([['b'], "hid".toList, ['y'], ['z']], .file "other" (fmo 0o644))])

theorem room_hyps :
    WFB [['b']] roomA ∧ WFB [['b']] roomB ∧ Shallow [['b']] hk2 roomA ∧ Shallow [['b']] hk2 roomB ∧
    AgreeOutside [['b']] hk2 roomA roomB :=
  ⟨wfb_check (by decide) (by decide), wfb_check (by decide) (by decide), shallow_check (by decide),
    shallow_check (by decide), agr_check (by decide), sameHP_of_same_roots (by decide)⟩

example : roomA.get [['b'], ['d'], ['h']] ≠ roomB.get [['b'], ['d'], ['h']] ∧
    roomA.get [['b'], "hid".toList, ['x']] ≠ roomB.get [['b'], "hid".toList, ['x']] := by decide

/-- O06.1 instantiated: every call, every name -/
example (c : Call) : observeH [['b']] hk2 roomA c = observeH [['b']] hk2 roomB c :=
  (hidden_content_unobservable_linkfree [['b']] (by decide) hk2 (by decide) (by decide) roomA roomB
    room_hyps.1 room_hyps.2.1 room_hyps.2.2.2.2 c (fun _ => ⟨room_hyps.2.2.1, room_hyps.2.2.2.1⟩)).1

/-- the observations are not trivial: the listing of `/d` shows `w` and not `h`; the listing of `/` shows
`d`, `e`, `v` and not `hid`; `Remove("/d")` is ENOTEMPTY on both (a visible entry is there); hidden names
are refused.  (Calls of `RemoveAll` are covered by the theorem but cannot be evaluated by the kernel:
`Walk` is defined by well-founded recursion.) -/
example :
    (observeH [['b']] hk2 roomA (.open_ "/d".toList)).through.map (·.2.2) = some (.ok [['w']]) ∧
    (observeH [['b']] hk2 roomB (.open_ "/".toList)).through.map (·.2.2) = some (.ok [['d'], ['e'], ['v']]) ∧
    (observeH [['b']] hk2 roomA (.open_ "/e/g".toList)).through.map (·.1) = some (.ok "g") ∧
    (observeH [['b']] hk2 roomA (.remove "/d".toList)).ret = .error .notEmpty ∧
    (observeH [['b']] hk2 roomB (.stat "/hid/y".toList)).ret = .error .hiddenNotExist := by decide +kernel

/-- O06.2 instantiated: a history with a rename, a listing, a file created and read back, `RemoveAll` of
the parent of a hidden path, `Remove` of that parent, a hidden name, `RemoveAll("/")`, a listing -/
def roomHistoryH : List Call :=
  [.rename "/v".toList "/e/v2".toList, .open_ "/e".toList, .create "/d/new".toList,
   .mkdirAll "/e/k/l".toList 0o755, .removeAll "/d".toList, .remove "/d".toList, .stat "/d/h".toList,
   .chmod "/e/g".toList 0o400, .removeAll "/".toList, .open_ "/".toList]

example :
    obsCallsH [['b']] hk2 roomA roomHistoryH = obsCallsH [['b']] hk2 roomB roomHistoryH ∧
    (runCallsH [['b']] hk2 roomB roomHistoryH).get [['b'], "hid".toList, ['y'], ['z']]
      = some (.file "other" (fmo 0o644)) := by
  obtain ⟨h1, _, _, h4, _⟩ := hidden_content_unobservable_history_linkfree [['b']] (by decide) hk2 (by decide)
    (by decide) roomHistoryH roomA roomB room_hyps.1 room_hyps.2.1 room_hyps.2.2.1 room_hyps.2.2.2.1
    room_hyps.2.2.2.2 (by decide)
  exact ⟨h1, h4 ["hid".toList, ['y'], ['z']] ⟨["hid".toList], by decide, by decide⟩⟩

/-- the part of it before the first `RemoveAll`, evaluated: every call returns nil/ok, the listing of `/e`
shows the renamed file -/
example :
    (obsCallsH [['b']] hk2 roomA (roomHistoryH.take 4)).map (·.ret.toBool) = [true, true, true, true] ∧
    ((obsCallsH [['b']] hk2 roomA (roomHistoryH.take 2)).getLast?.bind (·.through)).map (·.2.2)
      = some (.ok [['g'], ['v', '2']]) := by
  decide +kernel

/-! ## the boundary: ONE BIT is observable (kernel-checked two-disk witnesses)

`bitA`: the hidden file `/b/d/h` exists; `bitB`: it does not.  Everything visible is the same (`/b/d`,
`/b/d/w`, `/b/v`), both disks are well-formed, link-free and shallow, same umask: every hypothesis of
O06.1 but `SameHP` holds. -/

def bitVis : List (Key × Node) :=
  [([], .dir exMeta), ([['b']], .dir exMeta), ([['b'], ['d']], .dir exMeta),
   ([['b'], ['d'], ['w']], .file "w" (fmo 0o644)), ([['b'], ['v']], .file "vis" (fmo 0o644))]

def bitA : MFS := ofList (bitVis ++ [([['b'], ['d'], ['h']], .file "secret" (fmo 0o600))])
def bitB : MFS := ofList bitVis

theorem bit_other_hyps :
    WFB [['b']] bitA ∧ WFB [['b']] bitB ∧ Shallow [['b']] [[['d'], ['h']]] bitA ∧
    Shallow [['b']] [[['d'], ['h']]] bitB ∧ Agr (Vis [['b']] [[['d'], ['h']]]) bitA bitB :=
  ⟨wfb_check (by decide) (by decide), wfb_check (by decide) (by decide), shallow_check (by decide),
    shallow_check (by decide), agr_check (by decide)⟩

theorem bit_not_sameHP : ¬ SameHP [['b']] [[['d'], ['h']]] bitA bitB := by
  intro h
  obtain ⟨c', hc', hl⟩ := h.1 [['b'], ['d']] ['h']
    (by intro e; exact absurd (hidB_iff.mpr e) (by decide)) (hidB_iff.mp (by decide)) (by decide)
  obtain ⟨k, hm, e⟩ := hidden_child_is_root (by intro e; exact absurd (hidB_iff.mpr e) (by decide)) hc'
  simp only [List.mem_singleton] at hm
  subst hm
  rw [e] at hl
  revert hl
  decide

/-- …and on `bitA`/`bitB` (hidden entry present / absent) every call but `Remove("/d")` — `RemoveAll("/d")`
and `RemoveAll("/")` included — observes the same: instance of the variant without `SameHP` -/
example (c : Call) (h2 : ∀ n, c = .remove n → clean n ≠ "/d".toList) :
    observeH [['b']] [[['d'], ['h']]] bitA c = observeH [['b']] [[['d'], ['h']]] bitB c :=
  (hidden_content_unobservable_without_presence_partial [['b']] (by decide) [[['d'], ['h']]] (by decide) (by decide)
    bitA bitB bit_other_hyps.1 bit_other_hyps.2.1 bit_other_hyps.2.2.2.2 c
    (fun _ => ⟨bit_other_hyps.2.2.1, bit_other_hyps.2.2.2.1⟩) (by
      intro n e h hm _
      simp only [List.mem_singleton] at hm
      subst hm
      exact h2 n e)).1

/-- FINDING CANDIDATE.  The caller names only VISIBLE paths.  It empties `/d` of its visible entries
(`Remove("/d/w")` here; `RemoveAll("/d")` does it in one call: it removes every visible entry below `/d`
and keeps `/d` itself because it is the parent of a hidden path — `Props.C11.removeAll_removes_the_rest`,
`removeAll_spares_hidden`) — same results on both disks.  Then `Remove("/d")` returns ENOTEMPTY where the
hidden `/d/h` exists and nil (and removes `/d`) where it does not: the existence of a hidden entry is
observed.  (The probe is repeatable: `Mkdir("/d")` restores the second disk.) -/
theorem probe_hidden_existence :
    let cs : List Call := [.remove "/d/w".toList, .remove "/d".toList]
    (obsCallsH [['b']] [[['d'], ['h']]] bitA cs).map (·.ret) = [.ok .unit, .error .notEmpty] ∧
    (obsCallsH [['b']] [[['d'], ['h']]] bitB cs).map (·.ret) = [.ok .unit, .ok .unit] ∧
    ((runCallsH [['b']] [[['d'], ['h']]] bitA cs).get [['b'], ['d']]).isSome ∧
    (runCallsH [['b']] [[['d'], ['h']]] bitB cs).get [['b'], ['d']] = none ∧
    isHidden "/d".toList (mk ([[['d'], ['h']]].map kp)) = .ok false ∧
    isHidden "/d/w".toList (mk ([[['d'], ['h']]].map kp)) = .ok false := by decide +kernel

/-- the single leaking call: `Remove` of a visible directory without visible entries that directly
contains a hidden path.  `emptyA`/`emptyB` differ only in the hidden `/b/d/h`. -/
def emptyA : MFS := ofList
  [([], .dir exMeta), ([['b']], .dir exMeta), ([['b'], ['d']], .dir exMeta),
   ([['b'], ['d'], ['h']], .dir exMeta), ([['b'], ['d'], ['h'], ['s']], .file "secret" (fmo 0o600))]
def emptyB : MFS := ofList [([], .dir exMeta), ([['b']], .dir exMeta), ([['b'], ['d']], .dir exMeta)]

theorem remove_parent_observes_hidden_existence :
    WFB [['b']] emptyA ∧ WFB [['b']] emptyB ∧ Agr (Vis [['b']] [[['d'], ['h']]]) emptyA emptyB ∧
    observeH [['b']] [[['d'], ['h']]] emptyA (.remove "/d".toList)
      ≠ observeH [['b']] [[['d'], ['h']]] emptyB (.remove "/d".toList) ∧
    (observeH [['b']] [[['d'], ['h']]] emptyA (.remove "/d".toList)).ret = .error .notEmpty ∧
    (observeH [['b']] [[['d'], ['h']]] emptyB (.remove "/d".toList)).ret = .ok .unit ∧
    -- the other calls on the same name see no difference
    observeH [['b']] [[['d'], ['h']]] emptyA (.open_ "/d".toList)
      = observeH [['b']] [[['d'], ['h']]] emptyB (.open_ "/d".toList) ∧
    observeH [['b']] [[['d'], ['h']]] emptyA (.stat "/d".toList)
      = observeH [['b']] [[['d'], ['h']]] emptyB (.stat "/d".toList) ∧
    observeH [['b']] [[['d'], ['h']]] emptyA (.rename "/d".toList "/e".toList)
      = observeH [['b']] [[['d'], ['h']]] emptyB (.rename "/d".toList "/e".toList) ∧
    (observeH [['b']] [[['d'], ['h']]] emptyA (.rename "/d".toList "/e".toList)).ret = .error .hiddenPerm ∧
    observeH [['b']] [[['d'], ['h']]] emptyA (.mkdir "/d/h".toList 0o755)
      = observeH [['b']] [[['d'], ['h']]] emptyB (.mkdir "/d/h".toList 0o755) :=
  ⟨wfb_check (by decide) (by decide), wfb_check (by decide) (by decide), agr_check (by decide),
    by decide +kernel, by decide +kernel, by decide +kernel, by decide +kernel,
    by decide +kernel, by decide +kernel, by decide +kernel, by decide +kernel⟩

/-! ## O06.3 — disks WITH symlinks, under a route hypothesis

Symlinks anywhere on both disks (`WFL`: well-formed, a symlink is a leaf), with any targets — also into
hidden subtrees.  `RouteOK m K f`: no symlink among the proper ancestors of the key `K`, and — when the name
resolution of the call follows a final symlink (`followFlag`: `Create`, `Open`, `OpenFile` without
`O_CREATE|O_EXCL`, `Stat`, `Chmod`, `Chown`, `Chtimes`) — none at `K` itself.  This is the `Route` hypothesis
of `Props/C06L.lean` strengthened for the read-only following calls (`Stat`, `Open`), which change nothing
but OBSERVE through a final symlink (`stat_through_final_symlink_observes_hidden` below, and
`Props.C06.final_symlink_reaches_hidden`). -/

/-- O06.3.  Any method but `MkdirAll`/`RemoveAll`, any names, whose route on the first disk is free of
symlinks: same observation on two disks that agree outside the hidden subtrees; they still agree
afterwards; the hidden parts are untouched. -/
theorem hidden_content_unobservable_with_links_partial (bk : Key) (hbk : PKey bk) (hks : List Key)
    (hp : ∀ h ∈ hks, PKey h) (hne : hks ≠ []) (m1 m2 : MFS) (hw1 : WFL m1) (hw2 : WFL m2)
    (ha : AgreeOutside bk hks m1 m2) (c : Call) (hnra : ∀ n, c ≠ .removeAll n) (hnm : ∀ n p, c ≠ .mkdirAll n p)
    (hroute : ∀ n ∈ c.accessPaths, RouteOK m1 (bk ++ nameKey n) (followFlag c)) :
    observeH bk hks m1 c = observeH bk hks m2 c ∧
    AgreeOutside bk hks ((hfs bk hks).call m1 c).1 ((hfs bk hks).call m2 c).1 ∧
    (∀ j, HidK hks j → ((hfs bk hks).call m1 c).1.get (bk ++ j) = m1.get (bk ++ j)) ∧
    (∀ j, HidK hks j → ((hfs bk hks).call m2 c).1.get (bk ++ j) = m2.get (bk ++ j)) := by
  obtain ⟨e1, e2, e3, e4, e5, e6⟩ :=
    hidden_call_two_links hbk hp hne hw1 hw2 ha.agr ha.presence c hnra hnm hroute
  refine ⟨?_, ⟨e3, e4⟩, e5, e6⟩
  unfold observeH
  rw [e1, e2]

/-- HiddenFS root `/b`, hidden `/hid`.  Visible: the directory `/b/v` with the file `/b/v/f` and the symlink
`/b/v/l -> ../hid/x` (into the hidden subtree), the symlink `/b/k -> v`.  Hidden: `/b/hid/x` with content `s`. -/
def linkDisk (s : String) : MFS := ofList
  [([], .dir exMeta), ([['b']], .dir exMeta), ([['b'], ['v']], .dir exMeta),
   ([['b'], ['v'], ['f']], .file "f" (fmo 0o644)),
   ([['b'], ['v'], ['l']], .link "../hid/x".toList (fmo 0o777)),
   ([['b'], ['k']], .link "v".toList (fmo 0o777)),
   ([['b'], "hid".toList], .dir exMeta), ([['b'], "hid".toList, ['x']], .file s (fmo 0o600))]

theorem linkDisk_hyps :
    WFL (linkDisk "secret") ∧ WFL (linkDisk "other!!") ∧
    AgreeOutside [['b']] [["hid".toList]] (linkDisk "secret") (linkDisk "other!!") :=
  ⟨wfl_check (by decide) (by decide), wfl_check (by decide) (by decide), agr_check (by decide),
    sameHP_of_same_roots (by decide)⟩

/-- whatever the hidden file holds: `Lstat`/`Readlink`/`Lchown`/`Remove`/`Rename` of the link itself (they do
not follow it), `Stat`/`Open`/`Chmod` of `/v` and `/v/f`, the listing of `/v` … observe the same -/
example (c : Call) (h1 : ∀ n, c ≠ .removeAll n) (h2 : ∀ n p, c ≠ .mkdirAll n p)
    (hr : ∀ n ∈ c.accessPaths, RouteOK (linkDisk "secret") ([['b']] ++ nameKey n) (followFlag c)) :
    observeH [['b']] [["hid".toList]] (linkDisk "secret") c
      = observeH [['b']] [["hid".toList]] (linkDisk "other!!") c :=
  (hidden_content_unobservable_with_links_partial [['b']] (by decide) [["hid".toList]] (by decide) (by decide)
    _ _ linkDisk_hyps.1 linkDisk_hyps.2.1 linkDisk_hyps.2.2 c h1 h2 hr).1

example :
    (∀ n ∈ (Call.lstat "/v/l".toList).accessPaths,
      RouteOK (linkDisk "secret") ([['b']] ++ nameKey n) (followFlag (.lstat "/v/l".toList))) ∧
    (∀ n ∈ (Call.open_ "/v".toList).accessPaths,
      RouteOK (linkDisk "secret") ([['b']] ++ nameKey n) (followFlag (.open_ "/v".toList))) ∧
    (∀ n ∈ (Call.rename "/v/l".toList "/v/l2".toList).accessPaths,
      RouteOK (linkDisk "secret") ([['b']] ++ nameKey n) (followFlag (.rename "/v/l".toList "/v/l2".toList))) := by
  refine ⟨?_, ?_, ?_⟩ <;>
  · intro n hn
    simp only [Call.accessPaths, List.mem_cons, List.mem_singleton, List.not_mem_nil, or_false] at hn
    rcases hn with rfl | rfl <;> exact routeOK_check (by decide +kernel)

example :
    (observeH [['b']] [["hid".toList]] (linkDisk "secret") (.readlink "/v/l".toList)).ret
      = .ok (.str "../hid/x".toList) ∧
    (observeH [['b']] [["hid".toList]] (linkDisk "secret") (.open_ "/v".toList)).through.map (·.2.2)
      = some (.ok [['f'], ['l']]) := by decide +kernel

/-- the route hypothesis is forced for the OBSERVE half also for calls that change nothing: two disks that
differ only in the content of the hidden file; `Stat("/v/l")` and `Open("/v/l")`+`Read` follow the visible
symlink `/v/l -> ../hid/x` and report the hidden file's size and content; so does `Stat("/k/l")` through the
symlinked directory `/k -> v`.  Every other hypothesis of O06.3 holds. -/
theorem stat_through_final_symlink_observes_hidden :
    isHidden "/v/l".toList (mk ([["hid".toList]].map kp)) = .ok false ∧
    observeH [['b']] [["hid".toList]] (linkDisk "secret") (.stat "/v/l".toList)
      ≠ observeH [['b']] [["hid".toList]] (linkDisk "other!!") (.stat "/v/l".toList) ∧
    (observeH [['b']] [["hid".toList]] (linkDisk "secret") (.open_ "/v/l".toList)).through.map (·.1)
      = some (.ok "secret") ∧
    (observeH [['b']] [["hid".toList]] (linkDisk "other!!") (.open_ "/v/l".toList)).through.map (·.1)
      = some (.ok "other!!") ∧
    observeH [['b']] [["hid".toList]] (linkDisk "secret") (.stat "/k/l".toList)
      ≠ observeH [['b']] [["hid".toList]] (linkDisk "other!!") (.stat "/k/l".toList) ∧
    ¬ RouteOK (linkDisk "secret") ([['b']] ++ nameKey "/v/l".toList) (followFlag (.stat "/v/l".toList)) := by
  refine ⟨by decide +kernel, by decide +kernel, by decide +kernel, by decide +kernel, by decide +kernel, ?_⟩
  intro h
  exact h.2 rfl "../hid/x".toList (fmo 0o777) (by decide +kernel)

end Props.C06
