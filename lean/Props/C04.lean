import Lemmas
import Model.NewWithFS
import Props.C05
import Props.C06
import Props.C04N
/-!
# C04 — the backup location is sealed off in the documented layering (lexical part)

With `NewWithFS` the base view is `HiddenFS [loc]` and the backup view is `PrefixFS loc` over one
filesystem.  Proved: the two views are lexically disjoint — every call the base view lets through
names no path at or below `loc`, every call the backup view issues names only paths at or below
`loc` — for every location string (unclean, trailing separators, any depth).  BackupFS hands the
base view *resolved* paths for mutating calls, so whenever resolution is exact (C16) no mutation
lands at or below `loc` and the location is never backed up into itself.  Reaching `loc` through
link chains the single-pass resolver does not resolve, or through read-only calls (which are not
resolved), is the known finding K-hidden-symlink-route.
-/
namespace Props.C04
open BFS

/-- `NewHiddenFS(loc)` stores exactly the cleaned location -/
theorem hidden_set (loc : Path) : HiddenFS.mk [loc] = [clean loc] := rfl

/-- T04.1 wiring: both layers are built from the same cleaned location -/
theorem newWithFS_wiring (inner : FSI MFS) (loc : Path) :
    (newWithFS inner loc).base = hiddenFS [loc] inner ∧ (newWithFS inner loc).backup = prefixFS loc inner :=
  ⟨rfl, rfl⟩

/-- T04.2a whatever the base view delegates names nothing at or below the location … -/
theorem base_view_never_names_loc (loc : Path) (c c' : Call)
    (h : HiddenFS.translate (HiddenFS.mk [loc]) c = .ok c') :
    ∀ n ∈ HiddenFS.guardedNames c, ¬ Within (clean loc) n := by
  intro n hn
  exact Props.C06.hidden_never_delegated (HiddenFS.mk [loc]) c c' h n hn (clean loc) (by simp [hidden_set])

/-- T04.2b … and whatever the backup view issues stays at or below it. -/
theorem backup_view_confined_to_loc (loc : Path) (c c' : Call)
    (h : PrefixFS.translate (PrefixFS.mk loc) c = .ok c') :
    ∀ a ∈ c'.accessPaths, Within (clean loc) a :=
  Props.C05.prefix_confines (PrefixFS.mk loc) c c' h

/-- T04.3 a name at or below the location is refused by the base view for every method
(comparable = the location and the name are both rooted, as in the documented set-up) -/
theorem loc_is_hidden (loc name : Path) (hw : Within (clean loc) name)
    (hc : Comparable (HiddenFS.mk [loc]) name) : HiddenFS.isHidden name (HiddenFS.mk [loc]) = .ok true :=
  isHidden_of_within_comparable ⟨clean loc, by simp [hidden_set], hw⟩ hc

example : HiddenFS.translate (HiddenFS.mk ["/var/opt/backups/".toList]) (.remove "/var/opt//backups/x".toList)
    = .error .hiddenNotExist := by decide

end Props.C04
