import Lemmas.J12Valid
import Lemmas.J12Txs
import Lemmas.J12G
import Props.C01G
import Props.C01
import Props.C07
import Props.C12
/-!
# C12, end to end — restarts are invisible, at any point of any covered history

`Props/C12.lean` proves that persist → restart → reload is the identity on the tracked map
**provided** every tracked `FileInfo` is `Info.Valid` (name = `Base` of its path, 12 mode bits,
uid/gid below 2³²).  This file discharges that hypothesis for the states a BackupFS can actually be
in, and composes the result with C01 and C07:

* `infos_valid_after_history` (E1) — OS model behind two `PrefixFS` layers, well-formed link-free
  disk whose owners fit 32 bits, fresh BackupFS, ANY covered history under ANY fault plan: every
  tracked info is valid (the root entry `"/"` included: `PrefixFS` reports its name as `"/"`, which
  is `path.Base("/")`).
* `restart_anywhere_equiv` (E2) — a session is a list of steps, each an operation or "persist,
  restart, reload" (`BFS.Step`, `BFS.runOpsR`, Lemmas/J12Def.lean; the restart step is the driver's
  `bfs.reload`): the world after any interleaving equals the world after the operations alone —
  same disk, same tracked map, same trace and occurrence counters.  Any number of restarts, also
  in the middle of a transaction, also under fault plans.
* `rollback_after_restart_equiv` (E3) — hence `Rollback` issued on the re-created instance is
  `Rollback` on the original one: same primitive calls in the same order, same result, same final
  world; with C01/C07: `rollback_after_restart_restores_linkfree_partial`,
  `backup_clean_after_restart_linkfree_partial`, `rollback_returns_nil_after_restart_linkfree_partial`.
* `…_symlink_leaves…` (E4) — the same for trees with symlinks as leaves (fragment of
  `Props.C01.rollback_restores_symlink_leaves_partial`).

Why no hypothesis on the `Chown`/`Lchown` arguments of the history is needed: a tracked info
describes the ORIGINAL entry (`Inv.saved`; first write wins), so its owner is an owner of the
initial disk, whatever the transaction did afterwards.  `OwnersSmall` (decidable) is a hypothesis on
the initial disk only; real disks satisfy it (`uid_t` is 32 bits wide), the model's owners are
unbounded naturals.
-/
namespace Props.C12
open BFS BFS.BackupFS BFS.J12

/-! ## link-free fragment -/

/-- E1  after any covered history — whatever failed, whatever the fault plan — every tracked
`FileInfo` survives the JSON round trip unchanged. -/
theorem infos_valid_after_history (bk kk : Key) (hbk : PKey bk) (hkk : PKey kk)
    (hne1 : bk ≠ []) (hne2 : kk ≠ []) (hd1 : ¬ bk <+: kk) (hd2 : ¬ kk <+: bk)
    (w : World) (hg : OSGood bk kk w.fs) (hinfos : w.infos = []) (hown : OwnersSmall w.fs = true)
    (ops : List Op)
    (hcov : CoveredHist (osCfg bk kk) (osSim bk kk hbk hkk hne1 hne2 hd1 hd2) w ops) :
    ∀ e ∈ (runOps (osCfg bk kk) w ops).infos, ∀ i, e.2 = some i → i.Valid e.1 :=
  valid_after_history (S := osSim bk kk hbk hkk hne1 hne2 hd1 hd2) (lstatN_osK bk kk hbk) hg hinfos
    (smallView_os hg hown .base) ops hcov

/-- E1, as the property phrases it: the tracked state exported and re-imported is the original
one — same paths, same existed/did-not-exist distinction, same type, permission bits, modification
time, size and owner (and name): the two lists of entries are EQUAL. -/
theorem reload_identity_after_history (bk kk : Key) (hbk : PKey bk) (hkk : PKey kk)
    (hne1 : bk ≠ []) (hne2 : kk ≠ []) (hd1 : ¬ bk <+: kk) (hd2 : ¬ kk <+: bk)
    (w : World) (hg : OSGood bk kk w.fs) (hinfos : w.infos = []) (hown : OwnersSmall w.fs = true)
    (ops : List Op)
    (hcov : CoveredHist (osCfg bk kk) (osSim bk kk hbk hkk hne1 hne2 hd1 hd2) w ops) :
    reloadInfos (runOps (osCfg bk kk) w ops).infos = (runOps (osCfg bk kk) w ops).infos :=
  reload_identity _ (infos_valid_after_history bk kk hbk hkk hne1 hne2 hd1 hd2 w hg hinfos hown ops hcov)

/-- E2  restarts are invisible: the world after any interleaving of covered operations and
restarts (any number, anywhere, under any fault plan) is the world after the operations alone. -/
theorem restart_anywhere_equiv (bk kk : Key) (hbk : PKey bk) (hkk : PKey kk)
    (hne1 : bk ≠ []) (hne2 : kk ≠ []) (hd1 : ¬ bk <+: kk) (hd2 : ¬ kk <+: bk)
    (w : World) (hg : OSGood bk kk w.fs) (hinfos : w.infos = []) (hown : OwnersSmall w.fs = true)
    (steps : List Step)
    (hcov : CoveredHist (osCfg bk kk) (osSim bk kk hbk hkk hne1 hne2 hd1 hd2) w (opsOf steps)) :
    runOpsR (osCfg bk kk) w steps = runOps (osCfg bk kk) w (opsOf steps) :=
  restart_anywhere (S := osSim bk kk hbk hkk hne1 hne2 hd1 hd2) (lstatN_osK bk kk hbk) hg hinfos
    (smallView_os hg hown .base) steps hcov

/-- E3  `Rollback` on the instance that is current after a session with restarts — in particular
on a re-created one — IS `Rollback` on an instance that was never restarted: the same primitive
calls in the same order (the trace is part of the world), the same result, the same final world. -/
theorem rollback_after_restart_equiv (bk kk : Key) (hbk : PKey bk) (hkk : PKey kk)
    (hne1 : bk ≠ []) (hne2 : kk ≠ []) (hd1 : ¬ bk <+: kk) (hd2 : ¬ kk <+: bk)
    (w : World) (hg : OSGood bk kk w.fs) (hinfos : w.infos = []) (hown : OwnersSmall w.fs = true)
    (steps : List Step)
    (hcov : CoveredHist (osCfg bk kk) (osSim bk kk hbk hkk hne1 hne2 hd1 hd2) w (opsOf steps)) :
    rollback (osCfg bk kk) (runOpsR (osCfg bk kk) w steps) =
      rollback (osCfg bk kk) (runOps (osCfg bk kk) w (opsOf steps)) := by
  rw [restart_anywhere_equiv bk kk hbk hkk hne1 hne2 hd1 hd2 w hg hinfos hown steps hcov]

/-- `restart_equiv` (Props/C12.lean) with its hypothesis discharged: restart right before
`Rollback`, after any covered history. -/
theorem restart_equiv_after_history (bk kk : Key) (hbk : PKey bk) (hkk : PKey kk)
    (hne1 : bk ≠ []) (hne2 : kk ≠ []) (hd1 : ¬ bk <+: kk) (hd2 : ¬ kk <+: bk)
    (w : World) (hg : OSGood bk kk w.fs) (hinfos : w.infos = []) (hown : OwnersSmall w.fs = true)
    (ops : List Op)
    (hcov : CoveredHist (osCfg bk kk) (osSim bk kk hbk hkk hne1 hne2 hd1 hd2) w ops) :
    rollback (osCfg bk kk) (restart (runOps (osCfg bk kk) w ops)) =
      rollback (osCfg bk kk) (runOps (osCfg bk kk) w ops) :=
  restart_equiv _ _ (infos_valid_after_history bk kk hbk hkk hne1 hne2 hd1 hd2 w hg hinfos hown ops hcov)

theorem runTxR_eq (bk kk : Key) (hbk : PKey bk) (hkk : PKey kk)
    (hne1 : bk ≠ []) (hne2 : kk ≠ []) (hd1 : ¬ bk <+: kk) (hd2 : ¬ kk <+: bk)
    (w : World) (hg : OSGood bk kk w.fs) (hinfos : w.infos = []) (hown : OwnersSmall w.fs = true)
    (steps : List Step)
    (hcov : CoveredHist (osCfg bk kk) (osSim bk kk hbk hkk hne1 hne2 hd1 hd2) w (opsOf steps)) :
    runTxR (osCfg bk kk) w steps = runTx (osCfg bk kk) w (opsOf steps) := by
  unfold runTxR runTx
  rw [rollback_after_restart_equiv bk kk hbk hkk hne1 hne2 hd1 hd2 w hg hinfos hown steps hcov]

/-- E3 + C01  a `Rollback` issued on the re-created instance, after any covered history with any
restarts in between, restores every entry of the base below its root (path set, types, contents,
twelve mode bits, owners, file mtimes; directory mtimes erased, as in C01). -/
theorem rollback_after_restart_restores_linkfree_partial (bk kk : Key) (hbk : PKey bk) (hkk : PKey kk)
    (hne1 : bk ≠ []) (hne2 : kk ≠ []) (hd1 : ¬ bk <+: kk) (hd2 : ¬ kk <+: bk)
    (w : World) (hg : OSGood bk kk w.fs) (hinfos : w.infos = []) (hnf : w.faults = [])
    (hown : OwnersSmall w.fs = true) (steps : List Step)
    (hcov : CoveredHist (osCfg bk kk) (osSim bk kk hbk hkk hne1 hne2 hd1 hd2) w (opsOf steps)) :
    ∀ k, k ≠ [] →
      ((runTxR (osCfg bk kk) w steps).fs.get (bk ++ k)).map eraseMt = (w.fs.get (bk ++ k)).map eraseMt := by
  rw [runTxR_eq bk kk hbk hkk hne1 hne2 hd1 hd2 w hg hinfos hown steps hcov]
  exact Props.C01.rollback_restores_linkfree_partial bk kk hbk hkk hne1 hne2 hd1 hd2 w hg hinfos hnf
    [opsOf steps] ⟨hcov, trivial⟩

/-- E3 + C07  … and leaves the backup filesystem exactly as it was before the transaction
(healthy filesystems, backup root empty at the start). -/
theorem backup_clean_after_restart_linkfree_partial (bk kk : Key) (hbk : PKey bk) (hkk : PKey kk)
    (hne1 : bk ≠ []) (hne2 : kk ≠ []) (hd1 : ¬ bk <+: kk) (hd2 : ¬ kk <+: bk)
    (w : World) (hg : OSGood bk kk w.fs) (hinfos : w.infos = []) (hnf : w.faults = [])
    (hown : OwnersSmall w.fs = true)
    (hempty : ∀ k, k ≠ [] → w.fs.get (kk ++ k) = none) (steps : List Step)
    (hcov : CoveredHist (osCfg bk kk) (osSim bk kk hbk hkk hne1 hne2 hd1 hd2) w (opsOf steps)) :
    ∀ k, ((runTxR (osCfg bk kk) w steps).fs.get (kk ++ k)).map eraseMt = (w.fs.get (kk ++ k)).map eraseMt := by
  rw [runTxR_eq bk kk hbk hkk hne1 hne2 hd1 hd2 w hg hinfos hown steps hcov]
  exact Props.C07.backup_clean_after_rollback_linkfree_partial bk kk hbk hkk hne1 hne2 hd1 hd2 w hg hinfos
    hnf hempty [opsOf steps] ⟨hcov, trivial⟩

/-- E3 + C01/C07  … and returns nil. -/
theorem rollback_returns_nil_after_restart_linkfree_partial (bk kk : Key) (hbk : PKey bk) (hkk : PKey kk)
    (hne1 : bk ≠ []) (hne2 : kk ≠ []) (hd1 : ¬ bk <+: kk) (hd2 : ¬ kk <+: bk)
    (w : World) (hg : OSGood bk kk w.fs) (hinfos : w.infos = []) (hnf : w.faults = [])
    (hown : OwnersSmall w.fs = true)
    (hempty : ∀ k, k ≠ [] → w.fs.get (kk ++ k) = none) (steps : List Step)
    (hcov : CoveredHist (osCfg bk kk) (osSim bk kk hbk hkk hne1 hne2 hd1 hd2) w (opsOf steps)) :
    (rollback (osCfg bk kk) (runOpsR (osCfg bk kk) w steps)).2 = .ok false := by
  rw [rollback_after_restart_equiv bk kk hbk hkk hne1 hne2 hd1 hd2 w hg hinfos hown steps hcov]
  exact Props.C07.rollback_returns_nil_linkfree_partial bk kk hbk hkk hne1 hne2 hd1 hd2 w hg hinfos hnf
    hempty [opsOf steps] ⟨hcov, trivial⟩ [] (opsOf steps) [] rfl

/-- E3 + C08  also when the fault plan hit the operations: once the filesystems are healthy again,
`Rollback` on the re-created instance restores the base. -/
theorem later_rollback_after_restart_still_restores_linkfree_partial (bk kk : Key) (hbk : PKey bk)
    (hkk : PKey kk) (hne1 : bk ≠ []) (hne2 : kk ≠ []) (hd1 : ¬ bk <+: kk) (hd2 : ¬ kk <+: bk)
    (w : World) (hg : OSGood bk kk w.fs) (hinfos : w.infos = []) (hown : OwnersSmall w.fs = true)
    (steps : List Step)
    (hcov : CoveredHist (osCfg bk kk) (osSim bk kk hbk hkk hne1 hne2 hd1 hd2) w (opsOf steps)) :
    ∀ k, k ≠ [] →
      ((rollback (osCfg bk kk) { runOpsR (osCfg bk kk) w steps with faults := [] }).1.fs.get (bk ++ k)).map eraseMt =
        (w.fs.get (bk ++ k)).map eraseMt := by
  rw [restart_anywhere_equiv bk kk hbk hkk hne1 hne2 hd1 hd2 w hg hinfos hown steps hcov]
  exact tx_restores_after_faults (S := osSim bk kk hbk hkk hne1 hne2 hd1 hd2) hg hinfos (opsOf steps) hcov

/-! ## symlinks as leaves -/

theorem infos_valid_after_history_symlink_leaves (bk kk : Key) (hbk : PKey bk) (hkk : PKey kk)
    (hne1 : bk ≠ []) (hne2 : kk ≠ []) (hd1 : ¬ bk <+: kk) (hd2 : ¬ kk <+: bk)
    (w : World) (hg : L.OSGoodL bk kk w.fs) (hinfos : w.infos = []) (hown : OwnersSmall w.fs = true)
    (hbl : ∀ k, (∃ t mt, w.fs.get (kk ++ k) = some (.link t mt)) → ∃ t mt, w.fs.get (bk ++ k) = some (.link t mt))
    (ops : List Op)
    (hcov : L.CoveredHist (osCfg bk kk) (L.osSimL bk kk hbk hkk hne1 hne2 hd1 hd2) w ops) :
    ∀ e ∈ (runOps (osCfg bk kk) w ops).infos, ∀ i, e.2 = some i → i.Valid e.1 :=
  valid_after_historyL (S := L.osSimL bk kk hbk hkk hne1 hne2 hd1 hd2) (lstatN_osK bk kk hbk) hg hinfos
    (fun k hl => Props.C01L.isLinkAt_osViewL.mpr (hbl k (Props.C01L.isLinkAt_osViewL.mp hl)))
    (smallView_osL hg hown .base) ops hcov

theorem restart_anywhere_equiv_symlink_leaves (bk kk : Key) (hbk : PKey bk) (hkk : PKey kk)
    (hne1 : bk ≠ []) (hne2 : kk ≠ []) (hd1 : ¬ bk <+: kk) (hd2 : ¬ kk <+: bk)
    (w : World) (hg : L.OSGoodL bk kk w.fs) (hinfos : w.infos = []) (hown : OwnersSmall w.fs = true)
    (hbl : ∀ k, (∃ t mt, w.fs.get (kk ++ k) = some (.link t mt)) → ∃ t mt, w.fs.get (bk ++ k) = some (.link t mt))
    (steps : List Step)
    (hcov : L.CoveredHist (osCfg bk kk) (L.osSimL bk kk hbk hkk hne1 hne2 hd1 hd2) w (opsOf steps)) :
    runOpsR (osCfg bk kk) w steps = runOps (osCfg bk kk) w (opsOf steps) :=
  restart_anywhereL (S := L.osSimL bk kk hbk hkk hne1 hne2 hd1 hd2) (lstatN_osK bk kk hbk) hg hinfos
    (fun k hl => Props.C01L.isLinkAt_osViewL.mpr (hbl k (Props.C01L.isLinkAt_osViewL.mp hl)))
    (smallView_osL hg hown .base) steps hcov

theorem rollback_after_restart_equiv_symlink_leaves (bk kk : Key) (hbk : PKey bk) (hkk : PKey kk)
    (hne1 : bk ≠ []) (hne2 : kk ≠ []) (hd1 : ¬ bk <+: kk) (hd2 : ¬ kk <+: bk)
    (w : World) (hg : L.OSGoodL bk kk w.fs) (hinfos : w.infos = []) (hown : OwnersSmall w.fs = true)
    (hbl : ∀ k, (∃ t mt, w.fs.get (kk ++ k) = some (.link t mt)) → ∃ t mt, w.fs.get (bk ++ k) = some (.link t mt))
    (steps : List Step)
    (hcov : L.CoveredHist (osCfg bk kk) (L.osSimL bk kk hbk hkk hne1 hne2 hd1 hd2) w (opsOf steps)) :
    rollback (osCfg bk kk) (runOpsR (osCfg bk kk) w steps) =
      rollback (osCfg bk kk) (runOps (osCfg bk kk) w (opsOf steps)) := by
  rw [restart_anywhere_equiv_symlink_leaves bk kk hbk hkk hne1 hne2 hd1 hd2 w hg hinfos hown hbl steps hcov]

/-- E4  `Rollback` on the re-created instance restores the base — trees with symlinks as leaves
the transaction never traverses, `Symlink` operation included. -/
theorem rollback_after_restart_restores_symlink_leaves_partial (bk kk : Key) (hbk : PKey bk) (hkk : PKey kk)
    (hne1 : bk ≠ []) (hne2 : kk ≠ []) (hd1 : ¬ bk <+: kk) (hd2 : ¬ kk <+: bk)
    (w : World) (hg : L.OSGoodL bk kk w.fs) (hinfos : w.infos = []) (hnf : w.faults = [])
    (hown : OwnersSmall w.fs = true)
    (hbl : ∀ k, (∃ t mt, w.fs.get (kk ++ k) = some (.link t mt)) → ∃ t mt, w.fs.get (bk ++ k) = some (.link t mt))
    (steps : List Step)
    (hcov : L.CoveredHist (osCfg bk kk) (L.osSimL bk kk hbk hkk hne1 hne2 hd1 hd2) w (opsOf steps)) :
    ∀ k, k ≠ [] →
      ((runTxR (osCfg bk kk) w steps).fs.get (bk ++ k)).map (L.eraseV (kp bk)) =
        (w.fs.get (bk ++ k)).map (L.eraseV (kp bk)) := by
  have e : runTxR (osCfg bk kk) w steps = runTx (osCfg bk kk) w (opsOf steps) := by
    unfold runTxR runTx
    rw [rollback_after_restart_equiv_symlink_leaves bk kk hbk hkk hne1 hne2 hd1 hd2 w hg hinfos hown hbl steps hcov]
  rw [e]
  exact Props.C01.rollback_restores_symlink_leaves_partial bk kk hbk hkk hne1 hne2 hd1 hd2 w hg hinfos hnf hbl
    [opsOf steps] ⟨hcov, trivial⟩

/-! ## any number of transactions

Every transaction is a session of covered operations and restarts, ended by `Rollback` on the
instance that is current then (`runTxsR`).  New hypothesis `hargs`: the uid/gid arguments the client
passes to `Chown`/`Lchown` fit 32 bits (negative = keep) — with it "every owner on the disk fits
32 bits" is an invariant of everything BackupFS does (`Lemmas/J12Small.lean`), so the hypothesis of
E1 holds again at the start of every transaction (inside ONE transaction it is not needed: tracked
infos describe originals).  In the model an argument ≥ 2³² would be stored as is; the kernel ABI
truncates it. -/

/-- E2 for several transactions: the world after all of them, restarts anywhere, is the world
without any restart. -/
theorem restart_anywhere_equiv_txs (bk kk : Key) (hbk : PKey bk) (hkk : PKey kk)
    (hne1 : bk ≠ []) (hne2 : kk ≠ []) (hd1 : ¬ bk <+: kk) (hd2 : ¬ kk <+: bk)
    (w : World) (hg : OSGood bk kk w.fs) (hinfos : w.infos = []) (hnf : w.faults = [])
    (hown : OwnersSmall w.fs = true) (txs : List (List Step))
    (hargs : ∀ tx ∈ txs, ∀ op ∈ opsOf tx, OpSmall op)
    (hcov : CoveredTxs (osCfg bk kk) (osSim bk kk hbk hkk hne1 hne2 hd1 hd2) w (txs.map opsOf)) :
    runTxsR (osCfg bk kk) w txs = (txs.map opsOf).foldl (runTx (osCfg bk kk)) w :=
  txsR_eq (S := osSim bk kk hbk hkk hne1 hne2 hd1 hd2) (lstatN_osK bk kk hbk) (smallCfg_os bk kk)
    (fun _ h => smallView_of_sd bk kk .base h) txs w hg hinfos hnf (sd_of_ownersSmall hg.dom hown) hcov hargs

/-- E3 + C01, several transactions -/
theorem rollback_after_restart_restores_txs_linkfree_partial (bk kk : Key) (hbk : PKey bk) (hkk : PKey kk)
    (hne1 : bk ≠ []) (hne2 : kk ≠ []) (hd1 : ¬ bk <+: kk) (hd2 : ¬ kk <+: bk)
    (w : World) (hg : OSGood bk kk w.fs) (hinfos : w.infos = []) (hnf : w.faults = [])
    (hown : OwnersSmall w.fs = true) (txs : List (List Step))
    (hargs : ∀ tx ∈ txs, ∀ op ∈ opsOf tx, OpSmall op)
    (hcov : CoveredTxs (osCfg bk kk) (osSim bk kk hbk hkk hne1 hne2 hd1 hd2) w (txs.map opsOf)) :
    ∀ k, k ≠ [] →
      ((runTxsR (osCfg bk kk) w txs).fs.get (bk ++ k)).map eraseMt = (w.fs.get (bk ++ k)).map eraseMt := by
  rw [restart_anywhere_equiv_txs bk kk hbk hkk hne1 hne2 hd1 hd2 w hg hinfos hnf hown txs hargs hcov]
  exact Props.C01.rollback_restores_linkfree_partial bk kk hbk hkk hne1 hne2 hd1 hd2 w hg hinfos hnf _ hcov

/-- E3 + C07, several transactions -/
theorem backup_clean_after_restart_txs_linkfree_partial (bk kk : Key) (hbk : PKey bk) (hkk : PKey kk)
    (hne1 : bk ≠ []) (hne2 : kk ≠ []) (hd1 : ¬ bk <+: kk) (hd2 : ¬ kk <+: bk)
    (w : World) (hg : OSGood bk kk w.fs) (hinfos : w.infos = []) (hnf : w.faults = [])
    (hown : OwnersSmall w.fs = true)
    (hempty : ∀ k, k ≠ [] → w.fs.get (kk ++ k) = none) (txs : List (List Step))
    (hargs : ∀ tx ∈ txs, ∀ op ∈ opsOf tx, OpSmall op)
    (hcov : CoveredTxs (osCfg bk kk) (osSim bk kk hbk hkk hne1 hne2 hd1 hd2) w (txs.map opsOf)) :
    ∀ k, ((runTxsR (osCfg bk kk) w txs).fs.get (kk ++ k)).map eraseMt = (w.fs.get (kk ++ k)).map eraseMt := by
  rw [restart_anywhere_equiv_txs bk kk hbk hkk hne1 hne2 hd1 hd2 w hg hinfos hnf hown txs hargs hcov]
  exact Props.C07.backup_clean_after_rollback_linkfree_partial bk kk hbk hkk hne1 hne2 hd1 hd2 w hg hinfos
    hnf hempty _ hcov

/-- every `Rollback` — each issued on whatever instance is current at that point — returns nil -/
theorem rollback_returns_nil_after_restart_txs_linkfree_partial (bk kk : Key) (hbk : PKey bk) (hkk : PKey kk)
    (hne1 : bk ≠ []) (hne2 : kk ≠ []) (hd1 : ¬ bk <+: kk) (hd2 : ¬ kk <+: bk)
    (w : World) (hg : OSGood bk kk w.fs) (hinfos : w.infos = []) (hnf : w.faults = [])
    (hown : OwnersSmall w.fs = true)
    (hempty : ∀ k, k ≠ [] → w.fs.get (kk ++ k) = none) (txs : List (List Step))
    (hargs : ∀ tx ∈ txs, ∀ op ∈ opsOf tx, OpSmall op)
    (hcov : CoveredTxs (osCfg bk kk) (osSim bk kk hbk hkk hne1 hne2 hd1 hd2) w (txs.map opsOf)) :
    ∀ pre tx post, txs = pre ++ tx :: post →
      (rollback (osCfg bk kk) (runOpsR (osCfg bk kk) (runTxsR (osCfg bk kk) w pre) tx)).2 = .ok false := by
  intro pre tx post heq
  rw [txsR_each (S := osSim bk kk hbk hkk hne1 hne2 hd1 hd2) (lstatN_osK bk kk hbk) (smallCfg_os bk kk)
    (fun _ h => smallView_of_sd bk kk .base h) txs w hg hinfos hnf (sd_of_ownersSmall hg.dom hown) hcov hargs
    pre tx post heq]
  exact Props.C07.rollback_returns_nil_linkfree_partial bk kk hbk hkk hne1 hne2 hd1 hd2 w hg hinfos hnf
    hempty _ hcov (pre.map opsOf) (opsOf tx) (post.map opsOf) (by rw [heq]; simp)

/-- E4, several transactions -/
theorem rollback_after_restart_restores_txs_symlink_leaves_partial (bk kk : Key) (hbk : PKey bk) (hkk : PKey kk)
    (hne1 : bk ≠ []) (hne2 : kk ≠ []) (hd1 : ¬ bk <+: kk) (hd2 : ¬ kk <+: bk)
    (w : World) (hg : L.OSGoodL bk kk w.fs) (hinfos : w.infos = []) (hnf : w.faults = [])
    (hown : OwnersSmall w.fs = true)
    (hbl : ∀ k, (∃ t mt, w.fs.get (kk ++ k) = some (.link t mt)) → ∃ t mt, w.fs.get (bk ++ k) = some (.link t mt))
    (txs : List (List Step)) (hargs : ∀ tx ∈ txs, ∀ op ∈ opsOf tx, OpSmall op)
    (hcov : L.CoveredTxs (osCfg bk kk) (L.osSimL bk kk hbk hkk hne1 hne2 hd1 hd2) w (txs.map opsOf)) :
    ∀ k, k ≠ [] →
      ((runTxsR (osCfg bk kk) w txs).fs.get (bk ++ k)).map (L.eraseV (kp bk)) =
        (w.fs.get (bk ++ k)).map (L.eraseV (kp bk)) := by
  rw [txsR_eqL (S := L.osSimL bk kk hbk hkk hne1 hne2 hd1 hd2) (lstatN_osK bk kk hbk) (smallCfg_os bk kk)
    (fun _ h => smallViewL_of_sd bk kk .base h) txs w hg hinfos hnf
    (fun k hl => Props.C01L.isLinkAt_osViewL.mpr (hbl k (Props.C01L.isLinkAt_osViewL.mp hl)))
    (sd_of_ownersSmall hg.dom hown) hcov hargs]
  exact Props.C01.rollback_restores_symlink_leaves_partial bk kk hbk hkk hne1 hne2 hd1 hd2 w hg hinfos hnf hbl _ hcov

/-! ## names through symlinks on flat disks (fragment of `Props.C01.rollback_restores_through_flat_links_partial`) -/

theorem infos_valid_after_history_through_flat_links (bk kk : Key) (hbk : PKey bk) (hkk : PKey kk)
    (hne1 : bk ≠ []) (hne2 : kk ≠ []) (hd1 : ¬ bk <+: kk) (hd2 : ¬ kk <+: bk)
    (w : World) (hg : L.OSGoodL bk kk w.fs) (hinfos : w.infos = []) (hown : OwnersSmall w.fs = true)
    (hbl : ∀ k, (∃ t mt, w.fs.get (kk ++ k) = some (.link t mt)) → ∃ t mt, w.fs.get (bk ++ k) = some (.link t mt))
    (ops : List Op)
    (hcov : L.G.CoveredHist (osCfg bk kk) bk (L.osSimL bk kk hbk hkk hne1 hne2 hd1 hd2) w ops) :
    ∀ e ∈ (runOps (osCfg bk kk) w ops).infos, ∀ i, e.2 = some i → i.Valid e.1 :=
  valid_after_historyG (hbk := hbk) (hkk := hkk) (hne1 := hne1) (hne2 := hne2) (hd1 := hd1) (hd2 := hd2) hg hinfos
    (fun k hl => Props.C01L.isLinkAt_osViewL.mpr (hbl k (Props.C01L.isLinkAt_osViewL.mp hl)))
    (sd_of_ownersSmall hg.dom hown) ops hcov

theorem restart_anywhere_equiv_through_flat_links (bk kk : Key) (hbk : PKey bk) (hkk : PKey kk)
    (hne1 : bk ≠ []) (hne2 : kk ≠ []) (hd1 : ¬ bk <+: kk) (hd2 : ¬ kk <+: bk)
    (w : World) (hg : L.OSGoodL bk kk w.fs) (hinfos : w.infos = []) (hown : OwnersSmall w.fs = true)
    (hbl : ∀ k, (∃ t mt, w.fs.get (kk ++ k) = some (.link t mt)) → ∃ t mt, w.fs.get (bk ++ k) = some (.link t mt))
    (steps : List Step)
    (hcov : L.G.CoveredHist (osCfg bk kk) bk (L.osSimL bk kk hbk hkk hne1 hne2 hd1 hd2) w (opsOf steps)) :
    runOpsR (osCfg bk kk) w steps = runOps (osCfg bk kk) w (opsOf steps) :=
  restart_anywhereG (hbk := hbk) (hkk := hkk) (hne1 := hne1) (hne2 := hne2) (hd1 := hd1) (hd2 := hd2) hg hinfos
    (fun k hl => Props.C01L.isLinkAt_osViewL.mpr (hbl k (Props.C01L.isLinkAt_osViewL.mp hl)))
    (sd_of_ownersSmall hg.dom hown) steps hcov

/-- Rollback on the re-created instance restores the base — names through flat link topologies,
any number of transactions, restarts anywhere. -/
theorem rollback_after_restart_restores_txs_through_flat_links_partial (bk kk : Key) (hbk : PKey bk) (hkk : PKey kk)
    (hne1 : bk ≠ []) (hne2 : kk ≠ []) (hd1 : ¬ bk <+: kk) (hd2 : ¬ kk <+: bk)
    (w : World) (hg : L.OSGoodL bk kk w.fs) (hinfos : w.infos = []) (hnf : w.faults = [])
    (hown : OwnersSmall w.fs = true)
    (hbl : ∀ k, (∃ t mt, w.fs.get (kk ++ k) = some (.link t mt)) → ∃ t mt, w.fs.get (bk ++ k) = some (.link t mt))
    (txs : List (List Step)) (hargs : ∀ tx ∈ txs, ∀ op ∈ opsOf tx, OpSmall op)
    (hcov : L.G.CoveredTxs (osCfg bk kk) bk (L.osSimL bk kk hbk hkk hne1 hne2 hd1 hd2) w (txs.map opsOf)) :
    ∀ k, k ≠ [] →
      ((runTxsR (osCfg bk kk) w txs).fs.get (bk ++ k)).map (L.eraseV (kp bk)) =
        (w.fs.get (bk ++ k)).map (L.eraseV (kp bk)) := by
  rw [txsR_eqG (hbk := hbk) (hkk := hkk) (hne1 := hne1) (hne2 := hne2) (hd1 := hd1) (hd2 := hd2) txs w hg hinfos hnf
    (fun k hl => Props.C01L.isLinkAt_osViewL.mpr (hbl k (Props.C01L.isLinkAt_osViewL.mp hl)))
    (sd_of_ownersSmall hg.dom hown) hcov hargs]
  exact Props.C01.rollback_restores_through_flat_links_partial bk kk hbk hkk hne1 hne2 hd1 hd2 w hg hinfos hnf hbl _ hcov

/-- the owner invariant on its own (any history, any fault plan, no coverage needed): if the
initial disk and the client's `Chown`/`Lchown` arguments fit 32 bits, so does every owner on the
disk and in the tracked map after any history and after `Rollback`. -/
theorem owners_small_after_history (bk kk : Key) (w : World) (hdom : ∀ k n, w.fs.get k = some n → k ∈ w.fs.dom)
    (hown : OwnersSmall w.fs = true) (hinfos : w.infos = []) (ops : List Op) (hargs : ∀ op ∈ ops, OpSmall op) :
    (∀ k n, (runOps (osCfg bk kk) w ops).fs.get k = some n → n.meta.uid < 4294967296 ∧ n.meta.gid < 4294967296) ∧
    (∀ p i, (p, some i) ∈ (runOps (osCfg bk kk) w ops).infos → i.uid < 4294967296 ∧ i.gid < 4294967296) ∧
    (∀ k n, (runTx (osCfg bk kk) w ops).fs.get k = some n → n.meta.uid < 4294967296 ∧ n.meta.gid < 4294967296) := by
  have h := runOps_SI (smallCfg_os bk kk) ops w hargs (SI.init (sd_of_ownersSmall hdom hown) hinfos)
  exact ⟨h.1, h.2, runTx_SD (smallCfg_os bk kk) (sd_of_ownersSmall hdom hown) hinfos ops hargs⟩

/-! ## Non-vacuity, and what the hypotheses exclude -/

/-- `/b` (base root) with a SET-UID file `/b/f` (mode 04755, owner 1000:1001, mtime 5 ns before the
epoch) and a set-gid directory `/b/d` (mode 02775, owner 1000:50); `/k` is the empty backup root -/
def exDisk12 : MFS where
  get := fun k =>
    if k = [] then some (.dir exMeta)
    else if k = [['b']] then some (.dir exMeta)
    else if k = [['k']] then some (.dir exMeta)
    else if k = [['b'], ['f']] then some (.file "hello" { mode := 0o4755, uid := 1000, gid := 1001, mtime := .old (-5) })
    else if k = [['b'], ['d']] then some (.dir { mode := 0o2775, uid := 1000, gid := 50, mtime := .old 7 })
    else none
  dom := [[], [['b']], [['k']], [['b'], ['f']], [['b'], ['d']]]
  umask := 0o022

theorem exDisk12_live {k : Key} {n : Node} (h : exDisk12.get k = some n) :
    (k = [] ∧ n = .dir exMeta) ∨ (k = [['b']] ∧ n = .dir exMeta) ∨ (k = [['k']] ∧ n = .dir exMeta) ∨
    (k = [['b'], ['f']] ∧ n = .file "hello" { mode := 0o4755, uid := 1000, gid := 1001, mtime := .old (-5) }) ∨
    (k = [['b'], ['d']] ∧ n = .dir { mode := 0o2775, uid := 1000, gid := 50, mtime := .old 7 }) := by
  simp only [exDisk12] at h
  split at h
  · cases h; exact Or.inl ⟨‹_›, rfl⟩
  split at h
  · cases h; exact Or.inr (Or.inl ⟨‹_›, rfl⟩)
  split at h
  · cases h; exact Or.inr (Or.inr (Or.inl ⟨‹_›, rfl⟩))
  split at h
  · cases h; exact Or.inr (Or.inr (Or.inr (Or.inl ⟨‹_›, rfl⟩)))
  split at h
  · cases h; exact Or.inr (Or.inr (Or.inr (Or.inr ⟨‹_›, rfl⟩)))
  · cases h

theorem osGood_ex12 : OSGood [['b']] [['k']] exDisk12 := by
  refine ⟨⟨_, rfl⟩, ?_, ?_, ?_, ?_, ⟨_, rfl⟩, ⟨_, rfl⟩, ?_⟩
  · intro k n h
    rcases exDisk12_live h with ⟨rfl, _⟩ | ⟨rfl, _⟩ | ⟨rfl, _⟩ | ⟨rfl, _⟩ | ⟨rfl, _⟩ <;> decide
  · intro k n h
    rcases exDisk12_live h with ⟨rfl, _⟩ | ⟨rfl, _⟩ | ⟨rfl, _⟩ | ⟨rfl, _⟩ | ⟨rfl, _⟩ <;> decide
  · intro k n h
    rcases exDisk12_live h with ⟨_, rfl⟩ | ⟨_, rfl⟩ | ⟨_, rfl⟩ | ⟨_, rfl⟩ | ⟨_, rfl⟩ <;> decide
  · intro k n h hne
    rcases exDisk12_live h with ⟨rfl, _⟩ | ⟨rfl, _⟩ | ⟨rfl, _⟩ | ⟨rfl, _⟩ | ⟨rfl, _⟩
    · exact absurd rfl hne
    all_goals exact ⟨_, rfl⟩
  · intro k t mt _ h
    rcases exDisk12_live h with ⟨_, e⟩ | ⟨_, e⟩ | ⟨_, e⟩ | ⟨_, e⟩ | ⟨_, e⟩ <;> cases e

abbrev cfg12 := osCfg [['b']] [['k']]
def w12 : World := { fs := exDisk12 }

/-- a session: change mode and owner of the set-uid file, RESTART, overwrite it, make directories
below the set-gid directory, RESTART, chown the directory, remove the file, RESTART — and then
Rollback on the third re-created instance (`runTxR`) -/
def steps12 : List Step :=
  [.inl (.chmod "/f".toList 0o600), .inl (.chown "/f".toList 0 0), .inr (),
   .inl (.write "/f".toList (O_WRONLY ||| O_TRUNC) 0 "y"), .inl (.mkdirAll "/d/e//g/../h".toList 0o755), .inr (),
   .inl (.chown "/d".toList 7 8), .inl (.remove "/f".toList), .inr ()]

/-- the hypotheses of E1–E3 hold of this disk and this session -/
example : OSGood [['b']] [['k']] w12.fs ∧ w12.infos = [] ∧ w12.faults = [] ∧ OwnersSmall w12.fs = true ∧
    (∀ k, k ≠ [] → w12.fs.get ([['k']] ++ k) = none) ∧
    CoveredHist cfg12 osSim_example w12 (opsOf steps12) := by
  refine ⟨osGood_ex12, rfl, rfl, by decide, ?_, ⟨?_, ?_, ?_, ?_, ?_, ?_, trivial⟩⟩
  · intro k hk
    show exDisk12.get ([['k']] ++ k) = none
    cases h : exDisk12.get ([['k']] ++ k) with
    | none => rfl
    | some n =>
      exfalso
      rcases exDisk12_live h with ⟨e, _⟩ | ⟨e, _⟩ | ⟨e, _⟩ | ⟨e, _⟩ | ⟨e, _⟩ <;> simp at e
      exact hk e
  · show isAbs _ = true; decide
  · show isAbs _ = true; decide
  · show isAbs _ = true; decide
  · show isAbs _ = true; decide
  · show isAbs _ = true; decide
  · show isAbs _ = true ∧ clean _ ≠ rootP; decide

set_option maxRecDepth 100000 in
/-- the model evaluated on it (kernel-checked): before Rollback the tracked map holds the ORIGINAL
set-uid info of `/f` (name `f`, size 5, mode 04755, mtime −5 ns, owner 1000:1001), the set-gid
directory's (size 4096 as the OS reports it) and the root's (name `/`); the map after the three
restarts is the map without restarts; Rollback on the re-created instance returns nil, puts the
set-uid bit, owner and mtime of `/f` and the owner of `/d` back and empties the backup. -/
example :
    (runOpsR cfg12 w12 steps12).infos.lookup "/f".toList =
        some (some ⟨"f".toList, 5, .file, 0o4755, .old (-5), 1000, 1001⟩) ∧
    (runOpsR cfg12 w12 steps12).infos.lookup "/d".toList =
        some (some ⟨"d".toList, 4096, .dir, 0o2775, .old 7, 1000, 50⟩) ∧
    (runOpsR cfg12 w12 steps12).infos.lookup "/".toList =
        some (some ⟨"/".toList, 4096, .dir, 0o755, .old 0, 0, 0⟩) ∧
    (runOpsR cfg12 w12 steps12).infos = (runOps cfg12 w12 (opsOf steps12)).infos ∧
    (runOpsR cfg12 w12 steps12).fs.get [['b'], ['f']] = none ∧
    (rollback cfg12 (runOpsR cfg12 w12 steps12)).2 = .ok false ∧
    (runTxR cfg12 w12 steps12).fs.get [['b'], ['f']] =
        some (.file "hello" { mode := 0o4755, uid := 1000, gid := 1001, mtime := .old (-5) }) ∧
    ((runTxR cfg12 w12 steps12).fs.get [['b'], ['d']]).map eraseMt =
        some (.dir { mode := 0o2775, uid := 1000, gid := 50, mtime := .fresh }) ∧
    (runTxR cfg12 w12 steps12).fs.get [['b'], ['d'], ['e']] = none ∧
    (runTxR cfg12 w12 steps12).fs.get [['k'], ['f']] = none ∧
    (runTxR cfg12 w12 steps12).fs.get [['k'], ['d']] = none := by
  refine ⟨by decide +kernel, by decide +kernel, by decide +kernel, by decide +kernel, by decide +kernel,
    by decide +kernel, by decide +kernel, by decide +kernel, by decide +kernel, by decide +kernel,
    by decide +kernel⟩

/-- two transactions: the session above, then (restart first) a second one on the restored tree -/
def txs12 : List (List Step) :=
  [steps12, [.inr (), .inl (.lchown "/f".toList 4294967295 (-1)), .inr (), .inl (.creat "/d/n".toList "x"), .inr ()]]

/-- the hypotheses of the several-transaction theorems hold of it -/
example : (∀ tx ∈ txs12, ∀ op ∈ opsOf tx, OpSmall op) ∧
    CoveredTxs cfg12 osSim_example w12 (txs12.map opsOf) := by
  refine ⟨by decide, ⟨?_, ?_, ?_, ?_, ?_, ?_, trivial⟩, ⟨?_, ?_, trivial⟩, trivial⟩
  · show isAbs _ = true; decide
  · show isAbs _ = true; decide
  · show isAbs _ = true; decide
  · show isAbs _ = true; decide
  · show isAbs _ = true; decide
  · show isAbs _ = true ∧ clean _ ≠ rootP; decide
  · show isAbs _ = true; decide
  · show isAbs _ = true; decide

set_option maxRecDepth 100000 in
/-- kernel-evaluated: in the second transaction the file's owner really changes (uid 2³²−1) and a
file appears below the set-gid directory; after the second Rollback on a re-created instance both
are undone -/
example :
    ((runOpsR cfg12 (runTxsR cfg12 w12 [steps12]) (txs12.getLast (by decide))).fs.get [['b'], ['f']]).map
        (fun n => n.meta.uid) = some 4294967295 ∧
    ((runOpsR cfg12 (runTxsR cfg12 w12 [steps12]) (txs12.getLast (by decide))).fs.get [['b'], ['d'], ['n']]).isSome = true ∧
    (runTxsR cfg12 w12 txs12).fs.get [['b'], ['f']] =
        some (.file "hello" { mode := 0o4755, uid := 1000, gid := 1001, mtime := .old (-5) }) ∧
    (runTxsR cfg12 w12 txs12).fs.get [['b'], ['d'], ['n']] = none ∧
    (runTxsR cfg12 w12 txs12).fs.get [['k'], ['d']] = none := by
  refine ⟨by decide +kernel, by decide +kernel, by decide +kernel, by decide +kernel, by decide +kernel⟩

/-- what `OwnersSmall` excludes (a MODEL artefact: the model's owners are unbounded naturals, a real
`uid_t` has 32 bits): an owner ≥ 2³² does not survive `toSys`'s `uint32(uid)` — the reloaded entry
differs, and Rollback on the re-created instance would chown to 5 instead. -/
example : reloadEntry ("/f".toList, some ⟨"f".toList, 0, .file, 0o644, .old 0, 4294967301, 0⟩) =
    ("/f".toList, some ⟨"f".toList, 0, .file, 0o644, .old 0, 5, 0⟩) := by decide +kernel

/-- what the name clause is about: a tracked path whose info carried another name than `Base` of the
path would come back renamed.  It cannot happen: E1 (`lname_kp`, also for the root: `PrefixFS`
reports "/" and `path.Base("/") = "/"`). -/
example : reloadEntry ("/".toList, some ⟨"/".toList, 4096, .dir, 0o755, .old 0, 0, 0⟩) =
    ("/".toList, some ⟨"/".toList, 4096, .dir, 0o755, .old 0, 0, 0⟩) := by decide +kernel

end Props.C12
