import Lemmas.FlowCheck
/-!
# C16 — facts about the CURRENT Go sources (regenerated on every run), decided by the kernel

`Generated.flowFacts` is written by the harness (`vharness -stream astfacts`, go/ast) from /repo's
working tree before every build; the predicates are defined in `Lemmas/FlowCheck.lean`.  A change to
the sources that alters how names flow through the methods changes the facts, and these theorems no
longer build — whether or not a generated input happens to exhibit the difference.
-/
namespace Props.C16
open Flow Generated

/-- every mutating base call of BackupFS is handed the RESOLVED name (the result of `realPath` on a
parameter), never the caller's spelling -/
theorem source_mutators_use_resolved_names : mutatorsUseResolvedNames flowFacts methodParams = true := by decide +kernel

theorem source_mutators_mutate : mutatorsMutate flowFacts = true := by decide +kernel

end Props.C16
