import Lemmas.NLBOS
import Props.C04L
/-!
# C07 — Rollback returns nil and leaves the backup location exactly as it was:
# NESTED (README) layering, trees with SYMLINKS AS LEAVES

Setting of `Props.C04.rollback_restores_nested_symlink_leaves_empty_backup_partial` (Props/C04L.lean):
`N.nestedCfg bk hk = NewWithFS (PrefixFS (kp bk) osfs) (kp hk)` — base = `HiddenFS [loc]` over
`PrefixFS(root)`, backup = `PrefixFS(loc)` over the same `PrefixFS(root)`: ONE disk, the backup location
is the directory `bk ++ hk` inside the base tree.  Every well-formed disk whose base subtree may contain
symlinks (any target text) as leaves (`L.OSGoodL`), healthy filesystem (empty fault plan), the location
an existing, EMPTY directory at the start, any number of consecutive transactions, in each any finite
history of `NL.Op.Covered` operations (unchanged: the predicate of `Props/C04L.lean`; `Symlink`, `Rename`,
`Remove`, `RemoveAll`, `Lchown` on the links themselves included, names at or below the location and
names of its ancestors included; a link that is going to be backed up must be re-creatable through BOTH
layers of the base — `NL.NLLinkOK … .base`, forced by `link_into_location_backed_up_but_not_restored`).

* `rollback_returns_nil_nested_symlink_leaves_partial` — every `Rollback` returns nil;
* `backup_location_empty_after_rollback_nested_symlink_leaves_partial` — after the last `Rollback`
  nothing is left below the location, and the location directory itself is still there, the node it was
  (directory mtime erased);
* `backup_clean_after_rollback_nested_symlink_leaves_partial` — every key at or below the location is
  what it was (view of the backup side: `NL.nlview bk hk .backup`, written out);
* `whole_tree_as_before_nested_symlink_leaves_partial` — with C04L: every key below the base root, inside or
  outside the location, is what it was;
* `backup_invariant_after_history_nested_symlink_leaves` — the invariant behind them (`NL.InvB`,
  Lemmas/NLBInv.lean): on healthy filesystems every key tracked with a `FileInfo` has, in the location,
  an EXACT copy of the original (files, directories, symlinks as `Readlink` reports them), and the
  location holds nothing else.

Proof: Lemmas/LB*.lean (the development behind Props/C07L.lean) replayed over the contract `NL.Sim`
(Lemmas/NLB{Inv,Track,Ops,Restore}.lean).  The success laws of `NL.Sim` for creation and removal carry
the premises "not hidden" / "not an ancestor of a hidden entry"; on the backup side nothing is masked
(`NL.BackupPlain`, an instance for `NL.nlSim`), so they are discharged as in Lemmas/NXRestoreB.lean.
The one fact beyond the contract — a refused `Symlink` writes nothing (`NL.SymErrPure`) — is proved for
both sides of the nested layering in Lemmas/NLBOS.lean.  No new hypothesis was forced.

No hypothesis about the BACKUP side accepting a link's copy is needed: when `PrefixFS(loc)` over
`PrefixFS(root)` refuses it, the operation fails, nothing is recorded and nothing is left behind.

Not covered (`_partial`): what `NL.Op.Covered` excludes, and fault plans.
-/
namespace Props.C07
open BFS BFS.BackupFS

/-- the location is empty: stated on the disk, and as the view-level hypothesis of `NL.txs_clean` -/
theorem nlview_backup_empty {bk hk : Key} {m : MFS} (hempty : ∀ k, k ≠ [] → m.get (bk ++ (hk ++ k)) = none) :
    ∀ k, k ≠ [] → NL.nlview bk hk .backup m k = none := by
  intro k hk'
  show ((m.get (bk ++ (hk ++ k))).map (L.eraseV (kp bk))).map (NL.relink (kp hk)) = none
  rw [hempty k hk']; rfl

/-- T07.1a-NL  Rollback returns nil — nested layering, symlinks as leaves, healthy filesystem, any
number of transactions: the Rollback that ends each of them reports no error. -/
theorem rollback_returns_nil_nested_symlink_leaves_partial (bk hk dd : Key) (hr : N.NRoots bk hk dd)
    (w : World) (hg : L.OSGoodL bk dd w.fs) (hloc : ∃ mt, w.fs.get (bk ++ hk) = some (.dir mt))
    (hinfos : w.infos = []) (hnf : w.faults = [])
    (hempty : ∀ k, k ≠ [] → w.fs.get (bk ++ (hk ++ k)) = none)
    (txs : List (List Op))
    (hcov : NL.CoveredTxs (N.nestedCfg bk hk) (NL.nlSim bk hk dd hr) w txs) :
    ∀ pre ops post, txs = pre ++ ops :: post →
      (rollback (N.nestedCfg bk hk)
        (runOps (N.nestedCfg bk hk) (pre.foldl (runTx (N.nestedCfg bk hk)) w) ops)).2 = .ok false :=
  (NL.txs_clean (S := NL.nlSim bk hk dd hr) (NL.nlSymErrPure bk hk) txs w ⟨hg, hloc⟩ hinfos hnf
    (nlview_backup_empty hempty) hcov).2

/-- T07.1b-NL  after Rollback every key at or below the backup location is what it was before the
transaction (directory timestamps erased, a symlink read as `Readlink` through the backup side reports
it — the view `NL.nlview bk hk .backup`) — nested layering, symlinks as leaves, any number of
transactions. -/
theorem backup_clean_after_rollback_nested_symlink_leaves_partial (bk hk dd : Key) (hr : N.NRoots bk hk dd)
    (w : World) (hg : L.OSGoodL bk dd w.fs) (hloc : ∃ mt, w.fs.get (bk ++ hk) = some (.dir mt))
    (hinfos : w.infos = []) (hnf : w.faults = [])
    (hempty : ∀ k, k ≠ [] → w.fs.get (bk ++ (hk ++ k)) = none)
    (txs : List (List Op))
    (hcov : NL.CoveredTxs (N.nestedCfg bk hk) (NL.nlSim bk hk dd hr) w txs) :
    ∀ k, (((txs.foldl (runTx (N.nestedCfg bk hk)) w).fs.get (bk ++ (hk ++ k))).map (L.eraseV (kp bk))).map
          (NL.relink (kp hk)) =
      ((w.fs.get (bk ++ (hk ++ k))).map (L.eraseV (kp bk))).map (NL.relink (kp hk)) :=
  fun k => congrFun (NL.txs_clean (S := NL.nlSim bk hk dd hr) (NL.nlSymErrPure bk hk) txs w ⟨hg, hloc⟩
    hinfos hnf (nlview_backup_empty hempty) hcov).1 k

/-- T07.1c-NL  the location directory itself stays (same node, mtime erased); everything below it is
gone: the backup location is an empty directory again. -/
theorem backup_location_empty_after_rollback_nested_symlink_leaves_partial (bk hk dd : Key)
    (hr : N.NRoots bk hk dd)
    (w : World) (hg : L.OSGoodL bk dd w.fs) (hloc : ∃ mt, w.fs.get (bk ++ hk) = some (.dir mt))
    (hinfos : w.infos = []) (hnf : w.faults = [])
    (hempty : ∀ k, k ≠ [] → w.fs.get (bk ++ (hk ++ k)) = none)
    (txs : List (List Op))
    (hcov : NL.CoveredTxs (N.nestedCfg bk hk) (NL.nlSim bk hk dd hr) w txs) :
    (∀ k, k ≠ [] → (txs.foldl (runTx (N.nestedCfg bk hk)) w).fs.get (bk ++ (hk ++ k)) = none) ∧
    (∃ mt mt', w.fs.get (bk ++ hk) = some (.dir mt) ∧
      (txs.foldl (runTx (N.nestedCfg bk hk)) w).fs.get (bk ++ hk) = some (.dir mt') ∧
      { mt' with mtime := .fresh } = { mt with mtime := .fresh }) := by
  have hcl := backup_clean_after_rollback_nested_symlink_leaves_partial bk hk dd hr w hg hloc hinfos hnf
    hempty txs hcov
  refine ⟨?_, ?_⟩
  · intro k hk'
    have := hcl k
    rw [hempty k hk'] at this
    exact Option.map_eq_none_iff.mp (Option.map_eq_none_iff.mp this)
  · obtain ⟨mt, hmt⟩ := hloc
    have h0 := hcl []
    simp only [List.append_nil] at h0
    rw [hmt] at h0
    cases hf : (txs.foldl (runTx (N.nestedCfg bk hk)) w).fs.get (bk ++ hk) with
    | none => rw [hf] at h0; cases h0
    | some n =>
      rw [hf] at h0
      simp only [Option.map_some, Option.some.injEq] at h0
      cases n with
      | dir mt' =>
        refine ⟨mt, mt', hmt, rfl, ?_⟩
        simpa [L.eraseV, NL.relink] using h0
      | file c m => simp [L.eraseV, NL.relink] at h0
      | link t m => simp [L.eraseV, NL.relink] at h0

/-- T07.1d-NL (with C04L) after any number of transactions EVERY key below the base root is what it was
before the first operation: the visible ones (outside the location) as `Readlink`/`Lstat` through the base
show them, the ones at or below the location as the backup side shows them. -/
theorem whole_tree_as_before_nested_symlink_leaves_partial (bk hk dd : Key) (hr : N.NRoots bk hk dd)
    (w : World) (hg : L.OSGoodL bk dd w.fs) (hloc : ∃ mt, w.fs.get (bk ++ hk) = some (.dir mt))
    (hinfos : w.infos = []) (hnf : w.faults = [])
    (hempty : ∀ k, k ≠ [] → w.fs.get (bk ++ (hk ++ k)) = none)
    (txs : List (List Op))
    (hcov : NL.CoveredTxs (N.nestedCfg bk hk) (NL.nlSim bk hk dd hr) w txs) :
    (∀ k, k ≠ [] → ¬ hk <+: k →
      ((txs.foldl (runTx (N.nestedCfg bk hk)) w).fs.get (bk ++ k)).map (L.eraseV (kp bk)) =
        (w.fs.get (bk ++ k)).map (L.eraseV (kp bk))) ∧
    (∀ k, (((txs.foldl (runTx (N.nestedCfg bk hk)) w).fs.get (bk ++ (hk ++ k))).map (L.eraseV (kp bk))).map
          (NL.relink (kp hk)) =
      ((w.fs.get (bk ++ (hk ++ k))).map (L.eraseV (kp bk))).map (NL.relink (kp hk))) :=
  ⟨Props.C04.rollback_restores_nested_symlink_leaves_empty_backup_partial bk hk dd hr w hg hloc hinfos hnf hempty
      txs hcov,
    backup_clean_after_rollback_nested_symlink_leaves_partial bk hk dd hr w hg hloc hinfos hnf hempty txs hcov⟩

/-- T07.inv-NL  after any covered history on a healthy filesystem: every key tracked with a `FileInfo`
has an exact copy in the location (files, directories, symlinks), the location holds nothing but such
copies, and the location's own node is untouched (`NL.InvB`, Lemmas/NLBInv.lean). -/
theorem backup_invariant_after_history_nested_symlink_leaves (bk hk dd : Key) (hr : N.NRoots bk hk dd)
    (w : World) (hg : L.OSGoodL bk dd w.fs) (hloc : ∃ mt, w.fs.get (bk ++ hk) = some (.dir mt))
    (hinfos : w.infos = []) (hnf : w.faults = [])
    (hempty : ∀ k, k ≠ [] → w.fs.get (bk ++ (hk ++ k)) = none) (ops : List Op)
    (hcov : NL.CoveredHist (N.nestedCfg bk hk) (NL.nlSim bk hk dd hr) w ops) :
    NL.InvB (NL.nlSim bk hk dd hr) (NL.nlview bk hk .base w.fs) (NL.nlview bk hk .backup w.fs [])
      (runOps (N.nestedCfg bk hk) w ops) :=
  (NL.history_keepsB (NL.nlSymErrPure bk hk) ops w
    (NL.InvB.init (S := NL.nlSim bk hk dd hr) ⟨hg, hloc⟩ hinfos hnf (nlview_backup_empty hempty)) hcov).inv

/-! ## Non-vacuity: the README layout of Props/C04L.lean (`exDiskNL`), two transactions -/

open Props.C04 in
set_option maxRecDepth 100000 in
/-- non-vacuity: the hypotheses of the theorems above hold of the README layout with a file link and a
directory link (`Props.C04.exDiskNL`: base root `/b` with the file `/b/f`, the EMPTY location `/b/d`, a
directory `/b/e`, the links `/b/l -> "f"`, `/b/m -> "e"`) and the two transactions of Props/C04L.lean:
the first changes the owner of the file link, removes it and re-creates a link in its place, removes
the directory link, tries to create a link leading into the location and a file below the location
(both refused); the second renames the restored file link and tries to `Mkdir` over it.  (The proof is
the one of the `example` at the end of Props/C04L.lean.) -/
theorem nonvacuous_exNL : L.OSGoodL [['b']] [['k']] wN0.fs ∧ (∃ mt, wN0.fs.get ([['b']] ++ [['d']]) = some (.dir mt)) ∧
    wN0.infos = [] ∧ wN0.faults = [] ∧
    (∀ k, k ≠ [] → wN0.fs.get ([['b']] ++ ([['d']] ++ k)) = none) ∧
    NL.CoveredTxs cfgNL simNL wN0
      [[.lchown "/l".toList 5 6, .remove "/l".toList, .symlink "e".toList "/l".toList, .remove "/m".toList,
        .symlink "d/x".toList "/n".toList, .creat "/d/x".toList "hidden"],
       [.rename "/l".toList "/n".toList, .mkdir "/n".toList 0o755]] := by
  have hKl : PKey [['l']] := by decide
  have hKm : PKey [['m']] := by decide
  have hKn : PKey [['n']] := by decide
  have hKdx : PKey [['d'], ['x']] := by decide
  have hcl : clean "/l".toList = kp [['l']] := by decide
  have hcm : clean "/m".toList = kp [['m']] := by decide
  have hcn : clean "/n".toList = kp [['n']] := by decide
  have hcdx : clean "/d/x".toList = kp [['d'], ['x']] := by decide
  refine ⟨osGoodL_exDiskNL, ⟨_, rfl⟩, rfl, rfl, exDiskNL_loc_empty, ⟨?_, ?_, ?_, ?_, ?_, ?_, trivial⟩, ⟨?_, ?_, trivial⟩, trivial⟩
  · -- Lchown("/l"): the path is a symlink that both layers of the base admit
    refine ⟨by decide, nl_covered_key hKl hcl ⟨nl_noLinkAnc_top ⟨rootNL, by decide +kernel⟩, ?_⟩⟩
    intro t mt hv
    have : simNL.view .base wN0.fs [['l']] = some (.link ['f'] { exMeta with mode := 0o777, mtime := .fresh }) := by
      decide +kernel
    have hv' := this.symm.trans hv; cases hv'
    exact linkOK_exNL _ _ ⟨Or.inl rfl, Or.inl rfl⟩
  · -- Remove("/l")
    refine ⟨by decide, by decide, nl_covered_key hKl hcl ⟨nl_noLinkAnc_top ⟨rootNL, by decide +kernel⟩, ?_⟩⟩
    intro t mt hv
    have : simNL.view .base wN1.fs [['l']] = some (.link ['f'] { mode := 0o777, uid := 5, gid := 6, mtime := .fresh }) := by
      decide +kernel
    have hv' := this.symm.trans hv; cases hv'
    exact linkOK_exNL _ _ ⟨Or.inl rfl, Or.inl rfl⟩
  · -- Symlink("e", "/l"): nothing is there any more, and nothing tracked lies below
    refine ⟨by decide, nl_covered_key hKl hcl ⟨⟨nl_noLinkAnc_top ⟨rootNL, by decide +kernel⟩, ?_⟩, ?_⟩⟩
    · intro t mt hv
      have : simNL.view .base wN2.fs [['l']] = none := by decide +kernel
      have hv' := this.symm.trans hv; cases hv'
    · apply nl_noneBelow_of (l := ["/".toList, "/l".toList]) (by decide +kernel)
      intro p hp j hj e hpre
      simp only [List.mem_cons, List.mem_nil_iff, or_false] at hp
      rcases hp with rfl | rfl
      · have : j = [] := kp_inj hj PKey.nil e.symm
        subst this
        simp at hpre
      · exact kp_inj hj hKl e.symm
  · -- Remove("/m"): the directory link
    refine ⟨by decide, by decide, nl_covered_key hKm hcm ⟨nl_noLinkAnc_top ⟨rootNL, by decide +kernel⟩, ?_⟩⟩
    intro t mt hv
    have : simNL.view .base wN3.fs [['m']] = some (.link ['e'] { exMeta with mode := 0o777, mtime := .fresh }) := by
      decide +kernel
    have hv' := this.symm.trans hv; cases hv'
    exact linkOK_exNL _ _ ⟨Or.inr (Or.inl rfl), Or.inr rfl⟩
  · -- Symlink("d/x", "/n"): the target leads into the location; the sealing layer refuses, nothing changes
    refine ⟨by decide, nl_covered_key hKn hcn ⟨⟨nl_noLinkAnc_top ⟨rootNL, by decide +kernel⟩, ?_⟩, ?_⟩⟩
    · intro t mt hv
      have : simNL.view .base wN4.fs [['n']] = none := by decide +kernel
      have hv' := this.symm.trans hv; cases hv'
    · apply nl_noneBelow_of (l := ["/".toList, "/l".toList, "/m".toList]) (by decide +kernel)
      intro p hp j hj e hpre
      simp only [List.mem_cons, List.mem_nil_iff, or_false] at hp
      rcases hp with rfl | rfl | rfl
      · have : j = [] := kp_inj hj PKey.nil e.symm
        subst this
        simp at hpre
      · have : j = [['l']] := kp_inj hj hKl e.symm
        subst this
        exact absurd hpre (by decide)
      · have : j = [['m']] := kp_inj hj hKm e.symm
        subst this
        exact absurd hpre (by decide)
  · -- Create("/d/x"): a name below the hidden location (refused)
    refine ⟨by decide, nl_covered_key hKdx hcdx ⟨nl_noLinkAnc_two ⟨rootNL, by decide +kernel⟩ ?_, ?_⟩⟩
    · rintro ⟨t, mt, hv⟩
      have : simNL.view .base wN5.fs [['d']] = none := by decide +kernel
      have hv' := this.symm.trans hv; cases hv'
    · rintro ⟨t, mt, hv⟩
      have : simNL.view .base wN5.fs [['d'], ['x']] = none := by decide +kernel
      have hv' := this.symm.trans hv; cases hv'
  · -- second transaction: Rename("/l", "/n") of the restored file link
    refine ⟨by decide, by decide, ?_⟩
    intro ko kn hko hkn eo en
    have h1 := kp_inj hko hKl (eo.symm.trans hcl)
    have h2 := kp_inj hkn hKn (en.symm.trans hcn)
    subst h1 h2
    have hvl : simNL.view .base wN6.fs [['l']] = some (.link ['f'] { mode := 0o777, uid := 0, gid := 0, mtime := .fresh }) := by
      decide +kernel
    have hvn : simNL.view .base wN6.fs [['n']] = none := by decide +kernel
    have hroot : (simNL.view .base wN6.fs).isDirAt [] := ⟨rootNL, by decide +kernel⟩
    refine ⟨⟨nl_noLinkAnc_top hroot, ?_⟩, ⟨nl_noLinkAnc_top hroot, ?_⟩, ?_, ?_⟩
    · intro t mt hv; have hv' := hvl.symm.trans hv; cases hv'
      exact linkOK_exNL _ _ ⟨Or.inl rfl, Or.inl rfl⟩
    · intro t mt hv; have hv' := hvn.symm.trans hv; cases hv'
    · rintro ⟨⟨mt, hd⟩, _⟩; have hd' := hvl.symm.trans hd; cases hd'
    · intro _
      apply nl_noneBelow_of (l := []) (by decide +kernel)
      intro p hp; cases hp
  · -- Mkdir("/n") over the renamed symlink (fails with EEXIST after backing nothing up: `/n` is tracked)
    refine ⟨by decide, nl_covered_key hKn hcn ⟨nl_noLinkAnc_top ⟨rootNL, by decide +kernel⟩, ?_⟩⟩
    intro t mt hv
    have : simNL.view .base wN7.fs [['n']] = some (.link ['f'] { mode := 0o777, uid := 0, gid := 0, mtime := .fresh }) := by
      decide +kernel
    have hv' := this.symm.trans hv; cases hv'
    exact linkOK_exNL _ _ ⟨Or.inr (Or.inr rfl), Or.inl rfl⟩


open Props.C04 in
/-- the run itself, evaluated by the kernel: after the first four operations of the first transaction
the location holds the copies of both links (the file link with its ORIGINAL owner), the links are gone
from / replaced in the base; Rollback of the whole transaction returns nil; afterwards the location is an
empty directory again and both links are back -/
example :
    let w4 := wN4
    let r := rollback cfgNL (runOps cfgNL wN0 [.lchown "/l".toList 5 6, .remove "/l".toList,
      .symlink "e".toList "/l".toList, .remove "/m".toList, .symlink "d/x".toList "/n".toList,
      .creat "/d/x".toList "hidden"])
    w4.fs.get [['b'], ['d'], ['l']] = some (.link ['f'] { mode := 0o777, uid := 0, gid := 0, mtime := .fresh }) ∧
    w4.fs.get [['b'], ['d'], ['m']] = some (.link ['e'] { mode := 0o777, uid := 0, gid := 0, mtime := .fresh }) ∧
    (w4.fs.get [['b'], ['l']]).map Node.kind = some .link ∧ w4.fs.get [['b'], ['m']] = none ∧
    r.2 = .ok false ∧
    r.1.fs.get [['b'], ['d'], ['l']] = none ∧ r.1.fs.get [['b'], ['d'], ['m']] = none ∧
    (r.1.fs.get [['b'], ['d']]).map (L.eraseV (kp [['b']])) = (exDiskNL.get [['b'], ['d']]).map (L.eraseV (kp [['b']])) ∧
    (r.1.fs.get [['b'], ['l']]).map (L.eraseV (kp [['b']])) = (exDiskNL.get [['b'], ['l']]).map (L.eraseV (kp [['b']])) ∧
    (r.1.fs.get [['b'], ['m']]).map (L.eraseV (kp [['b']])) = (exDiskNL.get [['b'], ['m']]).map (L.eraseV (kp [['b']])) := by
  decide +kernel

end Props.C07
