import Props.C01L
import Props.C01G
/-!
# C08, clause "a later Rollback still restores", on trees with symlinks

The symlink developments prove the transaction invariant `L.Inv` under EVERY fault plan (a refused
primitive changes nothing; an entry is recorded only after its copy returned ok), so the clause of
C08 is a corollary there exactly as on link-free trees: whatever any fault plan did to the
operations of a covered history — the failed backup of C08 included —, Rollback on healthy
filesystems restores every entry of the base below its root.  Stated under C08's namespace so that
the check of C08 depends on it.
-/
namespace Props.C08
open BFS BFS.BackupFS BFS.L

/-- symlinks as leaves, the `Symlink` operation included -/
theorem later_rollback_still_restores_symlink_leaves_partial (bk kk : Key) (hbk : PKey bk) (hkk : PKey kk)
    (hne1 : bk ≠ []) (hne2 : kk ≠ []) (hd1 : ¬ bk <+: kk) (hd2 : ¬ kk <+: bk)
    (w : World) (hg : OSGoodL bk kk w.fs) (hinfos : w.infos = [])
    (hbl : ∀ k, (∃ t mt, w.fs.get (kk ++ k) = some (.link t mt)) → ∃ t mt, w.fs.get (bk ++ k) = some (.link t mt))
    (ops : List Op)
    (hcov : L.CoveredHist (osCfg bk kk) (osSimL bk kk hbk hkk hne1 hne2 hd1 hd2) w ops) :
    ∀ k, k ≠ [] →
      ((rollback (osCfg bk kk) { runOps (osCfg bk kk) w ops with faults := [] }).1.fs.get (bk ++ k)).map (eraseV (kp bk)) =
        (w.fs.get (bk ++ k)).map (eraseV (kp bk)) :=
  Props.C01L.later_rollback_still_restores_symlink_leaves_partial bk kk hbk hkk hne1 hne2 hd1 hd2 w hg hinfos hbl ops hcov

/-- names through flat links (a planned fault makes `realPath` fail instead of mis-resolving) -/
theorem later_rollback_still_restores_through_flat_links_partial (bk kk : Key) (hbk : PKey bk) (hkk : PKey kk)
    (hne1 : bk ≠ []) (hne2 : kk ≠ []) (hd1 : ¬ bk <+: kk) (hd2 : ¬ kk <+: bk)
    (w : World) (hg : OSGoodL bk kk w.fs) (hinfos : w.infos = [])
    (hbl : ∀ k, (∃ t mt, w.fs.get (kk ++ k) = some (.link t mt)) → ∃ t mt, w.fs.get (bk ++ k) = some (.link t mt))
    (ops : List Op)
    (hcov : G.CoveredHist (osCfg bk kk) bk (osSimL bk kk hbk hkk hne1 hne2 hd1 hd2) w ops) :
    ∀ k, k ≠ [] →
      ((rollback (osCfg bk kk) { runOps (osCfg bk kk) w ops with faults := [] }).1.fs.get (bk ++ k)).map (eraseV (kp bk)) =
        (w.fs.get (bk ++ k)).map (eraseV (kp bk)) :=
  Props.C01.later_rollback_still_restores_through_flat_links_partial bk kk hbk hkk hne1 hne2 hd1 hd2 w hg hinfos hbl ops hcov

end Props.C08
