import Lemmas
import Props.C01
/-!
# C01 — operations on the base root itself (former finding K-root-removed)

`RemoveAll("/")` (or `Remove("/")` of an empty root) through a BackupFS whose base is a `PrefixFS`
removes the base ROOT DIRECTORY itself: `PrefixFS` hands the call to the prefix directory.
`Rollback` does not restore the root ("skip root directory from restoration"), but since the repair
it makes sure the root EXISTS before the restore phases (`ensureRoot`: `Lstat` of the root on the
base, `MkdirAll` when it is missing — NOT `copyDir`, which never touches the root), so everything
below it can be restored.  Under the transaction invariant of the general theorems the root exists
and the new step is one read-only `Lstat` (`sat_ensureRoot` in `Lemmas/Chg.lean`, `LChg`, `NChg`,
`NLChg`); the general theorems still exclude operations on the root by their `Covered` predicate.
What is kernel-checked here are the former witnesses of K-root-removed on concrete disks.
-/
namespace Props.C01
open BFS BFS.BackupFS

/-- `/`, `/b` (base root) with the single file `/b/f` = "hello", `/k` (backup root, empty) -/
def rootDisk : MFS where
  get := fun k =>
    if k = [] then some (.dir exMeta)
    else if k = [['b']] then some (.dir exMeta)
    else if k = [['k']] then some (.dir exMeta)
    else if k = [['b'], ['f']] then some (.file "hello" { exMeta with mode := 0o644 })
    else none
  dom := [[], [['b']], [['k']], [['b'], ['f']]]
  umask := 0o022

/-- the world after `Remove("/f")`, `Remove("/")` on `rootDisk` — the two mutating calls `RemoveAll("/")`
issues on this tree (its `Walk` adds read-only primitives only; the walk is a mutual recursion compiled by
well-founded recursion, which the kernel cannot evaluate, so the kernel-checked witness spells the two
`Remove`s out; the `RemoveAll("/")` form is replayed by the harness on model and implementation) -/
def afterRemoveAllRoot : World :=
  runOps (osCfg [['b']] [['k']]) { fs := rootDisk } [.remove "/f".toList, .remove "/".toList]

/-- **the former witness of K-root-removed passes**: tree `/f` only; `Remove("/f")` and
`Remove("/")` (what `RemoveAll("/")` does) remove `/f` AND the base root directory `/b` itself (the backup holds the copy of `/f`); `Rollback` returns nil,
the root directory is back, `/f` is back with its content, mode, owner and modification time, and
the backup is empty again. -/
theorem rollback_recreates_missing_root :
    afterRemoveAllRoot.fs.get [['b']] = none ∧
    afterRemoveAllRoot.fs.get [['b'], ['f']] = none ∧
    (afterRemoveAllRoot.fs.get [['k'], ['f']]).isSome = true ∧
    (rollback (osCfg [['b']] [['k']]) afterRemoveAllRoot).2 = .ok false ∧
    ((rollback (osCfg [['b']] [['k']]) afterRemoveAllRoot).1.fs.get [['b']]).map eraseMt
      = (rootDisk.get [['b']]).map eraseMt ∧
    (rollback (osCfg [['b']] [['k']]) afterRemoveAllRoot).1.fs.get [['b'], ['f']] = rootDisk.get [['b'], ['f']] ∧
    (rollback (osCfg [['b']] [['k']]) afterRemoveAllRoot).1.fs.get [['k'], ['f']] = none ∧
    (rollback (osCfg [['b']] [['k']]) afterRemoveAllRoot).1.infos = [] := by
  decide +kernel

/-- `/b` (base root) with a directory `/b/d` holding `/b/d/g` = "deep" and the file `/b/f` -/
def rootDisk2 : MFS where
  get := fun k =>
    if k = [] then some (.dir exMeta)
    else if k = [['b']] then some (.dir exMeta)
    else if k = [['k']] then some (.dir exMeta)
    else if k = [['b'], ['f']] then some (.file "hello" { exMeta with mode := 0o644 })
    else if k = [['b'], ['d']] then some (.dir { exMeta with mode := 0o750 })
    else if k = [['b'], ['d'], ['g']] then some (.file "deep" { exMeta with mode := 0o600 })
    else none
  dom := [[], [['b']], [['k']], [['b'], ['f']], [['b'], ['d']], [['b'], ['d'], ['g']]]
  umask := 0o022

/-- a transaction that changes a file, then removes the whole tree including the root (deepest first, the
`Remove`s of `RemoveAll("/")`), on `rootDisk2` -/
def afterRemoveAllRoot2 : World :=
  runOps (osCfg [['b']] [['k']]) { fs := rootDisk2 }
    [.write "/d/g".toList (O_WRONLY ||| O_TRUNC) 0 "y", .remove "/d/g".toList, .remove "/d".toList,
     .remove "/f".toList, .remove "/".toList]

/-- the same with a nested tree and an operation before the removal of the whole tree: every entry below the
root is back (directory timestamps erased, as in the property) -/
theorem rollback_recreates_missing_root_nested :
    afterRemoveAllRoot2.fs.get [['b']] = none ∧
    (rollback (osCfg [['b']] [['k']]) afterRemoveAllRoot2).2 = .ok false ∧
    (∀ k ∈ rootDisk2.dom, [['b']] <+: k → k ≠ [['b']] →
      ((rollback (osCfg [['b']] [['k']]) afterRemoveAllRoot2).1.fs.get k).map eraseMt = (rootDisk2.get k).map eraseMt) ∧
    (rollback (osCfg [['b']] [['k']]) afterRemoveAllRoot2).1.fs.get [['k'], ['f']] = none ∧
    (rollback (osCfg [['b']] [['k']]) afterRemoveAllRoot2).1.fs.get [['k'], ['d']] = none := by
  decide +kernel

/-- `/b` (base root) empty -/
def rootDisk3 : MFS where
  get := fun k =>
    if k = [] then some (.dir exMeta)
    else if k = [['b']] then some (.dir exMeta)
    else if k = [['k']] then some (.dir exMeta)
    else none
  dom := [[], [['b']], [['k']]]
  umask := 0o022

/-- `Remove("/")` of an empty root removes the base root directory; Rollback re-creates it and
returns nil -/
theorem rollback_recreates_removed_empty_root :
    (runOps (osCfg [['b']] [['k']]) { fs := rootDisk3 } [.remove "/".toList]).fs.get [['b']] = none ∧
    (rollback (osCfg [['b']] [['k']]) (runOps (osCfg [['b']] [['k']]) { fs := rootDisk3 } [.remove "/".toList])).2 = .ok false ∧
    ((rollback (osCfg [['b']] [['k']]) (runOps (osCfg [['b']] [['k']]) { fs := rootDisk3 } [.remove "/".toList])).1.fs.get [['b']]).isSome = true := by
  decide +kernel

end Props.C01
