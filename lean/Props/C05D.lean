import Lemmas
import Lemmas.DConf
import Lemmas.DConfL
import Lemmas.DTame2
import Props.C05
/-!
# C05 (disk level) — PrefixFS over the OS model confines every effect to the prefix directory

`Props.C05.prefix_confines` is lexical: which path strings PrefixFS hands down.  Here the statement
is about the DISK: `prefixFS (kp pk) osfs` is PrefixFS with the absolute cleaned prefix `kp pk` over
the OS model `MFS` (kernel name resolution included).

D05.1 `os_confined_linkfree`: on every well-formed disk on which the prefix directory exists and no
symlink lives at or below it (`OSGood pk pk m`; symlinks anywhere else are allowed, and the ancestors
of the prefix are then directories by well-formedness), ANY of the 16 calls with ANY name strings and
arguments leaves every key outside the prefix subtree exactly as it was — with one exception that
the statement spells out: `Remove("/")`/`RemoveAll("/")` remove the prefix directory itself, and the
kernel then stamps ITS parent directory's mtime (`Stamp`; witness `prefix_removal_stamps_parent`).
A refused call (EPERM) leaves the whole disk unchanged.  Writes through returned handles go to a key
at or below the prefix.
-/
namespace Props.C05
open BFS BFS.D

theorem pkey_of_good {pk : Key} {m : MFS} (hg : OSGood pk pk m) : PKey pk := by
  obtain ⟨mt, h⟩ := hg.bdir
  exact hg.pkey pk _ h

/-- D05.1 -/
theorem os_confined_linkfree (pk : Key) (m : MFS) (hg : OSGood pk pk m) (c : Call) :
    Confined pk m ((prefixFS (kp pk) osfs).call m c).1 ∧
    (∀ e, PrefixFS.translate (kp pk) c = .error e →
      (prefixFS (kp pk) osfs).call m c = (m, .error .perm)) := by
  have hpk := pkey_of_good hg
  rcases prefix_call_cases hpk m c with ⟨e, he, hc⟩ | ⟨c', hk, he, hc⟩
  · rw [hc]
    refine ⟨Confined.refl _ _, ?_⟩
    intro e' he'
    rw [he] at he'
    cases he'
    rw [Props.C05.rejected_is_escape _ _ _ he]
  · rw [hc]
    refine ⟨confined_of_effect (WFB.of_good hg) hg.bdir (osCall_effect (WFB.of_good hg) hpk hk), ?_⟩
    intro e he'
    rw [he] at he'
    cases he'

/-- D05.1 spelled out on keys: every key that is neither at/below the prefix key nor the parent of
the prefix key holds the same node before and after; the parent of the prefix key holds the same
node up to a fresh directory mtime; and if the prefix directory still exists after the call, every
key outside the prefix holds exactly the same node. -/
theorem os_confined_linkfree_keys (pk : Key) (m : MFS) (hg : OSGood pk pk m) (c : Call) :
    let m' := ((prefixFS (kp pk) osfs).call m c).1
    (∀ j, ¬ pk <+: j → j ≠ pk.dropLast → m'.get j = m.get j) ∧
    (pk ≠ [] → Stamp (m.get pk.dropLast) (m'.get pk.dropLast)) ∧
    ((m'.get pk).isSome → ∀ j, ¬ pk <+: j → m'.get j = m.get j) :=
  let h := (os_confined_linkfree pk m hg c).1
  ⟨h.other, h.par, h.same⟩

/-- the prefix directory survives everything but its own removal: for all methods except `Remove` and
`RemoveAll`, every key outside the prefix holds exactly the same node, and the prefix directory is
still there -/
theorem os_confined_linkfree_strict (pk : Key) (m : MFS) (hg : OSGood pk pk m) (c : Call)
    (hrm : ∀ n, c ≠ .remove n ∧ c ≠ .removeAll n) :
    (((prefixFS (kp pk) osfs).call m c).1.get pk).isSome ∧
    ∀ j, ¬ pk <+: j → ((prefixFS (kp pk) osfs).call m c).1.get j = m.get j := by
  have hpk := pkey_of_good hg
  have hw := WFB.of_good hg
  have hlive : (((prefixFS (kp pk) osfs).call m c).1.get pk).isSome := by
    rcases prefix_call_cases hpk m c with ⟨e, he, hc⟩ | ⟨c', hk, he, hc⟩
    · rw [hc]
      obtain ⟨mt, hd⟩ := hg.bdir
      show (m.get pk).isSome
      rw [hd]; rfl
    · rw [hc]
      exact osCall_keeps_prefix hw hpk hg.bdir hk hrm
  exact ⟨hlive, (os_confined_linkfree pk m hg c).1.same hlive⟩

theorem unit_not_handle (pre : Path) (x : MFS × Except Err Unit) (c0 c1 : Call) (h : Handle) :
    (liftU x).2.map (prefixPost pre c0 c1) ≠ .ok (.handle h) := by
  simp only [liftU, map_post_unit]
  cases x.2 with
  | error e => intro hh; cases hh
  | ok u => intro hh; cases hh

/-- handles: a handle returned by `Create`/`Open`/`OpenFile` through PrefixFS names a key at or
below the prefix, and a write through it — on whatever disk `m2` the write happens later — changes
the node at that key only -/
theorem os_confined_handle_writes (pk : Key) (m : MFS) (hg : OSGood pk pk m) (c : Call) (h : Handle)
    (hr : ((prefixFS (kp pk) osfs).call m c).2 = .ok (.handle h)) :
    pk <+: h.key ∧
    ∀ (m2 : MFS) (off : Nat) (d : String) (j : Key), ¬ pk <+: j →
      ((prefixFS (kp pk) osfs).hwrite m2 h off d).1.get j = m2.get j := by
  have hpk := pkey_of_good hg
  have hw := WFB.of_good hg
  have hkey : pk <+: h.key := by
    rcases prefix_call_cases hpk m c with ⟨e, he, hc⟩ | ⟨c', hk, he, hc⟩
    · rw [hc] at hr; cases hr
    · rw [hc] at hr
      simp only at hr
      have R : ∀ {x : Key}, PKey x → ∀ f, NC m (pk ++ x) (MFS.namei m (kp (pk ++ x)) f) :=
        fun hx f => NC.of_case (hw.resolve_key hpk hx (TextOf.kp _) f)
      -- only the three opening methods return a handle
      have key : ∀ (x : Key) (hx : PKey x) (fl pm : Nat) (c0 c1 : Call),
          (Except.map Ret.handle (m.openFile (kp (pk ++ x)) fl pm).2).map (prefixPost (kp pk) c0 c1)
            = .ok (.handle h) → pk <+: h.key := by
        intro x hx fl pm c0 c1 hh
        cases ho : (m.openFile (kp (pk ++ x)) fl pm).2 with
        | error e => rw [ho] at hh; cases hh
        | ok h0 =>
          rw [ho] at hh
          simp only [Except.map, post_handle, Except.ok.injEq, Ret.handle.injEq] at hh
          have := openFile_handle_key (R hx _) ho
          rw [← hh]
          show pk <+: h0.key
          rw [this]
          exact List.prefix_append _ _
      cases hk with
      | create n x hx _ => exact key x hx _ _ _ _ hr
      | open_ n x hx _ => exact key x hx _ _ _ _ hr
      | openFile n f p x hx _ => exact key x hx _ _ _ _ hr
      | stat n x hx _ =>
        exfalso
        simp only [osCall] at hr
        cases hs : m.stat (kp (pk ++ x)) with
        | error e => rw [hs] at hr; cases hr
        | ok i => rw [hs] at hr; cases hr
      | lstat n x hx _ =>
        exfalso
        simp only [osCall] at hr
        cases hs : m.lstat (kp (pk ++ x)) with
        | error e => rw [hs] at hr; cases hr
        | ok i => rw [hs] at hr; cases hr
      | readlink n x hx _ =>
        exfalso
        simp only [osCall] at hr
        cases hs : m.readlink (kp (pk ++ x)) with
        | error e => rw [hs] at hr; cases hr
        | ok i => rw [hs] at hr; cases hr
      | mkdir n p x hx _ => exact absurd hr (unit_not_handle _ _ _ _ _)
      | mkdirAll n p x hx _ => exact absurd hr (unit_not_handle _ _ _ _ _)
      | remove n x hx _ => exact absurd hr (unit_not_handle _ _ _ _ _)
      | removeAll n x hx _ => exact absurd hr (unit_not_handle _ _ _ _ _)
      | rename o n x y hx hy _ _ => exact absurd hr (unit_not_handle _ _ _ _ _)
      | chmod n md x hx _ => exact absurd hr (unit_not_handle _ _ _ _ _)
      | chown n u g x hx _ => exact absurd hr (unit_not_handle _ _ _ _ _)
      | chtimes n a t x hx _ => exact absurd hr (unit_not_handle _ _ _ _ _)
      | symlink o n o' x hx _ => exact absurd hr (unit_not_handle _ _ _ _ _)
      | lchown n u g x hx _ => exact absurd hr (unit_not_handle _ _ _ _ _)
  refine ⟨hkey, ?_⟩
  intro m2 off d j hj
  exact hwrite_frame m2 h off d j (fun e => hj (e ▸ hkey))

/-- C05's second clause on the disk: a symlink created through PrefixFS on such a disk sits at a key
below the prefix, and its target — resolved lexically from the directory where the link PHYSICALLY
is, which on a link-free disk is the directory the name spells — stays inside the prefix.
(With a symlinked parent directory this fails: `Props.C05.symlink_escapes_through_linked_parent`.) -/
theorem symlink_created_inside_linkfree (pk : Key) (m : MFS) (hg : OSGood pk pk m) (o n : Path)
    (hok : ((prefixFS (kp pk) osfs).call m (.symlink o n)).2 = .ok .unit) :
    ∃ x o' mt, PKey x ∧
      m.get (pk ++ x) = none ∧
      ((prefixFS (kp pk) osfs).call m (.symlink o n)).1.get (pk ++ x) = some (.link o' mt) ∧
      Within (kp pk) (toAbsSymlink o' (kp (pk ++ x))) := by
  have hpk := pkey_of_good hg
  have hw := WFB.of_good hg
  rcases prefix_call_cases hpk m (.symlink o n) with ⟨e, he, hc⟩ | ⟨c', hk, he, hc⟩
  · rw [hc] at hok; cases hok
  · rw [hc] at hok ⊢
    cases hk with
    | symlink _ _ o' x hx _ =>
      have hN := NC.of_case (hw.resolve_key hpk hx (TextOf.kp _) false)
      have hu : (m.symlink o' (kp (pk ++ x))).2 = .ok () := by
        simp only [osCall, liftU, map_post_unit] at hok
        exact map_unit_ok hok
      obtain ⟨h1, mt, h2⟩ := symlink_ok o' hN hu
      exact ⟨x, o', mt, hx, h1, h2,
        symlink_target_confined_partial (kp pk) o n o' _ he (Or.inl (isRooted_kp pk))⟩

/-! ## the exception is real: removing the prefix directory stamps its parent -/

/-- `RemoveAll("/")` through `PrefixFS("/b")` on `exDisk` removes `/b` and gives the root directory
`/` — a key outside the prefix — a fresh mtime -/
theorem prefix_removal_stamps_parent :
    let r := (prefixFS (kp [['b']]) osfs).call exDisk (.removeAll "/".toList)
    r.2 = .ok .unit ∧ r.1.get [['b']] = none ∧ exDisk.get [] = some (.dir exMeta) ∧
      r.1.get [] = some (.dir { exMeta with mtime := .fresh }) := by decide

/-! ## non-vacuity -/

theorem exDisk_good_b : OSGood [['b']] [['b']] exDisk :=
  ⟨osGood_example.root, osGood_example.pkey, osGood_example.dom, osGood_example.mode, osGood_example.parent,
    osGood_example.bdir, osGood_example.bdir,
    fun k t mt h => osGood_example.nolink k t mt (Or.inl (h.elim id id))⟩

/-- names that climb are clamped at the prefix (`/../n` is `/n`), names that would leave it are
refused: `Mkdir("/../n")` creates `/b/n`, nothing appears at `/n`; `Mkdir("../b2/n")` is EPERM -/
example :
    let r := (prefixFS (kp [['b']]) osfs).call exDisk (.mkdir "/../n".toList 0o755)
    r.2 = .ok .unit ∧ (r.1.get [['b'], ['n']]).isSome ∧ r.1.get [['n']] = none ∧
    ((prefixFS (kp [['b']]) osfs).call exDisk (.mkdir "../b2/n".toList 0o755)).2 = .error .perm := by decide

example : Confined [['b']] exDisk ((prefixFS (kp [['b']]) osfs).call exDisk (.mkdir "/../n".toList 0o755)).1 :=
  (os_confined_linkfree _ _ exDisk_good_b _).1

/-! ## the link-freeness hypothesis is needed: kernel-checked escapes (finding K-prefix-lexical-links)

`PrefixFS.Symlink` checks a relative target lexically from the directory the link's NAME spells; the
OS resolves it from the directory where the link physically ends up.  Both histories below start from
a disk holding nothing but `/` and the empty prefix directory `/P`, use PrefixFS calls only, every call
returns nil, and a file is created OUTSIDE the prefix.  (Replayed on the Go code: /tmp/p4/goprobe*.) -/

def emptyPrefixDisk : MFS where
  get := fun k => if k = [] then some (.dir exMeta) else if k = [['P']] then some (.dir exMeta) else none
  dom := [[], [['P']]]
  umask := 0o022

example : OSGood [['P']] [['P']] emptyPrefixDisk := by
  have live : ∀ {k n}, emptyPrefixDisk.get k = some n → (k = [] ∨ k = [['P']]) ∧ n = .dir exMeta := by
    intro k n h
    simp only [emptyPrefixDisk] at h
    split at h
    · cases h; exact ⟨Or.inl ‹_›, rfl⟩
    split at h
    · cases h; exact ⟨Or.inr ‹_›, rfl⟩
    · cases h
  refine ⟨⟨_, rfl⟩, ?_, ?_, ?_, ?_, ⟨_, rfl⟩, ⟨_, rfl⟩, ?_⟩
  · intro k n h; rcases (live h).1 with rfl | rfl <;> decide
  · intro k n h; rcases (live h).1 with rfl | rfl <;> decide
  · intro k n h; rw [(live h).2]; decide
  · intro k n h hne
    rcases (live h).1 with rfl | rfl
    · exact absurd rfl hne
    · exact ⟨_, rfl⟩
  · intro k t mt _ h; have := (live h).2; cases this

/-- the state after running the calls `cs` through `PrefixFS("/P")`, and whether all returned nil/ok -/
def runP (m : MFS) : List Call → MFS × Bool
  | [] => (m, true)
  | c :: cs =>
    match (prefixFS (kp [['P']]) osfs).call m c with
    | (m1, .ok _) => runP m1 cs
    | (m1, .error _) => (m1, false)

/-- route 1, a symlinked parent directory: `MkdirAll("/q/r")`, `Mkdir("/a")`, `Symlink("/a", "/q/r/d3")`,
`Symlink("../../../x", "/q/r/d3/l")` (lexically `/P/q/r/d3/../../../x = /P/x`: accepted; the link lands in
`/P/a`, from where its target is `/x`), `Create("/a/l")`: all succeed and the file `/x` appears. -/
theorem symlink_escapes_through_linked_parent :
    let r := runP emptyPrefixDisk
      [.mkdirAll "/q/r".toList 0o755, .mkdir "/a".toList 0o755, .symlink "/a".toList "/q/r/d3".toList,
       .symlink "../../../x".toList "/q/r/d3/l".toList, .create "/a/l".toList]
    r.2 = true ∧ emptyPrefixDisk.get [['x']] = none ∧ (r.1.get [['x']]).isSome ∧
      r.1.get [['P'], ['a'], ['l']]
        = some (.link "../../../x".toList { mode := 0o777, uid := 0, gid := 0, mtime := .fresh }) ∧
      ¬ Within (kp [['P']]) (toAbsSymlink "../../../x".toList (kp [['P'], ['a'], ['l']])) := by decide

/-- route 2, relocation by `Rename`: `Mkdir("/a")`, `Symlink("../x", "/a/l")` (lexically `/P/x`),
`Rename("/a/l", "/l")` (the target now means `/x`), `Create("/l")`: all succeed and `/x` appears. -/
theorem symlink_escapes_after_rename :
    let r := runP emptyPrefixDisk
      [.mkdir "/a".toList 0o755, .symlink "../x".toList "/a/l".toList, .rename "/a/l".toList "/l".toList,
       .create "/l".toList]
    r.2 = true ∧ emptyPrefixDisk.get [['x']] = none ∧ (r.1.get [['x']]).isSome := by decide

/-! ## D05.2 — disks WITH symlinks below the prefix

`Tame pk m`: every symlink at or below the prefix key has a target without a `..` component, and
an absolute target runs lexically through the prefix (`kp (pk ++ y)`, what PrefixFS stores for an
absolute target, is of that form).  `PrefDirs pk m`: the prefix directory and its ancestors are
live directories (so no symlink among the ancestors).  Nothing else is assumed about the disk —
not even well-formedness; symlinks outside the prefix are arbitrary.  The hypothesis `Tame` is what
excludes the three escape routes of finding K-prefix-lexical-links (all of them need a link whose
target contains `..`): hence `_partial`. -/

/-- D05.2: on such a disk ANY call with ANY name strings — names running through symlinked
directories included — is confined to the prefix exactly as in D05.1, and a refused call changes
nothing. -/
theorem os_confined_with_inside_links_partial (pk : Key) (hpk : PKey pk) (m : MFS)
    (hd : PrefDirs pk m) (ht : Tame pk m) (c : Call) :
    Confined pk m ((prefixFS (kp pk) osfs).call m c).1 ∧
    (∀ e, PrefixFS.translate (kp pk) c = .error e →
      (prefixFS (kp pk) osfs).call m c = (m, .error .perm)) := by
  rcases prefix_call_cases hpk m c with ⟨e, he, hc⟩ | ⟨c', hk, he, hc⟩
  · rw [hc]
    refine ⟨Confined.refl _ _, ?_⟩
    intro e' he'
    rw [he] at he'
    cases he'
    rw [Props.C05.rejected_is_escape _ _ _ he]
  · rw [hc]
    refine ⟨osCall_confinedL hpk hd ht hk, ?_⟩
    intro e he'
    rw [he] at he'
    cases he'

/-- D05.1's hypotheses are a special case of D05.2's -/
theorem tame_of_linkfree {pk : Key} {m : MFS} (hg : OSGood pk pk m) : PrefDirs pk m ∧ Tame pk m := by
  constructor
  · intro p hp
    by_cases he : p = pk
    · rw [he]; exact hg.bdir
    · obtain ⟨mt, hb⟩ := hg.bdir
      exact hg.ancestor hb hp he
  · intro k t mt hk hl
    exact absurd hl (hg.nolink k t mt (Or.inl hk))

/-- which `Symlink` calls keep a disk tame: an absolute target (PrefixFS re-roots it to
`kp (pk ++ y)`) or a relative target without a `..` component -/
theorem stored_target_tame (pk : Key) (hpk : PKey pk) (o n o' n' : Path)
    (h : PrefixFS.translate (kp pk) (.symlink o n) = .ok (.symlink o' n'))
    (hno : isAbs o = true ∨ dotdot ∉ splitSep o) : TameTarget pk o' := by
  simp only [PrefixFS.translate, bind, Except.bind, pure, Except.pure] at h
  cases hn : PrefixFS.prefixPath (kp pk) n with
  | error e => rw [hn] at h; cases h
  | ok pn =>
    rw [hn] at h
    simp only at h
    by_cases hab : isAbs o = true
    · simp only [hab, if_true] at h
      cases ho : PrefixFS.prefixPath (kp pk) o with
      | error e => rw [ho] at h; cases h
      | ok po =>
        rw [ho] at h
        cases h
        obtain ⟨y, hy, rfl⟩ := prefixPath_key hpk ho
        obtain ⟨tl, hs, htl, _⟩ := splitSep_text (hpk.append hy) (TextOf.kp (pk ++ y))
        have htriv : ∀ c ∈ tl, c = [] ∨ c = dot := by
          intro c hc
          unfold MFS.trivialRest at htl
          simpa using List.all_eq_true.mp htl c hc
        refine ⟨?_, fun _ => ?_⟩
        · rw [hs]
          intro hmem
          rcases List.mem_cons.mp hmem with e | hmem
          · cases e
          · rcases List.mem_append.mp hmem with hmem | hmem
            · exact ((hpk.append hy) _ hmem).2.2.2 rfl
            · rcases htriv _ hmem with e | e <;> cases e
        · rw [hs, strip_cons_triv (by decide), strip_append, strip_pkey (hpk.append hy)]
          exact (List.prefix_append pk y).trans (List.prefix_append _ _)
    · have hab' : isAbs o = false := by simpa using hab
      simp only [hab', Bool.false_eq_true, if_false] at h
      split at h
      · cases h
      · cases h
        rcases hno with h1 | h1
        · rw [hab'] at h1; cases h1
        · exact ⟨h1, fun hr => by unfold isAbs at hab'; rw [hab'] at hr; cases hr⟩

/-! ### D05.2 as a statement about HISTORIES: the hypothesis moves from the disk to the calls

Tameness does not depend on where a link is, no syscall rewrites a stored target, and `Rename` moves
links with their targets.  So a tame disk stays tame under every PrefixFS call except a `Symlink`
whose relative target contains `..` — exactly the calls all three escape routes need. -/

/-- a call that cannot plant an untame link: a `Symlink` target is absolute or has no `..` component -/
def TameCall : Call → Prop
  | .symlink o _ => isAbs o = true ∨ dotdot ∉ splitSep o
  | _ => True

instance (c : Call) : Decidable (TameCall c) := by
  cases c <;> unfold TameCall <;> exact inferInstance

/-- one step: if the prefix directory is still there afterwards, the disk is tame again, the prefix
and its ancestors are still directories, and every key outside the prefix is exactly unchanged -/
theorem tame_step_partial (pk : Key) (hpk : PKey pk) (m : MFS) (hd : PrefDirs pk m) (ht : Tame pk m)
    (c : Call) (hc : TameCall c)
    (hlive : (((prefixFS (kp pk) osfs).call m c).1.get pk).isSome) :
    PrefDirs pk ((prefixFS (kp pk) osfs).call m c).1 ∧ Tame pk ((prefixFS (kp pk) osfs).call m c).1 ∧
    ∀ j, ¬ pk <+: j → ((prefixFS (kp pk) osfs).call m c).1.get j = m.get j := by
  have hconf := (os_confined_with_inside_links_partial pk hpk m hd ht c).1
  refine ⟨?_, ?_, hconf.same hlive⟩
  · rcases prefix_call_cases hpk m c with ⟨e, he, hcall⟩ | ⟨c', hk, he, hcall⟩
    · rw [hcall]; exact hd
    · rw [hcall] at hlive ⊢
      exact osCall_prefDirs hpk hd ht hk hlive
  · rcases prefix_call_cases hpk m c with ⟨e, he, hcall⟩ | ⟨c', hk, he, hcall⟩
    · rw [hcall]; exact ht
    · rw [hcall]
      apply osCall_tame hpk hd ht hk
      intro o' n' e
      subst e
      cases hk with
      | symlink o n _ x hx _ => exact stored_target_tame pk hpk o n o' _ he hc

/-- the disk after a history of calls through `PrefixFS(kp pk)` -/
def runCalls (pk : Key) : MFS → List Call → MFS
  | m, [] => m
  | m, c :: cs => runCalls pk ((prefixFS (kp pk) osfs).call m c).1 cs

/-- the prefix directory exists after every call of the history (nobody removed it through
`Remove("/")`/`RemoveAll("/")`) -/
def PrefixSurvives (pk : Key) : MFS → List Call → Prop
  | _, [] => True
  | m, c :: cs =>
    (((prefixFS (kp pk) osfs).call m c).1.get pk).isSome ∧
      PrefixSurvives pk ((prefixFS (kp pk) osfs).call m c).1 cs

/-- D05.2 for histories: start from a disk whose links below the prefix are tame (e.g. none at all,
e.g. an empty prefix directory); run ANY finite history of PrefixFS calls with ANY name strings in
which no `Symlink` has a relative target containing `..` and the prefix directory is never removed.
Then every key outside the prefix holds at the end exactly the node it held at the start (and the
disk is still tame, so the statement extends to any continuation). -/
theorem os_confined_history_partial (pk : Key) (hpk : PKey pk) :
    ∀ (cs : List Call) (m : MFS), PrefDirs pk m → Tame pk m → (∀ c ∈ cs, TameCall c) →
      PrefixSurvives pk m cs →
      PrefDirs pk (runCalls pk m cs) ∧ Tame pk (runCalls pk m cs) ∧
      ∀ j, ¬ pk <+: j → (runCalls pk m cs).get j = m.get j
  | [], m, hd, ht, _, _ => ⟨hd, ht, fun _ _ => rfl⟩
  | c :: cs, m, hd, ht, hc, hs => by
    obtain ⟨s1, s2, s3⟩ := tame_step_partial pk hpk m hd ht c (hc c (by simp)) hs.1
    obtain ⟨r1, r2, r3⟩ := os_confined_history_partial pk hpk cs _ s1 s2
      (fun c' h' => hc c' (List.mem_cons_of_mem _ h')) hs.2
    exact ⟨r1, r2, fun j hj => (r3 j hj).trans (s3 j hj)⟩

/-- the two escape histories are exactly the ones the hypothesis `TameCall` rejects -/
example : ¬ TameCall (.symlink "../../../x".toList "/q/r/d3/l".toList) ∧
    ¬ TameCall (.symlink "../x".toList "/a/l".toList) ∧
    TameCall (.symlink "/a".toList "/q/r/d3".toList) ∧ TameCall (.symlink "a/b".toList "/l".toList) := by decide

/-! ### non-vacuity: a disk with tame links below the prefix, and a call that runs through one -/

/-- `/`, `/P`, `/P/a` (directories), `/P/l -> a` (relative), `/P/q -> /P/a` (absolute, inside) -/
def tameDisk : MFS where
  get := fun k =>
    if k = [] then some (.dir exMeta)
    else if k = [['P']] then some (.dir exMeta)
    else if k = [['P'], ['a']] then some (.dir exMeta)
    else if k = [['P'], ['l']] then some (.link "a".toList exMeta)
    else if k = [['P'], ['q']] then some (.link "/P/a".toList exMeta)
    else none
  dom := [[], [['P']], [['P'], ['a']], [['P'], ['l']], [['P'], ['q']]]
  umask := 0o022

theorem tameDisk_ok : PrefDirs [['P']] tameDisk ∧ Tame [['P']] tameDisk := by
  constructor
  · intro p hp
    have : p = [] ∨ p = [['P']] := by
      rcases p with _ | ⟨a, _ | ⟨b, r⟩⟩
      · exact Or.inl rfl
      · right
        obtain ⟨t, ht⟩ := hp
        simp only [List.cons_append, List.nil_append, List.cons.injEq] at ht
        rw [ht.1]
      · exfalso
        have := hp.length_le
        simp at this
    rcases this with rfl | rfl <;> exact ⟨_, rfl⟩
  · intro k t mt _ hl
    simp only [tameDisk] at hl
    split at hl
    · cases hl
    split at hl
    · cases hl
    split at hl
    · cases hl
    split at hl
    · cases hl; decide
    split at hl
    · cases hl; decide
    · cases hl

/-- `Create("/l/g")` and `Create("/q/../q/h")` run through the links and create `/P/a/g`, `/P/a/h` -/
example :
    let fs := prefixFS (kp [['P']]) osfs
    ((fs.call tameDisk (.create "/l/g".toList)).1.get [['P'], ['a'], ['g']]).isSome ∧
    ((fs.call tameDisk (.create "/q/../q/h".toList)).1.get [['P'], ['a'], ['h']]).isSome := by decide

example : Confined [['P']] tameDisk ((prefixFS (kp [['P']]) osfs).call tameDisk (.create "/l/g".toList)).1 :=
  (os_confined_with_inside_links_partial _ (by decide) _ tameDisk_ok.1 tameDisk_ok.2 _).1

theorem emptyPrefixDisk_ok : PrefDirs [['P']] emptyPrefixDisk ∧ Tame [['P']] emptyPrefixDisk := by
  constructor
  · intro p hp
    have : p = [] ∨ p = [['P']] := by
      rcases p with _ | ⟨a, _ | ⟨b, r⟩⟩
      · exact Or.inl rfl
      · right
        obtain ⟨t, ht⟩ := hp
        simp only [List.cons_append, List.nil_append, List.cons.injEq] at ht
        rw [ht.1]
      · exfalso
        have := hp.length_le
        simp at this
    rcases this with rfl | rfl <;> exact ⟨_, rfl⟩
  · intro k t mt _ hl
    simp only [emptyPrefixDisk] at hl
    split at hl
    · cases hl
    split at hl
    · cases hl
    · cases hl

/-- a history with links, a name through a link, and a rename of a link, satisfying the hypotheses of
`os_confined_history_partial` from the empty prefix directory -/
example :
    let cs : List Call := [.mkdir "/a".toList 0o755, .symlink "/a".toList "/l".toList, .create "/l/f".toList,
      .symlink "a/f".toList "/g".toList, .rename "/g".toList "/a/g".toList, .removeAll "/a/../a/f".toList]
    (∀ c ∈ cs, TameCall c) ∧ PrefixSurvives [['P']] emptyPrefixDisk cs ∧
      (runCalls [['P']] emptyPrefixDisk cs).get [['P'], ['a'], ['g']]
        = some (.link "a/f".toList { mode := 0o777, uid := 0, gid := 0, mtime := .fresh }) := by
  refine ⟨by decide, ⟨by decide, by decide, by decide, by decide, by decide, by decide, trivial⟩, by decide⟩

end Props.C05
