import Lemmas.NXR2
import Lemmas.TNOpsB
import Lemmas.NSimOS
import Props.C04N
import Props.C02R
/-!
# C02 — originals stay recoverable: NESTED (README) layering, link-free trees

Setting of `Props.C04.rollback_restores_nested_linkfree_partial` (`N.nestedCfg bk hk`: base =
`HiddenFS [loc]` over `PrefixFS(root)`, backup = `PrefixFS(loc)` over the same `PrefixFS(root)` — ONE
disk; "the base" is every key below `bk` that is NOT at or below `hk`, "the backup" is the subtree at
`bk ++ hk`).  The vocabulary (`BaseShows`, `BackupHolds`, `BackupHoldsFile`, `crashPlan`, `dieAfter`)
is that of Props/C02.lean / Props/C02R.lean with backup root `bk ++ hk`.

1. `recoverable_of_inv_nested` (every fault plan), `file_recoverable_of_inv_nested`,
   `recoverable_of_invB_nested` (healthy filesystem: + directory copies + "the location holds nothing
   but copies of tracked originals"), `recoverable_at_every_crash_point_in_operations_nested_linkfree_partial`,
   `originals_recoverable_at_every_crash_point_nested_linkfree_partial` (Rollback on the frozen disk
   restores);
2. crash points INSIDE Rollback, every `n`: `crash_in_rollback_dichotomy_nested_linkfree_partial`,
   `recoverable_at_every_crash_point_in_rollback_nested_linkfree_partial`, `…_healthy_…`.

Proofs: Lemmas/NXFoot.lean (footprint of Rollback over `N.Sim`: frame laws only), Lemmas/NXR2.lean
(`N.rollback_crash_dichotomy`); the crash machinery (`CS`, `Frozen`, `rollback_split`) does not depend
on the filesystem contract and is shared.  One disk instead of two costs nothing here: the contract's
frame laws are stated per VIEW ("a base-side call leaves the backup view alone"), and `N.nSim` proves
them for the two views of the one disk.
-/
namespace Props.C02
open BFS BFS.BackupFS

private theorem map_erase_file' {x : Option Node} {c : String} {mt : Meta}
    (h : x.map eraseMt = some (.file c mt)) : x = some (.file c mt) := by
  cases x with
  | none => cases h
  | some n =>
    cases n with
    | file c' mt' => simpa [eraseMt] using h
    | dir md => simp [eraseMt] at h
    | link t md => simp [eraseMt] at h

private theorem map_erase_dir' {x : Option Node} {md : Meta}
    (h : x.map eraseMt = some (.dir md)) : ∃ md', x = some (.dir md') := by
  cases x with
  | none => cases h
  | some n =>
    cases n with
    | file c' mt' => simp [eraseMt] at h
    | dir md' => exact ⟨md', rfl⟩
    | link t md' => simp [eraseMt] at h

section
variable (bk hk dd : Key) (hr : N.NRoots bk hk dd)

/-- generic step: from `N.Inv` at `w` for the original view of `w0`, a statement about a disk `m` whose
backup view is that of `w` and whose base view agrees with `w`'s at untracked originals -/
private theorem entry_of_inv_nested {w0 w : World} {m : MFS}
    (hinv : N.Inv (N.nSim bk hk dd hr) (N.nview bk hk .base w0.fs) w)
    (hbackup : ∀ j, N.nview bk hk .backup m j = N.nview bk hk .backup w.fs j)
    (hbase : ∀ j, w.infos.lookup (kp j) = none → N.nview bk hk .base w0.fs j ≠ none →
      N.nview bk hk .base m j = N.nview bk hk .base w.fs j)
    (k : Key) (hvis : ¬ hk <+: k) (node : Node) (horig : w0.fs.get (bk ++ k) = some node) :
    BaseShows m bk k node ∨
      (∃ i, w.infos.lookup (kp k) = some (some i) ∧ InfoFor i (eraseMt node) ∧
        BackupHoldsFile m (bk ++ hk) k node) := by
  have hv : N.nview bk hk .base w0.fs k = some (eraseMt node) := by
    rw [N.nview_base_vis hvis, horig]; rfl
  rcases hinv.recoverable hv with ⟨hu, hb⟩ | ⟨i, hts, hfor, hcopy⟩
  · left
    have := hbase k hu (by rw [hv]; exact Option.some_ne_none _)
    rw [N.nview_base_vis hvis] at this
    show (m.get (bk ++ k)).map eraseMt = _
    rw [this]; exact hb
  · right
    refine ⟨i, hts, hfor, ?_⟩
    cases node with
    | file c mt =>
      obtain ⟨mt', h⟩ := hcopy c mt rfl
      have h' : N.nview bk hk .backup m k = some (.file c mt') := by rw [hbackup k]; exact h
      exact ⟨mt', map_erase_file' h'⟩
    | dir md => trivial
    | link t md => trivial

/-- **(1-N) the literal form of the property, from the invariant — every fault plan.**  After any
covered history run under ANY fault plan, for every entry `k` below the base root and outside the
location that existed when the transaction began: EITHER the base still shows it, OR it is tracked
with a `FileInfo` that describes it exactly and — regular file — the location holds a regular file
with the same content at the same relative path. -/
theorem recoverable_of_inv_nested
    (w0 : World) (hg : N.NGood bk hk dd w0.fs) (hinfos : w0.infos = []) (ops : List Op)
    (hcov : N.CoveredHist (N.nestedCfg bk hk) (N.nSim bk hk dd hr) w0 ops) :
    ∀ k, k ≠ [] → ¬ hk <+: k → ∀ node, w0.fs.get (bk ++ k) = some node →
      BaseShows (runOps (N.nestedCfg bk hk) w0 ops).fs bk k node ∨
      (∃ i, (runOps (N.nestedCfg bk hk) w0 ops).infos.lookup (kp k) = some (some i) ∧ InfoFor i (eraseMt node) ∧
        BackupHoldsFile (runOps (N.nestedCfg bk hk) w0 ops).fs (bk ++ hk) k node) := by
  intro k _ hvis node horig
  have hinv := (N.history_keeps ops w0 (N.Inv.init (S := N.nSim bk hk dd hr) hg hinfos) hcov).inv
  exact entry_of_inv_nested bk hk dd hr hinv (fun _ => rfl) (fun _ _ _ => rfl) k hvis node horig

/-- for regular files: the file is in the base, or its content is in the location -/
theorem file_recoverable_of_inv_nested
    (w0 : World) (hg : N.NGood bk hk dd w0.fs) (hinfos : w0.infos = []) (ops : List Op)
    (hcov : N.CoveredHist (N.nestedCfg bk hk) (N.nSim bk hk dd hr) w0 ops) :
    ∀ k, k ≠ [] → ¬ hk <+: k → ∀ c mt, w0.fs.get (bk ++ k) = some (.file c mt) →
      (runOps (N.nestedCfg bk hk) w0 ops).fs.get (bk ++ k) = some (.file c mt) ∨
      ∃ mt', (runOps (N.nestedCfg bk hk) w0 ops).fs.get (bk ++ hk ++ k) = some (.file c mt') := by
  intro k hkne hvis c mt horig
  rcases recoverable_of_inv_nested bk hk dd hr w0 hg hinfos ops hcov k hkne hvis _ horig with h | ⟨_, _, _, h⟩
  · exact Or.inl (map_erase_file' h)
  · exact Or.inr h

/-- **(1-N, healthy filesystem) with directory copies, and "the location never holds anything else".** -/
theorem recoverable_of_invB_nested
    (w0 : World) (hg : N.NGood bk hk dd w0.fs) (hinfos : w0.infos = []) (hnf : w0.faults = [])
    (hempty : ∀ k, k ≠ [] → w0.fs.get (bk ++ hk ++ k) = none) (ops : List Op)
    (hcov : N.CoveredHist (N.nestedCfg bk hk) (N.nSim bk hk dd hr) w0 ops) :
    (∀ k, k ≠ [] → ¬ hk <+: k → ∀ node, w0.fs.get (bk ++ k) = some node →
      BaseShows (runOps (N.nestedCfg bk hk) w0 ops).fs bk k node ∨
      BackupHolds (runOps (N.nestedCfg bk hk) w0 ops).fs (bk ++ hk) k node) ∧
    (∀ k, k ≠ [] → (runOps (N.nestedCfg bk hk) w0 ops).fs.get (bk ++ hk ++ k) ≠ none →
      ¬ hk <+: k ∧
      ∃ i node, (runOps (N.nestedCfg bk hk) w0 ops).infos.lookup (kp k) = some (some i) ∧
        w0.fs.get (bk ++ k) = some node ∧ InfoFor i (eraseMt node)) := by
  have hB := (N.history_keepsB ops w0 (N.InvB.init (S := N.nSim bk hk dd hr) hg hinfos hnf (fun _ h => h)
    (fun k hk' => by
      show (w0.fs.get (bk ++ hk ++ k)).map eraseMt = none
      rw [hempty k hk']; rfl)) hcov).inv
  refine ⟨?_, ?_⟩
  · intro k hkne hvis node horig
    rcases entry_of_inv_nested bk hk dd hr hB.inv (fun _ => rfl) (fun _ _ _ => rfl) k hvis node horig with
      h | ⟨i, hts, hfor, hcopy⟩
    · exact Or.inl h
    · right
      cases node with
      | file c mt => exact hcopy
      | dir md =>
        have hpk : PKey k := hB.inv.v0_pkey (k := k) (by
          show N.nview bk hk .base w0.fs k ≠ none
          rw [N.nview_base_vis hvis, horig]; simp)
        obtain ⟨md', hd⟩ := hB.b.bdirs k i hpk hkne hts hfor.1
        exact map_erase_dir' hd
      | link t md =>
        exfalso
        exact hg.os.nolink (bk ++ k) t md (Or.inl (List.prefix_append _ _)) horig
  · intro k hkne hp
    have hp' : N.nview bk hk .backup (runOps (N.nestedCfg bk hk) w0 ops).fs k ≠ none := by
      show ((runOps (N.nestedCfg bk hk) w0 ops).fs.get (bk ++ hk ++ k)).map eraseMt ≠ none
      intro e; exact hp (Option.map_eq_none_iff.mp e)
    obtain ⟨i, hts⟩ := hB.b.bonly k hkne hp'
    have hpk : PKey k := (N.nSim bk hk dd hr).pkey (s := .backup) hB.inv.good hp'
    obtain ⟨n, hn, hfor, _⟩ := hB.inv.ts_node hpk hts
    obtain ⟨hvis, hn'⟩ := N.nview_base_some (dd := dd) hn
    have hn'' : (w0.fs.get (bk ++ k)).map eraseMt = some n := hn'
    refine ⟨hvis, ?_⟩
    cases hraw : w0.fs.get (bk ++ k) with
    | none => rw [hraw] at hn''; cases hn''
    | some node =>
      rw [hraw] at hn''
      simp only [Option.map_some, Option.some.injEq] at hn''
      exact ⟨i, node, hts, rfl, hn'' ▸ hfor⟩

/-- **(1-N, crash points inside operations).**  `N.Inv` holds under every fault plan and `crashPlan n`
is one: let the process die after any number `n` of primitive calls of any covered history; on the
disk it leaves behind every original outside the location is in the base, or tracked with an exact
description and — regular files — copied in the location. -/
theorem recoverable_at_every_crash_point_in_operations_nested_linkfree_partial
    (w0 : World) (hg : N.NGood bk hk dd w0.fs) (hinfos : w0.infos = []) (n : Nat) (_hplan : w0.faults = crashPlan n)
    (ops : List Op) (hcov : N.CoveredHist (N.nestedCfg bk hk) (N.nSim bk hk dd hr) w0 ops) :
    ∀ k, k ≠ [] → ¬ hk <+: k → ∀ node, w0.fs.get (bk ++ k) = some node →
      BaseShows (runOps (N.nestedCfg bk hk) w0 ops).fs bk k node ∨
      (∃ i, (runOps (N.nestedCfg bk hk) w0 ops).infos.lookup (kp k) = some (some i) ∧ InfoFor i (eraseMt node) ∧
        BackupHoldsFile (runOps (N.nestedCfg bk hk) w0 ops).fs (bk ++ hk) k node) :=
  recoverable_of_inv_nested bk hk dd hr w0 hg hinfos ops hcov

/-- T02.crash-N (crash points inside operations, "can still restore"): the process dies after any
number `n` of primitive calls of any covered history; Rollback on the frozen disk (healthy again)
restores every entry of the base below its root and outside the location. -/
theorem originals_recoverable_at_every_crash_point_nested_linkfree_partial
    (w : World) (hg : N.NGood bk hk dd w.fs) (hinfos : w.infos = []) (n : Nat) (_hplan : w.faults = crashPlan n)
    (ops : List Op) (hcov : N.CoveredHist (N.nestedCfg bk hk) (N.nSim bk hk dd hr) w ops) :
    ∀ k, k ≠ [] → ¬ hk <+: k →
      ((rollback (N.nestedCfg bk hk) { runOps (N.nestedCfg bk hk) w ops with faults := [] }).1.fs.get (bk ++ k)).map eraseMt
        = (w.fs.get (bk ++ k)).map eraseMt := by
  intro k hkne hvis
  have := N.tx_restores_after_faults (S := N.nSim bk hk dd hr) hg hinfos ops hcov k hkne
  have e1 : ∀ m : MFS, (N.nSim bk hk dd hr).view .base m k = (m.get (bk ++ k)).map eraseMt :=
    fun m => N.nview_base_vis hvis
  rw [e1, e1] at this
  exact this

/-! ### 2. crash points inside Rollback -/

/-- **(2-N, the dichotomy).**  After any covered history (run under any fault plan), start Rollback
and let the process die after `n` more primitive calls, for ANY `n`.  On the disk left behind: EITHER
every entry of the base below its root and outside the location is what it was when the transaction
began, OR the location subtree is exactly what it was when Rollback began and the base is unchanged at
every original entry that is not tracked. -/
theorem crash_in_rollback_dichotomy_nested_linkfree_partial
    (w0 : World) (hg : N.NGood bk hk dd w0.fs) (hinfos : w0.infos = []) (ops : List Op)
    (hcov : N.CoveredHist (N.nestedCfg bk hk) (N.nSim bk hk dd hr) w0 ops) (n : Nat) :
    (∀ k, k ≠ [] → ¬ hk <+: k →
      ((rollback (N.nestedCfg bk hk) (dieAfter (runOps (N.nestedCfg bk hk) w0 ops) n)).1.fs.get (bk ++ k)).map eraseMt =
        (w0.fs.get (bk ++ k)).map eraseMt) ∨
    ((∀ j, ((rollback (N.nestedCfg bk hk) (dieAfter (runOps (N.nestedCfg bk hk) w0 ops) n)).1.fs.get (bk ++ hk ++ j)).map eraseMt =
        ((runOps (N.nestedCfg bk hk) w0 ops).fs.get (bk ++ hk ++ j)).map eraseMt) ∧
     (∀ j, ¬ hk <+: j → (runOps (N.nestedCfg bk hk) w0 ops).infos.lookup (kp j) = none → w0.fs.get (bk ++ j) ≠ none →
        ((rollback (N.nestedCfg bk hk) (dieAfter (runOps (N.nestedCfg bk hk) w0 ops) n)).1.fs.get (bk ++ j)).map eraseMt =
          ((runOps (N.nestedCfg bk hk) w0 ops).fs.get (bk ++ j)).map eraseMt)) := by
  have hinv := (N.history_keeps ops w0 (N.Inv.init (S := N.nSim bk hk dd hr) hg hinfos) hcov).inv
  obtain ⟨_, h | ⟨hb, hf⟩⟩ := N.rollback_crash_dichotomy (cfg := N.nestedCfg bk hk) hinv
    (crashOnly_crashPlan ((runOps (N.nestedCfg bk hk) w0 ops).trace.length + n))
  · left
    intro k hkne hvis
    have := h k hkne
    have e1 : ∀ m : MFS, (N.nSim bk hk dd hr).view .base m k = (m.get (bk ++ k)).map eraseMt :=
      fun m => N.nview_base_vis hvis
    rw [e1, e1] at this
    exact this
  · refine Or.inr ⟨hb, ?_⟩
    intro j hvis hu hv
    have := hf j (hinv.untracked_not_in_foot hu (by
      show N.nview bk hk .base w0.fs j ≠ none
      rw [N.nview_base_vis hvis]
      intro e; exact hv (Option.map_eq_none_iff.mp e)))
    have e1 : ∀ m : MFS, (N.nSim bk hk dd hr).view .base m j = (m.get (bk ++ j)).map eraseMt :=
      fun m => N.nview_base_vis hvis
    rw [e1, e1] at this
    exact this

/-- **(2-N) originals stay recoverable at every crash point inside Rollback.** -/
theorem recoverable_at_every_crash_point_in_rollback_nested_linkfree_partial
    (w0 : World) (hg : N.NGood bk hk dd w0.fs) (hinfos : w0.infos = []) (ops : List Op)
    (hcov : N.CoveredHist (N.nestedCfg bk hk) (N.nSim bk hk dd hr) w0 ops) (n : Nat) :
    ∀ k, k ≠ [] → ¬ hk <+: k → ∀ node, w0.fs.get (bk ++ k) = some node →
      BaseShows (rollback (N.nestedCfg bk hk) (dieAfter (runOps (N.nestedCfg bk hk) w0 ops) n)).1.fs bk k node ∨
      (∃ i, (runOps (N.nestedCfg bk hk) w0 ops).infos.lookup (kp k) = some (some i) ∧ InfoFor i (eraseMt node) ∧
        BackupHoldsFile (rollback (N.nestedCfg bk hk) (dieAfter (runOps (N.nestedCfg bk hk) w0 ops) n)).1.fs (bk ++ hk) k node) := by
  intro k hkne hvis node horig
  have hinv := (N.history_keeps ops w0 (N.Inv.init (S := N.nSim bk hk dd hr) hg hinfos) hcov).inv
  rcases crash_in_rollback_dichotomy_nested_linkfree_partial bk hk dd hr w0 hg hinfos ops hcov n with
    h | ⟨hb, hf⟩
  · left
    show ((rollback (N.nestedCfg bk hk) (dieAfter (runOps (N.nestedCfg bk hk) w0 ops) n)).1.fs.get (bk ++ k)).map eraseMt = _
    rw [h k hkne hvis, horig]; rfl
  · exact entry_of_inv_nested bk hk dd hr hinv hb
      (fun j hu hv => by
        by_cases hj : hk <+: j
        · rw [N.nview_base_hid hj, N.nview_base_hid hj]
        · rw [N.nview_base_vis hj, N.nview_base_vis hj]
          exact hf j hj hu (by
            intro e
            apply hv
            rw [N.nview_base_vis hj, e]; rfl)) k hvis node horig

/-- for regular files, the disjunction of the property as it stands -/
theorem file_recoverable_at_every_crash_point_in_rollback_nested_linkfree_partial
    (w0 : World) (hg : N.NGood bk hk dd w0.fs) (hinfos : w0.infos = []) (ops : List Op)
    (hcov : N.CoveredHist (N.nestedCfg bk hk) (N.nSim bk hk dd hr) w0 ops) (n : Nat) :
    ∀ k, k ≠ [] → ¬ hk <+: k → ∀ c mt, w0.fs.get (bk ++ k) = some (.file c mt) →
      (rollback (N.nestedCfg bk hk) (dieAfter (runOps (N.nestedCfg bk hk) w0 ops) n)).1.fs.get (bk ++ k) = some (.file c mt) ∨
      ∃ mt', (rollback (N.nestedCfg bk hk) (dieAfter (runOps (N.nestedCfg bk hk) w0 ops) n)).1.fs.get (bk ++ hk ++ k) = some (.file c mt') := by
  intro k hkne hvis c mt horig
  rcases recoverable_at_every_crash_point_in_rollback_nested_linkfree_partial bk hk dd hr w0 hg hinfos
    ops hcov n k hkne hvis _ horig with h | ⟨_, _, _, h⟩
  · exact Or.inl (map_erase_file' h)
  · exact Or.inr h

/-- **(2-N, healthy filesystem until the crash) with directory copies.** -/
theorem recoverable_at_every_crash_point_in_rollback_healthy_nested_linkfree_partial
    (w0 : World) (hg : N.NGood bk hk dd w0.fs) (hinfos : w0.infos = []) (hnf : w0.faults = [])
    (hempty : ∀ k, k ≠ [] → w0.fs.get (bk ++ hk ++ k) = none) (ops : List Op)
    (hcov : N.CoveredHist (N.nestedCfg bk hk) (N.nSim bk hk dd hr) w0 ops) (n : Nat) :
    ∀ k, k ≠ [] → ¬ hk <+: k → ∀ node, w0.fs.get (bk ++ k) = some node →
      BaseShows (rollback (N.nestedCfg bk hk) (dieAfter (runOps (N.nestedCfg bk hk) w0 ops) n)).1.fs bk k node ∨
      BackupHolds (rollback (N.nestedCfg bk hk) (dieAfter (runOps (N.nestedCfg bk hk) w0 ops) n)).1.fs (bk ++ hk) k node := by
  intro k hkne hvis node horig
  have hB := (N.history_keepsB ops w0 (N.InvB.init (S := N.nSim bk hk dd hr) hg hinfos hnf (fun _ h => h)
    (fun k hk' => by
      show (w0.fs.get (bk ++ hk ++ k)).map eraseMt = none
      rw [hempty k hk']; rfl)) hcov).inv
  rcases crash_in_rollback_dichotomy_nested_linkfree_partial bk hk dd hr w0 hg hinfos ops hcov n with
    h | ⟨hb, hf⟩
  · left
    show ((rollback (N.nestedCfg bk hk) (dieAfter (runOps (N.nestedCfg bk hk) w0 ops) n)).1.fs.get (bk ++ k)).map eraseMt = _
    rw [h k hkne hvis, horig]; rfl
  · rcases entry_of_inv_nested bk hk dd hr hB.inv hb
      (fun j hu hv => by
        by_cases hj : hk <+: j
        · rw [N.nview_base_hid hj, N.nview_base_hid hj]
        · rw [N.nview_base_vis hj, N.nview_base_vis hj]
          exact hf j hj hu (by
            intro e
            apply hv
            rw [N.nview_base_vis hj, e]; rfl)) k hvis node horig with h | ⟨i, hts, hfor, hcopy⟩
    · exact Or.inl h
    · right
      cases node with
      | file c mt => exact hcopy
      | dir md =>
        have hpk : PKey k := hB.inv.v0_pkey (k := k) (by
          show N.nview bk hk .base w0.fs k ≠ none
          rw [N.nview_base_vis hvis, horig]; simp)
        obtain ⟨md', hd⟩ := hB.b.bdirs k i hpk hkne hts hfor.1
        have hd' : ((rollback (N.nestedCfg bk hk) (dieAfter (runOps (N.nestedCfg bk hk) w0 ops) n)).1.fs.get (bk ++ hk ++ k)).map eraseMt
            = some (.dir md') := (hb k).trans hd
        exact map_erase_dir' hd'
      | link t md =>
        exfalso
        exact hg.os.nolink (bk ++ k) t md (Or.inl (List.prefix_append _ _)) horig

end

/-! ### non-vacuity: the example disk of Props/C04N.lean, location `/b/d`, crash points inside Rollback -/

/-- the world after the example history (`exOpsR`: overwrite `/f`, create `/n`) in the nested layering -/
def exAfterOpsN : World := runOps (N.nestedCfg [['b']] [['d']]) { fs := exDisk } exOpsR

/-- Rollback of the example transaction, dying after `n` primitive calls -/
def exCrashRollbackN (n : Nat) : World := (rollback (N.nestedCfg [['b']] [['d']]) (dieAfter exAfterOpsN n)).1

example : N.NGood [['b']] [['d']] [['k']] exDisk ∧
    N.CoveredHist (N.nestedCfg [['b']] [['d']]) (N.nSim [['b']] [['d']] [['k']] Props.C04.nroots_example)
      { fs := exDisk } exOpsR := by
  refine ⟨⟨osGood_example, ⟨_, rfl⟩⟩, ?_, ?_, trivial⟩
  · show isAbs _ = true; decide
  · show isAbs _ = true; decide

/-- crash point in the middle of `restoreFile` (after the truncating `OpenFile`, before the write): the
base file is empty — the second disjunct holds: the location still has "hello" -/
example : crashed (dieAfter exAfterOpsN 8) = false ∧ crashed (exCrashRollbackN 8) = true ∧
    contentAt exDisk [['b'], ['f']] = some "hello" ∧
    contentAt (exCrashRollbackN 8).fs [['b'], ['f']] = some "" ∧
    contentAt (exCrashRollbackN 8).fs [['b'], ['d'], ['f']] = some "hello" ∧
    (exCrashRollbackN 8).fs.get [['b'], ['n']] = none := by
  decide +kernel

/-- crash point in the clean-up loops: the base is completely restored whether or not the copy is
still in the location; and a crash plan that never fires -/
example : crashed (dieAfter exAfterOpsN 16) = false ∧ crashed (exCrashRollbackN 16) = true ∧
    (exCrashRollbackN 16).fs.get [['b'], ['f']] = exDisk.get [['b'], ['f']] ∧
    (exCrashRollbackN 16).fs.get [['b'], ['n']] = none ∧
    ((exCrashRollbackN 16).fs.get [['b'], ['d'], ['f']]).isSome = true ∧
    crashed (exCrashRollbackN 17) = true ∧
    (exCrashRollbackN 17).fs.get [['b'], ['f']] = exDisk.get [['b'], ['f']] ∧
    (exCrashRollbackN 17).fs.get [['b'], ['d'], ['f']] = none ∧
    crashed (exCrashRollbackN 18) = false := by
  decide +kernel

end Props.C02
