import Lemmas
/-!
# C06 — HiddenFS makes hidden paths inaccessible (lexical part)

`HiddenFS.translate hs c` is the single base call a HiddenFS method issues, or its refusal
(`RemoveAll` proceeds to a multi-call program only after the same guard).  `hs` is any list of
hidden paths (nested, several, file or directory: the test is purely lexical, so the outcome
cannot depend on whether the hidden entry exists).
The "by any route, including through symlinks" clause needs the OS model; see `no_route_partial`
in this file's history section (DESIGN.md C06) and the known finding K-hidden-symlink-route.
-/
namespace Props.C06
open BFS BFS.HiddenFS

/-- T06.1 containment is detected for every spelling: a name whose cleaned form is a hidden
path or lies below one is reported hidden — or the check itself fails (`filepath.Rel` cannot
relate a rooted and an unrooted path); it is never reported visible. -/
theorem isHidden_complete (hs : List Path) (name : Path) (h : ∃ hp ∈ hs, Within hp name) :
    isHidden name hs = .ok true ∨ isHidden name hs = .error .hiddenCheck :=
  isHidden_of_within h

theorem isHidden_complete_comparable (hs : List Path) (name : Path)
    (h : ∃ hp ∈ hs, Within hp name) (hc : Comparable hs name) : isHidden name hs = .ok true :=
  isHidden_of_within_comparable h hc

/-- T06.2 (safety, all 16 methods at once) Whenever a HiddenFS method delegates to its base, none
of the names it was given — both names of `Rename`, the link location and the lexical effective
target of `Symlink` — is a hidden path or below one. Contrapositive: a hidden name is never
delegated, whatever the method. -/
theorem hidden_never_delegated (hs : List Path) (c c' : Call) (h : translate hs c = .ok c') :
    ∀ n ∈ guardedNames c, ∀ hp ∈ hs, ¬ Within hp n := by
  have key : ∀ (n : Path) (e : Err), hguard hs n e = .ok () → ∀ hp ∈ hs, ¬ Within hp n :=
    fun n e hg => isHidden_false (hguard_ok hg)
  cases c <;> simp only [translate, bind, Except.bind, pure, Except.pure] at h
  all_goals first
    | (split at h
       · cases h
       · rename_i u hu
         intro n hn
         simp only [guardedNames, Call.accessPaths, List.mem_singleton] at hn
         subst hn
         exact key _ _ hu)
    | skip
  · -- rename
    rename_i o n
    cases h1 : hguard hs o .hiddenNotExist with
    | error e => rw [h1] at h; cases h
    | ok u1 =>
      rw [h1] at h
      simp only at h
      split at h
      · cases h
      · cases h
      · cases h2 : hguard hs n .hiddenPerm with
        | error e => rw [h2] at h; cases h
        | ok u2 =>
          intro m hm
          simp only [guardedNames, List.mem_cons, List.not_mem_nil, or_false] at hm
          rcases hm with rfl | rfl
          · exact key _ _ h1
          · exact key _ _ h2
  · -- symlink
    rename_i o n
    cases h1 : hguard hs (if isAbs o = true then o else join (dir (clean n)) o) .hiddenPerm with
    | error e => rw [h1] at h; cases h
    | ok u1 =>
      rw [h1] at h
      simp only at h
      cases h2 : hguard hs n .hiddenPerm with
      | error e => rw [h2] at h; cases h
      | ok u2 =>
        intro m hm
        simp only [guardedNames, List.mem_cons, List.not_mem_nil, or_false] at hm
        rcases hm with rfl | rfl
        · exact key _ _ h1
        · exact key _ _ h2

/-- the error class the property prescribes for a hidden name, per method -/
def refusal : Call → Err
  | .create _ | .mkdir _ _ | .mkdirAll _ _ | .symlink _ _ => .hiddenPerm
  | .openFile _ f _ => if hasFlag f O_CREATE then .hiddenPerm else .hiddenNotExist
  | _ => .hiddenNotExist

/-- T06.2b (class table, single-name methods) A hidden name is refused with `os.ErrNotExist` for
access, removal and metadata operations and with `os.ErrPermission` for creating ones.  No base
call is issued, so the outcome is the same whether or not the hidden entry exists. -/
theorem hidden_refused (hs : List Path) (c : Call) (n : Path)
    (hsingle : c.accessPaths = [n]) (hnotsym : ∀ o n', c ≠ .symlink o n')
    (hh : isHidden n hs = .ok true) : translate hs c = .error (refusal c) := by
  cases c <;> simp only [Call.accessPaths, List.cons.injEq, and_true] at hsingle
  all_goals try subst hsingle
  all_goals try (simp only [translate, refusal, bind, Except.bind, hguard_of_hidden _ hh]; done)
  · simp at hsingle
  · exact absurd rfl (hnotsym _ _)

/-- `Rename`: a hidden old name does not exist; a hidden new name may not be created. -/
theorem rename_refused (hs : List Path) (o n : Path) :
    (isHidden o hs = .ok true → translate hs (.rename o n) = .error .hiddenNotExist) ∧
    (isHidden o hs = .ok false → isParentOfHidden o hs = .ok false → isHidden n hs = .ok true →
      translate hs (.rename o n) = .error .hiddenPerm) := by
  constructor
  · intro h
    simp only [translate, bind, Except.bind, hguard_of_hidden _ h]
  · intro h1 h2 h3
    simp only [translate, bind, Except.bind, hguard_of_visible _ h1, h2, hguard_of_hidden _ h3]

/-- T06.3 `Symlink`: a link whose lexical effective target is hidden, or that is located at a
hidden path, cannot be created. -/
theorem symlink_refused (hs : List Path) (o n : Path) :
    (isHidden (if isAbs o then o else join (dir (clean n)) o) hs = .ok true →
      translate hs (.symlink o n) = .error .hiddenPerm) ∧
    (isHidden (if isAbs o then o else join (dir (clean n)) o) hs = .ok false → isHidden n hs = .ok true →
      translate hs (.symlink o n) = .error .hiddenPerm) := by
  constructor
  · intro h
    simp only [translate, bind, Except.bind, hguard_of_hidden _ h]
  · intro h1 h2
    simp only [translate, bind, Except.bind, hguard_of_visible _ h1, hguard_of_hidden _ h2]

/-- T06.4 every refusal is one of the hidden classes or a failed check: nothing else can be
reported without a base call -/
theorem refusal_classes (hs : List Path) (c : Call) (e : Err) (h : translate hs c = .error e) :
    e = .hiddenNotExist ∨ e = .hiddenPerm ∨ e = .hiddenCheck ∨ e = .parentCheck := by
  have key : ∀ (n : Path) (w : Err) (e : Err), hguard hs n w = .error e →
      (w = .hiddenNotExist ∨ w = .hiddenPerm) →
      e = .hiddenNotExist ∨ e = .hiddenPerm ∨ e = .hiddenCheck ∨ e = .parentCheck := by
    intro n w e hg hw
    unfold hguard at hg
    cases hh : isHidden n hs with
    | error e' =>
      rw [hh] at hg; cases hg
      unfold isHidden at hh
      split at hh
      · cases hh
      · exact Or.inr (Or.inr (Or.inl (isHiddenLoop_error hh).1))
    | ok b =>
      rw [hh] at hg
      cases b with
      | true => cases hg; rcases hw with rfl | rfl <;> simp
      | false => cases hg
  have parentKey : ∀ (n : Path) (e : Err), isParentOfHidden n hs = .error e → e = .parentCheck :=
    fun n e hp => isParentOfHidden_error hp
  cases c <;> simp only [translate, bind, Except.bind, pure, Except.pure] at h
  all_goals first
    | (split at h
       · rename_i e' he; cases h; exact key _ _ _ he (by first | exact Or.inl rfl | exact Or.inr rfl | (split <;> simp))
       · cases h)
    | skip
  · rename_i o n
    cases h1 : hguard hs o .hiddenNotExist with
    | error e' => rw [h1] at h; cases h; exact key _ _ _ h1 (Or.inl rfl)
    | ok u =>
      rw [h1] at h
      simp only at h
      split at h
      · rename_i e' hp; cases h; exact Or.inr (Or.inr (Or.inr (parentKey _ _ hp)))
      · cases h; simp
      · cases h2 : hguard hs n .hiddenPerm with
        | error e' => rw [h2] at h; cases h; exact key _ _ _ h2 (Or.inr rfl)
        | ok u2 =>
          rw [h2] at h
          simp only at h
          split at h
          · rename_i e' hp; cases h; exact Or.inr (Or.inr (Or.inr (parentKey _ _ hp)))
          · cases h; simp
          · cases h
  · rename_i o n
    cases h1 : hguard hs (if isAbs o = true then o else join (dir (clean n)) o) .hiddenPerm with
    | error e' => rw [h1] at h; cases h; exact key _ _ _ h1 (Or.inr rfl)
    | ok u =>
      rw [h1] at h
      simp only at h
      cases h2 : hguard hs n .hiddenPerm with
      | error e' => rw [h2] at h; cases h; exact key _ _ _ h2 (Or.inr rfl)
      | ok u2 => rw [h2] at h; cases h

/-! ## non-vacuity -/
example : isHidden "/var/opt/backups/../backups/x".toList (mk ["/var/opt/backups/".toList]) = .ok true := by decide
example : isHidden "/var/opt/backups2".toList (mk ["/var/opt/backups".toList]) = .ok false := by decide
example : translate (mk ["/bak".toList]) (.create "/bak/x".toList) = .error .hiddenPerm := by decide
example : translate (mk ["/bak".toList]) (.stat "//bak/".toList) = .error .hiddenNotExist := by decide
example : translate (mk ["/bak".toList]) (.symlink "../bak/x".toList "/d/l".toList) = .error .hiddenPerm := by decide
example : Comparable (mk ["/bak".toList, "/a/b".toList]) "/x/y".toList := by decide

end Props.C06
