import Lemmas.NLTx
import Lemmas.NLSimOS
/-!
# C04 / C01 — Rollback restores the base in the nested (README) layering, trees with symlinks as leaves

`N.nestedCfg bk hk = NewWithFS (PrefixFS (kp bk) osfs) (kp hk)`: base = `HiddenFS [kp hk]` over
`PrefixFS (kp bk)` over the OS, backup = `PrefixFS (kp hk)` over the same `PrefixFS (kp bk)`; one disk,
the backup directory `bk ++ hk` lies *inside* the base tree and is masked by `HiddenFS`.

Main theorem (`rollback_restores_nested_symlink_leaves_partial`): for every well-formed disk
(`L.OSGoodL`: symlinks with any target text may sit anywhere as leaves) in which `bk ++ hk` is an
existing directory, any number of consecutive transactions, in each every finite history of covered
operations, after Rollback every **visible** entry of the base below its root — every key `k ≠ []`
that is not at or below `hk` — is what it was before the first operation: same set of paths, types,
contents, permission bits, owners, file modification times; a symlink is a symlink with the same target
text *as `Readlink` through the base reports it* and the same owner (`L.eraseV (kp bk)`, exactly the
comparison of `Props.C01L.rollback_restores_symlink_leaves_partial`).

"Covered" is `NL.Op.Covered` (Lemmas/NLOps.lean) — the predicate of `Props.C01L` verbatim, judged
against the *visible* base view `NL.nlview bk hk .base` and with the admission predicate of the
nested base:
* names are absolute, any spelling; no proper ancestor of the cleaned name is a symlink in the current
  base view; operations that follow a final symlink are not applied to a symlink;
* `Symlink(old, new)` (ANY target text `old`: one that the sealing layer refuses makes the call a
  no-op), and a `Rename` whose source is a symlink, only when no tracked key lies strictly below the new
  path; Rename's source is not a non-empty directory; Remove/RemoveAll not on the root; no ForceBackup;
* an operation that is going to BACK UP a symlink (its path — for `Rename` either path, for `RemoveAll`
  any entry at or below the path — currently is a symlink `k -> t`) requires `NL.NLLinkOK bk hk dd .base
  k t`: BOTH layers of the base admit re-creating it — the inner `PrefixFS (kp bk)` (the target is
  absolute, or relative and does not climb out of the base root: K-escaping-link) AND the sealing
  `HiddenFS` (the target — absolute, or relative joined to the link's directory — does not lexically
  lead into the backup location).  The second clause is forced:
  `link_into_location_backed_up_but_not_restored` below.
Names at or below the hidden location, `RemoveAll`/`Rename` of an ancestor of the location included
(every such call is refused or spares the location; the theorem needs no clause for them).

Start condition on the backup location (`hbl`): every symlink below `bk ++ hk` sits at a key where the
visible base holds a symlink too; in particular it holds when the location holds no symlink, e.g. is
empty (`rollback_restores_nested_symlink_leaves_clean_backup_partial`, `…_empty_backup_partial`).
Rollback re-establishes it.

The proof is `Props.C01L`'s replayed over the contract `NL.Sim` = `L.LSim` + the hidden-key clauses of
`N.Sim` (Lemmas/NLSim.lean; Lemmas/NLChg…NLTx.lean), and an instance of that contract for the nested
layering (`NL.nlSim`, Lemmas/NLSimOS*.lean) obtained from the laws of the inner `PrefixFS (kp bk) osfs`
for disks with symlinks as leaves, the shape of the calls through the two layers, and the safety of
`HiddenFS.RemoveAll` over such disks (Lemmas/NLHidRA.lean).  The auxiliary key `dd` names any *other*
directory of the disk outside the base root (as in `Props/C04N.lean`).
-/
namespace Props.C04
open BFS BFS.BackupFS

/-- the visible base view is the disk below `bk`, read as in `Props.C01L` -/
theorem nlview_base_visible {bk hk : Key} {m : MFS} {k : Key} (hv : ¬ hk <+: k) :
    NL.nlview bk hk .base m k = (m.get (bk ++ k)).map (L.eraseV (kp bk)) := by
  simp [NL.nlview, hv]

theorem isLinkAt_nlview_backup {bk hk : Key} {m : MFS} {k : Key} :
    NL.isLinkAt (NL.nlview bk hk .backup m) k ↔ ∃ t mt, m.get (bk ++ (hk ++ k)) = some (.link t mt) := by
  constructor
  · intro hl
    obtain ⟨_, hl'⟩ := NL.nl_isLinkAt (dd := bk) (s := .backup) hl
    exact L.osViewL_isLinkAt (bk := bk) (kk := bk) (s := .base) hl'
  · rintro ⟨t, mt, h⟩
    exact NL.nl_isLinkAt_of (dd := bk) (s := .backup) id
      (L.osViewL_isLinkAt_of (bk := bk) (kk := bk) (s := .base) h)

theorem isLinkAt_nlview_base {bk hk : Key} {m : MFS} {k : Key} :
    NL.isLinkAt (NL.nlview bk hk .base m) k ↔ ¬ hk <+: k ∧ ∃ t mt, m.get (bk ++ k) = some (.link t mt) := by
  constructor
  · intro hl
    obtain ⟨hv, hl'⟩ := NL.nl_isLinkAt (dd := bk) (s := .base) hl
    exact ⟨hv, L.osViewL_isLinkAt (bk := bk) (kk := bk) (s := .base) hl'⟩
  · rintro ⟨hv, t, mt, h⟩
    exact NL.nl_isLinkAt_of (dd := bk) (s := .base) hv
      (L.osViewL_isLinkAt_of (bk := bk) (kk := bk) (s := .base) h)

/-- the `HiddenFS` half of the admission predicate, lexically: the effective target (absolute, or
relative joined to the link's directory) names — after cleaning — a key that is not at or below the
location.  (Every absolute text cleans to `kp j` for some key `j`: `clean_abs`.) -/
theorem nlLinkOK_base_of_lexical {bk hk dd : Key} (hr : N.NRoots bk hk dd) {k j : Key} {t : Path}
    (hk' : ¬ hk <+: k) (hj : PKey j)
    (he : clean (if isAbs t then t else join (dir (kp k)) t) = kp j) (hvis : ¬ hk <+: j)
    (hp : L.osLinkOK bk dd .base k t) : NL.NLLinkOK bk hk dd .base k t := by
  refine ⟨hk', ?_, hp⟩
  have h1 := N.isHidden_vis hr hj hvis
  unfold HiddenFS.isHidden at h1 ⊢
  rw [he]
  rw [clean_kp hj] at h1
  exact h1

/-- the start condition of a transaction, on the disk -/
def BackupLinksBelowBase (bk hk : Key) (m : MFS) : Prop :=
  ∀ k, (∃ t mt, m.get (bk ++ (hk ++ k)) = some (.link t mt)) →
    ¬ hk <+: k ∧ ∃ t mt, m.get (bk ++ k) = some (.link t mt)

theorem backupLinksOK_of {bk hk dd : Key} {hr : N.NRoots bk hk dd} {m : MFS} (h : BackupLinksBelowBase bk hk m) :
    NL.BackupLinksOK (NL.nlSim bk hk dd hr) m :=
  fun k hl => isLinkAt_nlview_base.mpr (h k (isLinkAt_nlview_backup.mp hl))

/-- T04.NL (= T01L.main for the nested layering)  Rollback restores every visible entry of the base —
trees with symlinks as leaves that the transaction never traverses, the `Symlink` operation included,
any number of transactions, backup directory nested inside the base and masked by HiddenFS (see the
header for what "covered" excludes; `dd` is any other directory of the disk). -/
theorem rollback_restores_nested_symlink_leaves_partial (bk hk dd : Key) (hr : N.NRoots bk hk dd)
    (w : World) (hg : L.OSGoodL bk dd w.fs) (hloc : ∃ mt, w.fs.get (bk ++ hk) = some (.dir mt))
    (hinfos : w.infos = []) (hnf : w.faults = [])
    (hbl : BackupLinksBelowBase bk hk w.fs)
    (txs : List (List Op))
    (hcov : NL.CoveredTxs (N.nestedCfg bk hk) (NL.nlSim bk hk dd hr) w txs) :
    ∀ k, k ≠ [] → ¬ hk <+: k →
      ((txs.foldl (runTx (N.nestedCfg bk hk)) w).fs.get (bk ++ k)).map (L.eraseV (kp bk)) =
        (w.fs.get (bk ++ k)).map (L.eraseV (kp bk)) := by
  intro k hk' hvis
  have := NL.txs_restore (S := NL.nlSim bk hk dd hr) txs w ⟨hg, hloc⟩ hinfos hnf (backupLinksOK_of hbl) hcov k hk'
  have e1 : ∀ m : MFS, (NL.nlSim bk hk dd hr).view .base m k = (m.get (bk ++ k)).map (L.eraseV (kp bk)) :=
    fun m => nlview_base_visible hvis
  rw [e1, e1] at this
  exact this

/-- the same when the backup location holds no symlink at the start -/
theorem rollback_restores_nested_symlink_leaves_clean_backup_partial (bk hk dd : Key) (hr : N.NRoots bk hk dd)
    (w : World) (hg : L.OSGoodL bk dd w.fs) (hloc : ∃ mt, w.fs.get (bk ++ hk) = some (.dir mt))
    (hinfos : w.infos = []) (hnf : w.faults = [])
    (hbl : ∀ k t mt, w.fs.get (bk ++ (hk ++ k)) ≠ some (.link t mt))
    (txs : List (List Op))
    (hcov : NL.CoveredTxs (N.nestedCfg bk hk) (NL.nlSim bk hk dd hr) w txs) :
    ∀ k, k ≠ [] → ¬ hk <+: k →
      ((txs.foldl (runTx (N.nestedCfg bk hk)) w).fs.get (bk ++ k)).map (L.eraseV (kp bk)) =
        (w.fs.get (bk ++ k)).map (L.eraseV (kp bk)) :=
  rollback_restores_nested_symlink_leaves_partial bk hk dd hr w hg hloc hinfos hnf
    (fun k ⟨t, mt, h⟩ => absurd h (hbl k t mt)) txs hcov

/-- … in particular when the backup location starts as an EMPTY directory (the README situation) -/
theorem rollback_restores_nested_symlink_leaves_empty_backup_partial (bk hk dd : Key) (hr : N.NRoots bk hk dd)
    (w : World) (hg : L.OSGoodL bk dd w.fs) (hloc : ∃ mt, w.fs.get (bk ++ hk) = some (.dir mt))
    (hinfos : w.infos = []) (hnf : w.faults = [])
    (hempty : ∀ k, k ≠ [] → w.fs.get (bk ++ (hk ++ k)) = none)
    (txs : List (List Op))
    (hcov : NL.CoveredTxs (N.nestedCfg bk hk) (NL.nlSim bk hk dd hr) w txs) :
    ∀ k, k ≠ [] → ¬ hk <+: k →
      ((txs.foldl (runTx (N.nestedCfg bk hk)) w).fs.get (bk ++ k)).map (L.eraseV (kp bk)) =
        (w.fs.get (bk ++ k)).map (L.eraseV (kp bk)) := by
  refine rollback_restores_nested_symlink_leaves_clean_backup_partial bk hk dd hr w hg hloc hinfos hnf ?_ txs hcov
  intro k t mt h
  by_cases e : k = []
  · subst e
    obtain ⟨mt', hd⟩ := hloc
    rw [List.append_nil, hd] at h
    cases h
  · rw [hempty k e] at h; cases h

/-- T04.NL' the backup location survives and the start condition holds again: after a transaction the
disk is well-formed, `bk ++ hk` is still a directory, nothing is tracked, no fault is pending and every
symlink below the location sits where the visible base has one. -/
theorem nested_wellformed_after_symlink_leaves (bk hk dd : Key) (hr : N.NRoots bk hk dd)
    (w : World) (hg : NL.NLGood bk hk dd w.fs) (hinfos : w.infos = []) (hnf : w.faults = [])
    (hbl : BackupLinksBelowBase bk hk w.fs)
    (ops : List Op) (hcov : NL.CoveredHist (N.nestedCfg bk hk) (NL.nlSim bk hk dd hr) w ops) :
    NL.NLGood bk hk dd (runTx (N.nestedCfg bk hk) w ops).fs ∧ (runTx (N.nestedCfg bk hk) w ops).infos = [] ∧
      BackupLinksBelowBase bk hk (runTx (N.nestedCfg bk hk) w ops).fs := by
  obtain ⟨g, i, _, b, _⟩ := NL.tx_restores (S := NL.nlSim bk hk dd hr) hg hinfos hnf (backupLinksOK_of hbl) ops hcov
  refine ⟨g, i, ?_⟩
  intro k hl
  exact isLinkAt_nlview_base.mp (b k (isLinkAt_nlview_backup.mpr hl))

/-- T04.NL'' after any covered history — whatever failed, whatever the fault plan — the transaction
invariant (`NL.Inv`) holds in the nested layering. -/
theorem nested_invariant_after_history_symlink_leaves (bk hk dd : Key) (hr : N.NRoots bk hk dd)
    (w : World) (hg : NL.NLGood bk hk dd w.fs) (hinfos : w.infos = [])
    (hbl : BackupLinksBelowBase bk hk w.fs) (ops : List Op)
    (hcov : NL.CoveredHist (N.nestedCfg bk hk) (NL.nlSim bk hk dd hr) w ops) :
    NL.Inv (NL.nlSim bk hk dd hr) (NL.nlview bk hk .base w.fs) (runOps (N.nestedCfg bk hk) w ops) :=
  (NL.history_keeps ops w (NL.Inv.init (S := NL.nlSim bk hk dd hr) hg hinfos (backupLinksOK_of hbl)) hcov).inv

/-- T04.NL''' whatever the fault plan did to the operations of a covered history, once the filesystems
are healthy again Rollback restores the visible base. -/
theorem later_rollback_still_restores_nested_symlink_leaves_partial (bk hk dd : Key) (hr : N.NRoots bk hk dd)
    (w : World) (hg : NL.NLGood bk hk dd w.fs) (hinfos : w.infos = [])
    (hbl : BackupLinksBelowBase bk hk w.fs) (ops : List Op)
    (hcov : NL.CoveredHist (N.nestedCfg bk hk) (NL.nlSim bk hk dd hr) w ops) :
    ∀ k, k ≠ [] → ¬ hk <+: k →
      ((rollback (N.nestedCfg bk hk) { runOps (N.nestedCfg bk hk) w ops with faults := [] }).1.fs.get (bk ++ k)).map
          (L.eraseV (kp bk)) =
        (w.fs.get (bk ++ k)).map (L.eraseV (kp bk)) := by
  intro k hk' hvis
  have := NL.tx_restores_after_faults (S := NL.nlSim bk hk dd hr) hg hinfos (backupLinksOK_of hbl) ops hcov k hk'
  have e1 : ∀ m : MFS, (NL.nlSim bk hk dd hr).view .base m k = (m.get (bk ++ k)).map (L.eraseV (kp bk)) :=
    fun m => nlview_base_visible hvis
  rw [e1, e1] at this
  exact this

/-! ## The new finding as a checked fact -/

/-- `/b` (base root) holds the directory `/b/d` — the backup location, hidden name `/d`, empty — and the
symlink `/b/l -> t`; `/k` is another directory -/
def intoDisk (t : Path) : MFS where
  get := fun k =>
    if k = [] then some (.dir exMeta)
    else if k = [['b']] then some (.dir exMeta)
    else if k = [['k']] then some (.dir exMeta)
    else if k = [['b'], ['d']] then some (.dir exMeta)
    else if k = [['b'], ['l']] then some (.link t { exMeta with mode := 0o777 })
    else none
  dom := [[], [['b']], [['k']], [['b'], ['d']], [['b'], ['l']]]
  umask := 0o022

theorem intoDisk_live {t : Path} {k : Key} {n : Node} (h : (intoDisk t).get k = some n) :
    (k = [] ∧ n = .dir exMeta) ∨ (k = [['b']] ∧ n = .dir exMeta) ∨ (k = [['k']] ∧ n = .dir exMeta) ∨
    (k = [['b'], ['d']] ∧ n = .dir exMeta) ∨ (k = [['b'], ['l']] ∧ n = .link t { exMeta with mode := 0o777 }) := by
  simp only [intoDisk] at h
  split at h
  · cases h; exact Or.inl ⟨‹_›, rfl⟩
  split at h
  · cases h; exact Or.inr (Or.inl ⟨‹_›, rfl⟩)
  split at h
  · cases h; exact Or.inr (Or.inr (Or.inl ⟨‹_›, rfl⟩))
  split at h
  · cases h; exact Or.inr (Or.inr (Or.inr (Or.inl ⟨‹_›, rfl⟩)))
  split at h
  · cases h; exact Or.inr (Or.inr (Or.inr (Or.inr ⟨‹_›, rfl⟩)))
  · cases h

/-- the disk of the witness is well-formed, whatever the target text -/
theorem intoDisk_good (t : Path) : L.OSGoodL [['b']] [['k']] (intoDisk t) := by
  refine ⟨⟨_, rfl⟩, ?_, ?_, ?_, ?_, ⟨_, rfl⟩, ⟨_, rfl⟩⟩
  · intro k n h
    rcases intoDisk_live h with ⟨rfl, _⟩ | ⟨rfl, _⟩ | ⟨rfl, _⟩ | ⟨rfl, _⟩ | ⟨rfl, _⟩ <;> decide
  · intro k n h
    rcases intoDisk_live h with ⟨rfl, _⟩ | ⟨rfl, _⟩ | ⟨rfl, _⟩ | ⟨rfl, _⟩ | ⟨rfl, _⟩ <;> simp [intoDisk]
  · intro k n h
    rcases intoDisk_live h with ⟨_, rfl⟩ | ⟨_, rfl⟩ | ⟨_, rfl⟩ | ⟨_, rfl⟩ | ⟨_, rfl⟩ <;>
      first | decide | (show (0o777 : Nat) < 4096; decide)
  · intro k n h hne
    rcases intoDisk_live h with ⟨rfl, _⟩ | ⟨rfl, _⟩ | ⟨rfl, _⟩ | ⟨rfl, _⟩ | ⟨rfl, _⟩
    · exact absurd rfl hne
    all_goals exact ⟨_, rfl⟩

set_option maxRecDepth 100000 in
/-- NEW FINDING (nested layering): a pre-existing symlink whose RELATIVE target, taken from its directory,
leads INTO the backup location is backed up but cannot be restored.  Base root `/b`, location `/b/d`
(empty), `/b/l -> "d/x"`.  `Remove("/l")` backs the link up — the backup `PrefixFS("/d")` over
`PrefixFS("/b")` ACCEPTS `Symlink("d/x", "/l")`: the copy `/b/d/l -> "d/x"` appears — and removes
`/b/l`.  Rollback then calls `base.Symlink("d/x", "/l")`, which the sealing `HiddenFS` REFUSES because
`/d/x` lies in the hidden location: Rollback reports an error, `/b/l` stays absent, and the clean-up half
deletes the backup copy too — the link is lost.  The history violates exactly one clause of
`NL.Op.Covered`: the `HiddenFS` half of `NLLinkOK .base` for the link that is backed up (the `PrefixFS`
half holds, and the backup side admits the copy). -/
theorem link_into_location_backed_up_but_not_restored :
    let cfg := N.nestedCfg [['b']] [['d']]
    let w0 : World := { fs := intoDisk "d/x".toList }
    let w1 := runOps cfg w0 [.remove "/l".toList]
    let r := rollback cfg w1
    L.OSGoodL [['b']] [['k']] w0.fs ∧ (∀ k, k ≠ [] → w0.fs.get ([['b']] ++ ([['d']] ++ k)) = none) ∧
    (w0.fs.get [['b'], ['l']]).isSome = true ∧
    w1.fs.get [['b'], ['l']] = none ∧
    w1.fs.get [['b'], ['d'], ['l']] = some (.link "d/x".toList { mode := 0o777, uid := 0, gid := 0, mtime := .fresh }) ∧
    r.2 = .ok true ∧ r.1.fs.get [['b'], ['l']] = none ∧ r.1.fs.get [['b'], ['d'], ['l']] = none ∧
    L.osLinkOK [['b']] [['k']] .base [['l']] "d/x".toList ∧
    NL.NLLinkOK [['b']] [['d']] [['k']] .backup [['l']] "d/x".toList ∧
    ¬ NL.NLLinkOK [['b']] [['d']] [['k']] .base [['l']] "d/x".toList := by
  refine ⟨intoDisk_good _, ?_, by decide +kernel, by decide +kernel, by decide +kernel, by decide +kernel,
    by decide +kernel, by decide +kernel, Or.inr (by decide +kernel),
    ⟨Or.inr (by decide +kernel), Or.inr (by decide +kernel)⟩, ?_⟩
  · intro k hk
    cases hg : (intoDisk "d/x".toList).get ([['b']] ++ ([['d']] ++ k)) with
    | none => rfl
    | some n =>
      exfalso
      rcases intoDisk_live hg with ⟨e, _⟩ | ⟨e, _⟩ | ⟨e, _⟩ | ⟨e, _⟩ | ⟨e, _⟩
      · cases e
      · simp at e
      · simp at e
      · simp at e; exact hk e
      · simp at e
  · rintro ⟨_, h, _⟩
    exact absurd h (by decide +kernel)

set_option maxRecDepth 100000 in
/-- the same with an ABSOLUTE stored target `/b/l -> "/b/d/x"` (reported through the base as `"/d/x"`):
backed up as `/b/d/l -> "/b/d/d/x"` (both `PrefixFS` layers re-root it), refused by `HiddenFS` at
Rollback, lost. -/
theorem abs_link_into_location_backed_up_but_not_restored :
    let cfg := N.nestedCfg [['b']] [['d']]
    let w0 : World := { fs := intoDisk "/b/d/x".toList }
    let w1 := runOps cfg w0 [.remove "/l".toList]
    let r := rollback cfg w1
    ((cfg.side .base).call w0.fs (.readlink "/l".toList)).2 = .ok (.str "/d/x".toList) ∧
    w1.fs.get [['b'], ['l']] = none ∧
    w1.fs.get [['b'], ['d'], ['l']] = some (.link "/b/d/d/x".toList { mode := 0o777, uid := 0, gid := 0, mtime := .fresh }) ∧
    r.2 = .ok true ∧ r.1.fs.get [['b'], ['l']] = none ∧ r.1.fs.get [['b'], ['d'], ['l']] = none ∧
    ¬ NL.NLLinkOK [['b']] [['d']] [['k']] .base [['l']] "/d/x".toList := by
  refine ⟨by decide +kernel, by decide +kernel, by decide +kernel, by decide +kernel, by decide +kernel,
    by decide +kernel, ?_⟩
  rintro ⟨_, h, _⟩
  exact absurd h (by decide +kernel)

/-! ## Non-vacuity -/

/-- the README layout: `/b` (base root) with a file `/b/f`, the EMPTY directory `/b/d` — the backup
location, hidden name `/d` —, a directory `/b/e`, a file link `/b/l -> "f"` and a directory link
`/b/m -> "e"`; `/k` is another directory of the disk -/
def exDiskNL : MFS where
  get := fun k =>
    if k = [] then some (.dir exMeta)
    else if k = [['b']] then some (.dir exMeta)
    else if k = [['k']] then some (.dir exMeta)
    else if k = [['b'], ['f']] then some (.file "hello" { exMeta with mode := 0o644 })
    else if k = [['b'], ['d']] then some (.dir exMeta)
    else if k = [['b'], ['e']] then some (.dir exMeta)
    else if k = [['b'], ['l']] then some (.link ['f'] { exMeta with mode := 0o777 })
    else if k = [['b'], ['m']] then some (.link ['e'] { exMeta with mode := 0o777 })
    else none
  dom := [[], [['b']], [['k']], [['b'], ['f']], [['b'], ['d']], [['b'], ['e']], [['b'], ['l']], [['b'], ['m']]]
  umask := 0o022

theorem exDiskNL_live {k : Key} {n : Node} (h : exDiskNL.get k = some n) :
    (k = [] ∧ n = .dir exMeta) ∨ (k = [['b']] ∧ n = .dir exMeta) ∨ (k = [['k']] ∧ n = .dir exMeta) ∨
    (k = [['b'], ['f']] ∧ n = .file "hello" { exMeta with mode := 0o644 }) ∨ (k = [['b'], ['d']] ∧ n = .dir exMeta) ∨
    (k = [['b'], ['e']] ∧ n = .dir exMeta) ∨
    (k = [['b'], ['l']] ∧ n = .link ['f'] { exMeta with mode := 0o777 }) ∨
    (k = [['b'], ['m']] ∧ n = .link ['e'] { exMeta with mode := 0o777 }) := by
  simp only [exDiskNL] at h
  split at h
  · cases h; exact Or.inl ⟨‹_›, rfl⟩
  split at h
  · cases h; exact Or.inr (Or.inl ⟨‹_›, rfl⟩)
  split at h
  · cases h; exact Or.inr (Or.inr (Or.inl ⟨‹_›, rfl⟩))
  split at h
  · cases h; exact Or.inr (Or.inr (Or.inr (Or.inl ⟨‹_›, rfl⟩)))
  split at h
  · cases h; exact Or.inr (Or.inr (Or.inr (Or.inr (Or.inl ⟨‹_›, rfl⟩))))
  split at h
  · cases h; exact Or.inr (Or.inr (Or.inr (Or.inr (Or.inr (Or.inl ⟨‹_›, rfl⟩)))))
  split at h
  · cases h; exact Or.inr (Or.inr (Or.inr (Or.inr (Or.inr (Or.inr (Or.inl ⟨‹_›, rfl⟩))))))
  split at h
  · cases h; exact Or.inr (Or.inr (Or.inr (Or.inr (Or.inr (Or.inr (Or.inr ⟨‹_›, rfl⟩))))))
  · cases h

theorem osGoodL_exDiskNL : L.OSGoodL [['b']] [['k']] exDiskNL := by
  refine ⟨⟨_, rfl⟩, ?_, ?_, ?_, ?_, ⟨_, rfl⟩, ⟨_, rfl⟩⟩
  · intro k n h
    rcases exDiskNL_live h with ⟨rfl, _⟩ | ⟨rfl, _⟩ | ⟨rfl, _⟩ | ⟨rfl, _⟩ | ⟨rfl, _⟩ | ⟨rfl, _⟩ | ⟨rfl, _⟩ | ⟨rfl, _⟩ <;> decide
  · intro k n h
    rcases exDiskNL_live h with ⟨rfl, _⟩ | ⟨rfl, _⟩ | ⟨rfl, _⟩ | ⟨rfl, _⟩ | ⟨rfl, _⟩ | ⟨rfl, _⟩ | ⟨rfl, _⟩ | ⟨rfl, _⟩ <;> decide
  · intro k n h
    rcases exDiskNL_live h with ⟨_, rfl⟩ | ⟨_, rfl⟩ | ⟨_, rfl⟩ | ⟨_, rfl⟩ | ⟨_, rfl⟩ | ⟨_, rfl⟩ | ⟨_, rfl⟩ | ⟨_, rfl⟩ <;> decide
  · intro k n h hne
    rcases exDiskNL_live h with ⟨rfl, _⟩ | ⟨rfl, _⟩ | ⟨rfl, _⟩ | ⟨rfl, _⟩ | ⟨rfl, _⟩ | ⟨rfl, _⟩ | ⟨rfl, _⟩ | ⟨rfl, _⟩
    · exact absurd rfl hne
    all_goals exact ⟨_, rfl⟩

/-- the location of the example is an empty directory -/
theorem exDiskNL_loc_empty : ∀ k, k ≠ [] → exDiskNL.get ([['b']] ++ ([['d']] ++ k)) = none := by
  intro k hk
  cases hg : exDiskNL.get ([['b']] ++ ([['d']] ++ k)) with
  | none => rfl
  | some n =>
    exfalso
    rcases exDiskNL_live hg with ⟨e, _⟩ | ⟨e, _⟩ | ⟨e, _⟩ | ⟨e, _⟩ | ⟨e, _⟩ | ⟨e, _⟩ | ⟨e, _⟩ | ⟨e, _⟩
    · cases e
    · simp at e
    · simp at e
    · simp at e
    · simp at e; exact hk e
    · simp at e
    · simp at e
    · simp at e

/-- the roots of the example: base root `/b`, backup location `/b/d` (hidden name `/d`), `/k` the other directory -/
theorem nroots_exNL : N.NRoots [['b']] [['d']] [['k']] :=
  ⟨by decide, by decide, by decide, by decide, by decide, by decide, by decide, by decide⟩

abbrev cfgNL := N.nestedCfg [['b']] [['d']]
abbrev simNL := NL.nlSim [['b']] [['d']] [['k']] nroots_exNL

theorem nl_noLinkAnc_top {v : View} {n : Name} (hroot : v.isDirAt []) : NL.NoLinkAnc v [n] := by
  intro a ha hne
  have ha' : a <+: [] ++ [n] := ha
  rcases List.prefix_concat_iff.mp ha' with h | h
  · exact absurd h hne
  · rw [List.prefix_nil.mp h]; exact NL.isLinkAt_not_dir hroot

theorem nl_noLinkAnc_two {v : View} {n1 n2 : Name} (hroot : v.isDirAt []) (h1 : ¬ NL.isLinkAt v [n1]) :
    NL.NoLinkAnc v [n1, n2] := by
  intro a ha hne
  have ha' : a <+: [n1] ++ [n2] := ha
  rcases List.prefix_concat_iff.mp ha' with h | h
  · exact absurd h hne
  · have h' : a <+: [] ++ [n1] := h
    rcases List.prefix_concat_iff.mp h' with e | e
    · rw [e]; exact h1
    · rw [List.prefix_nil.mp e]; exact NL.isLinkAt_not_dir hroot

theorem nl_covered_key {p : Path} {K : Key} (hK : PKey K) (hp : clean p = kp K) {P : Key → Prop} (h : P K) :
    ∀ k, PKey k → clean p = kp k → P k := by
  intro k hk e
  have := kp_inj hk hK (e.symm.trans hp)
  subst this
  exact h

theorem nl_lookup_none_of_not_mem {α} {l : List (Path × α)} {q : Path} (h : q ∉ l.map Prod.fst) : l.lookup q = none := by
  induction l with
  | nil => rfl
  | cons a l ih =>
    obtain ⟨p, x⟩ := a
    simp only [List.map_cons, List.mem_cons, not_or] at h
    have : (q == p) = false := by simpa using h.1
    simp only [List.lookup, this]
    exact ih h.2

theorem nl_noneBelow_of {w : World} {K : Key} {l : List Path} (hl : w.infos.map Prod.fst = l)
    (h : ∀ p ∈ l, ∀ j, PKey j → p = kp j → K <+: j → j = K) : NL.NoneBelow w K := by
  intro j hj ht hpre
  have hm : kp j ∈ w.infos.map Prod.fst := by
    apply Classical.byContradiction
    intro hn
    exact ht (nl_lookup_none_of_not_mem hn)
  rw [hl] at hm
  exact h _ hm j hj rfl hpre

def wN0 : World := { fs := exDiskNL }
def wN1 := Op.step cfgNL wN0 (.lchown "/l".toList 5 6)
def wN2 := Op.step cfgNL wN1 (.remove "/l".toList)
def wN3 := Op.step cfgNL wN2 (.symlink "e".toList "/l".toList)
def wN4 := Op.step cfgNL wN3 (.remove "/m".toList)
def wN5 := Op.step cfgNL wN4 (.symlink "d/x".toList "/n".toList)
def wN6 := runTx cfgNL wN0 [.lchown "/l".toList 5 6, .remove "/l".toList, .symlink "e".toList "/l".toList,
  .remove "/m".toList, .symlink "d/x".toList "/n".toList, .creat "/d/x".toList "hidden"]
def wN7 := Op.step cfgNL wN6 (.rename "/l".toList "/n".toList)

def rootNL : Meta := { exMeta with mtime := .fresh }

/-- both layers of the base admit the two links of the example (at `/l`, `/m`, and `/l -> f` at `/n`) -/
theorem linkOK_exNL (k : Name) (t : Path) (h : (k = ['l'] ∨ k = ['m'] ∨ k = ['n']) ∧ (t = ['f'] ∨ t = ['e'])) :
    NL.NLLinkOK [['b']] [['d']] [['k']] .base [k] t := by
  rcases h with ⟨rfl | rfl | rfl, rfl | rfl⟩ <;>
    exact ⟨by decide +kernel, by decide +kernel, Or.inr (by decide +kernel)⟩

set_option maxRecDepth 100000 in
/-- non-vacuity: the hypotheses of the main theorem hold of the README layout with a file link and a
directory link (`exDiskNL`; the location `/b/d` is an empty directory) and two transactions: the first
changes the owner of the file link, REMOVES it and RE-CREATES a link in its place (now pointing to the
directory), removes the directory link, tries to create a link leading into the location (refused by the
sealing layer) and a file below the location (refused); the second (after the first Rollback has put
`/l -> f` and `/m -> e` back) renames the file link and tries to `Mkdir` over it.  Names are relative to
the base root. -/
example : L.OSGoodL [['b']] [['k']] wN0.fs ∧ (∃ mt, wN0.fs.get ([['b']] ++ [['d']]) = some (.dir mt)) ∧
    wN0.infos = [] ∧ wN0.faults = [] ∧
    (∀ k, k ≠ [] → wN0.fs.get ([['b']] ++ ([['d']] ++ k)) = none) ∧
    NL.CoveredTxs cfgNL simNL wN0
      [[.lchown "/l".toList 5 6, .remove "/l".toList, .symlink "e".toList "/l".toList, .remove "/m".toList,
        .symlink "d/x".toList "/n".toList, .creat "/d/x".toList "hidden"],
       [.rename "/l".toList "/n".toList, .mkdir "/n".toList 0o755]] := by
  have hKl : PKey [['l']] := by decide
  have hKm : PKey [['m']] := by decide
  have hKn : PKey [['n']] := by decide
  have hKdx : PKey [['d'], ['x']] := by decide
  have hcl : clean "/l".toList = kp [['l']] := by decide
  have hcm : clean "/m".toList = kp [['m']] := by decide
  have hcn : clean "/n".toList = kp [['n']] := by decide
  have hcdx : clean "/d/x".toList = kp [['d'], ['x']] := by decide
  refine ⟨osGoodL_exDiskNL, ⟨_, rfl⟩, rfl, rfl, exDiskNL_loc_empty, ⟨?_, ?_, ?_, ?_, ?_, ?_, trivial⟩, ⟨?_, ?_, trivial⟩, trivial⟩
  · -- Lchown("/l"): the path is a symlink that both layers of the base admit
    refine ⟨by decide, nl_covered_key hKl hcl ⟨nl_noLinkAnc_top ⟨rootNL, by decide +kernel⟩, ?_⟩⟩
    intro t mt hv
    have : simNL.view .base wN0.fs [['l']] = some (.link ['f'] { exMeta with mode := 0o777, mtime := .fresh }) := by
      decide +kernel
    have hv' := this.symm.trans hv; cases hv'
    exact linkOK_exNL _ _ ⟨Or.inl rfl, Or.inl rfl⟩
  · -- Remove("/l")
    refine ⟨by decide, by decide, nl_covered_key hKl hcl ⟨nl_noLinkAnc_top ⟨rootNL, by decide +kernel⟩, ?_⟩⟩
    intro t mt hv
    have : simNL.view .base wN1.fs [['l']] = some (.link ['f'] { mode := 0o777, uid := 5, gid := 6, mtime := .fresh }) := by
      decide +kernel
    have hv' := this.symm.trans hv; cases hv'
    exact linkOK_exNL _ _ ⟨Or.inl rfl, Or.inl rfl⟩
  · -- Symlink("e", "/l"): nothing is there any more, and nothing tracked lies below
    refine ⟨by decide, nl_covered_key hKl hcl ⟨⟨nl_noLinkAnc_top ⟨rootNL, by decide +kernel⟩, ?_⟩, ?_⟩⟩
    · intro t mt hv
      have : simNL.view .base wN2.fs [['l']] = none := by decide +kernel
      have hv' := this.symm.trans hv; cases hv'
    · apply nl_noneBelow_of (l := ["/".toList, "/l".toList]) (by decide +kernel)
      intro p hp j hj e hpre
      simp only [List.mem_cons, List.mem_nil_iff, or_false] at hp
      rcases hp with rfl | rfl
      · have : j = [] := kp_inj hj PKey.nil e.symm
        subst this
        simp at hpre
      · exact kp_inj hj hKl e.symm
  · -- Remove("/m"): the directory link
    refine ⟨by decide, by decide, nl_covered_key hKm hcm ⟨nl_noLinkAnc_top ⟨rootNL, by decide +kernel⟩, ?_⟩⟩
    intro t mt hv
    have : simNL.view .base wN3.fs [['m']] = some (.link ['e'] { exMeta with mode := 0o777, mtime := .fresh }) := by
      decide +kernel
    have hv' := this.symm.trans hv; cases hv'
    exact linkOK_exNL _ _ ⟨Or.inr (Or.inl rfl), Or.inr rfl⟩
  · -- Symlink("d/x", "/n"): the target leads into the location; the sealing layer refuses, nothing changes
    refine ⟨by decide, nl_covered_key hKn hcn ⟨⟨nl_noLinkAnc_top ⟨rootNL, by decide +kernel⟩, ?_⟩, ?_⟩⟩
    · intro t mt hv
      have : simNL.view .base wN4.fs [['n']] = none := by decide +kernel
      have hv' := this.symm.trans hv; cases hv'
    · apply nl_noneBelow_of (l := ["/".toList, "/l".toList, "/m".toList]) (by decide +kernel)
      intro p hp j hj e hpre
      simp only [List.mem_cons, List.mem_nil_iff, or_false] at hp
      rcases hp with rfl | rfl | rfl
      · have : j = [] := kp_inj hj PKey.nil e.symm
        subst this
        simp at hpre
      · have : j = [['l']] := kp_inj hj hKl e.symm
        subst this
        exact absurd hpre (by decide)
      · have : j = [['m']] := kp_inj hj hKm e.symm
        subst this
        exact absurd hpre (by decide)
  · -- Create("/d/x"): a name below the hidden location (refused)
    refine ⟨by decide, nl_covered_key hKdx hcdx ⟨nl_noLinkAnc_two ⟨rootNL, by decide +kernel⟩ ?_, ?_⟩⟩
    · rintro ⟨t, mt, hv⟩
      have : simNL.view .base wN5.fs [['d']] = none := by decide +kernel
      have hv' := this.symm.trans hv; cases hv'
    · rintro ⟨t, mt, hv⟩
      have : simNL.view .base wN5.fs [['d'], ['x']] = none := by decide +kernel
      have hv' := this.symm.trans hv; cases hv'
  · -- second transaction: Rename("/l", "/n") of the restored file link
    refine ⟨by decide, by decide, ?_⟩
    intro ko kn hko hkn eo en
    have h1 := kp_inj hko hKl (eo.symm.trans hcl)
    have h2 := kp_inj hkn hKn (en.symm.trans hcn)
    subst h1 h2
    have hvl : simNL.view .base wN6.fs [['l']] = some (.link ['f'] { mode := 0o777, uid := 0, gid := 0, mtime := .fresh }) := by
      decide +kernel
    have hvn : simNL.view .base wN6.fs [['n']] = none := by decide +kernel
    have hroot : (simNL.view .base wN6.fs).isDirAt [] := ⟨rootNL, by decide +kernel⟩
    refine ⟨⟨nl_noLinkAnc_top hroot, ?_⟩, ⟨nl_noLinkAnc_top hroot, ?_⟩, ?_, ?_⟩
    · intro t mt hv; have hv' := hvl.symm.trans hv; cases hv'
      exact linkOK_exNL _ _ ⟨Or.inl rfl, Or.inl rfl⟩
    · intro t mt hv; have hv' := hvn.symm.trans hv; cases hv'
    · rintro ⟨⟨mt, hd⟩, _⟩; have hd' := hvl.symm.trans hd; cases hd'
    · intro _
      apply nl_noneBelow_of (l := []) (by decide +kernel)
      intro p hp; cases hp
  · -- Mkdir("/n") over the renamed symlink (fails with EEXIST after backing nothing up: `/n` is tracked)
    refine ⟨by decide, nl_covered_key hKn hcn ⟨nl_noLinkAnc_top ⟨rootNL, by decide +kernel⟩, ?_⟩⟩
    intro t mt hv
    have : simNL.view .base wN7.fs [['n']] = some (.link ['f'] { mode := 0o777, uid := 0, gid := 0, mtime := .fresh }) := by
      decide +kernel
    have hv' := this.symm.trans hv; cases hv'
    exact linkOK_exNL _ _ ⟨Or.inr (Or.inr rfl), Or.inl rfl⟩

end Props.C04
