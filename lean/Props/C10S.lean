import Props.C10
import Props.C01
/-!
# C10 — "… a final Rollback restores the base exactly as if the operations had run one after another"

The protocol theorem `Props.C10.serialisable` is about abstract critical sections.  Here it is
instantiated with the model of BackupFS itself: the shared state is the `World` (both disks and the
tracked map), every thread is one public operation of BackupFS run as ONE critical section
(`mu.Lock(); defer mu.Unlock()` around the whole body — that every method has this shape is
`lock_discipline`, regenerated from the Go sources on every run), and any number of threads may be
scheduled in any order the mutex admits.  Then the world reached is `runOps` of the operations in
lock-acquisition order, and the end-to-end theorem of C01 applies to it: whatever the schedule, a
final Rollback restores the base (link-free fragment, as C01).
-/
namespace Props.C10
open BFS BFS.BackupFS Conc

/-- a public BackupFS operation as a thread: the whole body is one critical section -/
def opThread (cfg : Cfg) (op : Op) : Thread World := .locked [fun w => op.step cfg w]

/-- the serial effect of operation-threads is the history semantics of the model -/
theorem serial_ops (cfg : Cfg) (opOf : Nat → Op) (order : List Nat) (w : World) :
    serial (fun t => opThread cfg (opOf t)) order w = runOps cfg w (order.map opOf) := by
  induction order generalizing w with
  | nil => rfl
  | cons t ts ih =>
    show serial _ ts (runSteps [fun w => (opOf t).step cfg w] w) = _
    rw [ih]
    rfl

/-- T10.3 every schedule of any number of concurrently issued operations leaves the world exactly
as the serial history in lock-acquisition order does (once no operation is running). -/
theorem concurrent_ops_serialise (cfg : Cfg) (opOf : Nat → Op) (w0 : World) (sched : List Nat)
    (c : Config World) (h : exec (fun t => opThread cfg (opOf t)) sched (init w0) = some c)
    (hfree : c.owner = none) :
    c.st = runOps cfg w0 (c.order.map opOf) := by
  rw [serialisable _ w0 sched c h hfree, serial_ops]

/-- T10.4 (link-free fragment of C01) … and a final Rollback then restores the base exactly: for
every schedule of concurrently issued operations whose serialisation (in the order in which they
got the mutex) is a covered history, every entry of the base below its root is afterwards what it
was before the first operation. -/
theorem concurrent_rollback_restores_linkfree_partial (bk kk : Key) (hbk : PKey bk) (hkk : PKey kk)
    (hne1 : bk ≠ []) (hne2 : kk ≠ []) (hd1 : ¬ bk <+: kk) (hd2 : ¬ kk <+: bk)
    (w0 : World) (hg : OSGood bk kk w0.fs) (hinfos : w0.infos = []) (hnf : w0.faults = [])
    (opOf : Nat → Op) (sched : List Nat) (c : Config World)
    (h : exec (fun t => opThread (osCfg bk kk) (opOf t)) sched (init w0) = some c)
    (hfree : c.owner = none)
    (hcov : CoveredHist (osCfg bk kk) (osSim bk kk hbk hkk hne1 hne2 hd1 hd2) w0 (c.order.map opOf)) :
    ∀ k, k ≠ [] →
      ((rollback (osCfg bk kk) c.st).1.fs.get (bk ++ k)).map eraseMt = (w0.fs.get (bk ++ k)).map eraseMt := by
  rw [concurrent_ops_serialise (osCfg bk kk) opOf w0 sched c h hfree]
  exact Props.C01.rollback_restores_linkfree_partial bk kk hbk hkk hne1 hne2 hd1 hd2 w0 hg hinfos hnf
    [c.order.map opOf] ⟨hcov, trivial⟩

/-- non-vacuity: two operations, the second thread gets the mutex first -/
example : ∃ c, exec (fun t => opThread (osCfg [['b']] [['k']]) (if t = 0 then .remove "/f".toList else .mkdir "/n".toList 0o755))
    [1, 1, 1, 0, 0, 0] (init { fs := exDisk }) = some c ∧ c.owner = none ∧ c.order = [1, 0] := by
  refine ⟨_, rfl, rfl, rfl⟩

end Props.C10
