import Lemmas.FlowCheck
/-!
# C14 — facts about the CURRENT Go sources (regenerated on every run), decided by the kernel

`Generated.flowFacts` is written by the harness (`vharness -stream astfacts`, go/ast) from /repo's
working tree before every build; the predicates are defined in `Lemmas/FlowCheck.lean`.  A change to
the sources that alters how names flow through the methods changes the facts, and these theorems no
longer build — whether or not a generated input happens to exhibit the difference.
-/
namespace Props.C14
open Flow Generated

/-- every PrefixFS method issues exactly one base call, of its own name, on `prefixPath(<parameter>)` -/
theorem source_same_call_on_prefixed_path : prefixedBeforeDelegation "PrefixFS" flowFacts methodParams = true := by decide +kernel

end Props.C14
