import Lemmas.NXFoot
import Lemmas.NSimOS
import Props.C04N
/-!
# C13 — Rollback touches nothing it was not asked to: NESTED (README) layering, link-free trees (bonus)

State-level frame theorem for ANY world (no transaction invariant), ANY fault plan, in the nested
layering `N.nestedCfg bk hk` over the OS model: Lemmas/NXFoot.lean is Lemmas/Footprint.lean replayed
over the contract `N.Sim` (it uses the unconditional frame laws only, so it went through verbatim).
-/
namespace Props.C13
open BFS BFS.BackupFS

/-- T13.7-N the coarse form: in the base (outside the location) a key unrelated — neither below nor
above — to every tracked key other than the root is untouched by Rollback; in the location a key that
is not itself tracked is untouched.  Any tracked map, any fault plan. -/
theorem rollback_leaves_unrelated_keys_alone_nested (bk hk dd : Key) (hr : N.NRoots bk hk dd)
    (w : World) (hg : N.NGood bk hk dd w.fs)
    (hkeys : ∀ p oi, (p, oi) ∈ w.infos → ∃ k, PKey k ∧ p = kp k)
    (hroot : (kp [], none) ∉ w.infos)
    (hnolink : ∀ p i, (p, some i) ∈ w.infos → i.kind ≠ .link) :
    let w' := (rollback (N.nestedCfg bk hk) w).1
    N.NGood bk hk dd w'.fs ∧
    (∀ j, ¬ hk <+: j → (∀ p oi k, (p, oi) ∈ w.infos → p = kp k → PKey k → k ≠ [] → Unrelated j k) →
      (w'.fs.get (bk ++ j)).map eraseMt = (w.fs.get (bk ++ j)).map eraseMt) ∧
    (∀ j, (∀ p oi k, (p, oi) ∈ w.infos → p = kp k → PKey k → j ≠ k) →
      (w'.fs.get (bk ++ hk ++ j)).map eraseMt = (w.fs.get (bk ++ hk ++ j)).map eraseMt) := by
  obtain ⟨g, hb, hk'⟩ :=
    N.rollback_frame_unrelated (N.nSim bk hk dd hr) (w := w) hg hkeys hroot hnolink
  refine ⟨g, ?_, fun j hj => hk' j hj⟩
  intro j hvis hj
  have := hb j hj
  have e1 : ∀ m : MFS, (N.nSim bk hk dd hr).view .base m j = (m.get (bk ++ j)).map eraseMt :=
    fun m => N.nview_base_vis hvis
  rw [e1, e1] at this
  exact this

/-- T13.6-N a foreign entry of the location (not a tracked path) survives Rollback -/
theorem foreign_backup_content_survives_nested (bk hk dd : Key) (hr : N.NRoots bk hk dd)
    (w : World) (hg : N.NGood bk hk dd w.fs)
    (hkeys : ∀ p oi, (p, oi) ∈ w.infos → ∃ k, PKey k ∧ p = kp k)
    (hroot : (kp [], none) ∉ w.infos)
    (hnolink : ∀ p i, (p, some i) ∈ w.infos → i.kind ≠ .link)
    (j : Key) (huntracked : ∀ i, (kp j, some i) ∉ w.infos) :
    ((rollback (N.nestedCfg bk hk) w).1.fs.get (bk ++ hk ++ j)).map eraseMt =
      (w.fs.get (bk ++ hk ++ j)).map eraseMt :=
  (N.rollback_frame_entries (N.nSim bk hk dd hr) (w := w) hg hkeys hroot hnolink).2.2.2 j (Or.inr huntracked)

/-- non-vacuity: a world in the middle of a transaction on the example disk (tracks `/`, `/f`-absent
is not needed: `/n` recorded as absent), with a fault planned -/
example : N.NGood [['b']] [['d']] [['k']] exDisk ∧
    (∀ p oi, (p, oi) ∈ [(kp [['n']], (none : Option Info))] → ∃ k, PKey k ∧ p = kp k) ∧
    (kp [], none) ∉ [(kp [['n']], (none : Option Info))] ∧
    Unrelated [['f']] [['n']] := by
  refine ⟨⟨osGood_example, ⟨_, rfl⟩⟩, ?_, by decide, ⟨by decide, by decide⟩⟩
  intro p oi hm
  simp only [List.mem_singleton, Prod.mk.injEq] at hm
  exact ⟨[['n']], by decide, hm.1⟩

end Props.C13
