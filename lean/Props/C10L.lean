import Props.C10S
import Props.C01L
import Props.C01G
/-!
# C10 composed with C01 on trees with symlinks

`concurrent_ops_serialise` (every schedule of operation-threads leaves the world of the serial
history in lock-acquisition order) composed with the end-to-end theorems of the symlink-leaves and
flat-links fragments: whatever the schedule, a final Rollback restores the base.
-/
namespace Props.C10
open BFS BFS.BackupFS BFS.L Conc

/-- symlinks as leaves, the `Symlink` operation included -/
theorem concurrent_rollback_restores_symlink_leaves_partial (bk kk : Key) (hbk : PKey bk) (hkk : PKey kk)
    (hne1 : bk ≠ []) (hne2 : kk ≠ []) (hd1 : ¬ bk <+: kk) (hd2 : ¬ kk <+: bk)
    (w0 : World) (hg : OSGoodL bk kk w0.fs) (hinfos : w0.infos = []) (hnf : w0.faults = [])
    (hbl : ∀ k, (∃ t mt, w0.fs.get (kk ++ k) = some (.link t mt)) → ∃ t mt, w0.fs.get (bk ++ k) = some (.link t mt))
    (opOf : Nat → Op) (sched : List Nat) (c : Config World)
    (h : exec (fun t => opThread (osCfg bk kk) (opOf t)) sched (init w0) = some c)
    (hfree : c.owner = none)
    (hcov : L.CoveredHist (osCfg bk kk) (osSimL bk kk hbk hkk hne1 hne2 hd1 hd2) w0 (c.order.map opOf)) :
    ∀ k, k ≠ [] →
      ((rollback (osCfg bk kk) c.st).1.fs.get (bk ++ k)).map (eraseV (kp bk)) =
        (w0.fs.get (bk ++ k)).map (eraseV (kp bk)) := by
  rw [concurrent_ops_serialise (osCfg bk kk) opOf w0 sched c h hfree]
  exact Props.C01L.rollback_restores_symlink_leaves_partial bk kk hbk hkk hne1 hne2 hd1 hd2 w0 hg hinfos hnf hbl
    [c.order.map opOf] ⟨hcov, trivial⟩

/-- names through flat links -/
theorem concurrent_rollback_restores_through_flat_links_partial (bk kk : Key) (hbk : PKey bk) (hkk : PKey kk)
    (hne1 : bk ≠ []) (hne2 : kk ≠ []) (hd1 : ¬ bk <+: kk) (hd2 : ¬ kk <+: bk)
    (w0 : World) (hg : OSGoodL bk kk w0.fs) (hinfos : w0.infos = []) (hnf : w0.faults = [])
    (hbl : ∀ k, (∃ t mt, w0.fs.get (kk ++ k) = some (.link t mt)) → ∃ t mt, w0.fs.get (bk ++ k) = some (.link t mt))
    (opOf : Nat → Op) (sched : List Nat) (c : Config World)
    (h : exec (fun t => opThread (osCfg bk kk) (opOf t)) sched (init w0) = some c)
    (hfree : c.owner = none)
    (hcov : G.CoveredHist (osCfg bk kk) bk (osSimL bk kk hbk hkk hne1 hne2 hd1 hd2) w0 (c.order.map opOf)) :
    ∀ k, k ≠ [] →
      ((rollback (osCfg bk kk) c.st).1.fs.get (bk ++ k)).map (eraseV (kp bk)) =
        (w0.fs.get (bk ++ k)).map (eraseV (kp bk)) := by
  rw [concurrent_ops_serialise (osCfg bk kk) opOf w0 sched c h hfree]
  exact Props.C01.rollback_restores_through_flat_links_partial bk kk hbk hkk hne1 hne2 hd1 hd2 w0 hg hinfos hnf hbl
    [c.order.map opOf] ⟨hcov, trivial⟩

end Props.C10
