import Lemmas.NYXOps
import Lemmas.NXR2
import Lemmas.NSimOS
import Props.C04N
import Props.C07N
import Props.C02N
/-!
# C02 — the backup copies are EXACT, never overwritten, and the location holds nothing else: NESTED layering

`Props/C02X.lean` carried over to the documented layering `N.nestedCfg bk hk = NewWithFS (PrefixFS (kp bk) osfs)
(kp hk)` (README): ONE disk, "the base" is every key below `bk` that is not at or below `hk`, "the backup" is the
subtree at `bk ++ hk`, masked from the base view by `HiddenFS`.  Link-free trees, `N`-covered histories (names at
or below the location and names of its ancestors included: they are refused), and — except X3 — EVERY fault plan.

* X1-N `backup_copy_is_original_nested_linkfree_partial` (uniform), `backup_copies_exact_nested_linkfree_partial`
  (+ `_fields`, `backup_copy_mtime_old_nested`), `backup_dir_copies_exact_nested_linkfree_partial`,
  `original_intact_or_exactly_copied_nested_linkfree_partial`: every non-root key tracked with a `FileInfo` lies
  outside the location and holds, at the same path below the location, EXACTLY the node the base held when the
  transaction began (type, content, twelve mode bits, uid, gid, file mtime; directory timestamps erased).
* X2-N `copy_never_overwritten_nested_linkfree_partial`, `file_copy_never_overwritten_nested_linkfree_partial`.
* X3-N `backup_holds_only_exact_copies_nested_linkfree_partial` (healthy filesystem),
  `backup_file_is_original_nested_linkfree_partial`; under every fault plan
  `backup_holds_only_entries_at_paths_of_originals_nested_linkfree_partial`.  The fault-free hypothesis is forced
  here too: `failed_copy_leaves_inexact_orphan_nested` (kernel-checked).
* X4-N `backup_copies_exact_at_every_crash_point_nested_linkfree_partial`,
  `exactly_recoverable_at_every_crash_point_in_rollback_nested_linkfree_partial` (every crash index).

How: `Lemmas/NYXInv.lean … NYXOps.lean` are `Lemmas/X2Inv.lean … X2Ops.lean` replayed over the contract `N.Sim`
(script `/tmp/p24/tools/retarget.py` + three hand edits); the only new ingredient is the STATIC clause `bvis`
("nothing is masked on the backup side") in `N.XInv`, which discharges the `¬ Hid` premise the nested contract puts
on `mkdirAll_ok`/`openW_none` — exactly as `N.BInv.bvis` does in Lemmas/TNInvB.lean.  No new hypothesis.
-/
namespace Props.C02
open BFS BFS.BackupFS

/-! ### vocabulary -/

/-- below the location `bk ++ hk` the disk holds only entries that sit at the path of a VISIBLE entry of the
base tree (root `bk`) of the same type; in particular an empty location -/
def BackupTypedN (m : MFS) (bk hk : Key) : Prop :=
  ∀ k n, k ≠ [] → m.get (bk ++ hk ++ k) = some n →
    ¬ hk <+: k ∧ ∃ n0, m.get (bk ++ k) = some n0 ∧ n0.kind = n.kind

theorem backupTypedN_of_empty {m : MFS} {bk hk : Key} (h : ∀ k, k ≠ [] → m.get (bk ++ hk ++ k) = none) :
    BackupTypedN m bk hk := by
  intro k n hk' hn
  rw [h k hk'] at hn; cases hn

private theorem kind_eraseMtN (n : Node) : (eraseMt n).kind = n.kind := by cases n <;> rfl

private theorem map_erase_fileN {x : Option Node} {c : String} {mt : Meta}
    (h : x.map eraseMt = some (.file c mt)) : x = some (.file c mt) := by
  cases x with
  | none => cases h
  | some n =>
    cases n with
    | file c' mt' => simpa [eraseMt] using h
    | dir md => simp [eraseMt] at h
    | link t md => simp [eraseMt] at h

private theorem map_erase_dirN {x : Option Node} {md : Meta}
    (h : x.map eraseMt = some (eraseMt (.dir md))) :
    ∃ md', x = some (.dir md') ∧ md'.mode = md.mode ∧ md'.uid = md.uid ∧ md'.gid = md.gid := by
  cases x with
  | none => cases h
  | some n =>
    cases n with
    | file c' mt' => simp [eraseMt] at h
    | dir md' =>
      refine ⟨md', rfl, ?_⟩
      simp only [Option.map_some, eraseMt, Option.some.injEq, Node.dir.injEq, Meta.mk.injEq] at h
      exact ⟨h.1, h.2.1, h.2.2.1⟩
    | link t md' => simp [eraseMt] at h

private theorem nbvX (bk hk dd : Key) (hr : N.NRoots bk hk dd) :
    ∀ k, ¬ (N.nSim bk hk dd hr).Hid .backup k := fun _ h => h

section
variable (bk hk dd : Key) (hr : N.NRoots bk hk dd)

/-- the invariant `N.InvX` after any covered history, under any fault plan -/
theorem exactness_invariant_after_history_nested
    (w0 : World) (hg : N.NGood bk hk dd w0.fs) (hinfos : w0.infos = []) (htyped : BackupTypedN w0.fs bk hk)
    (ops : List Op) (hcov : N.CoveredHist (N.nestedCfg bk hk) (N.nSim bk hk dd hr) w0 ops) :
    N.KeptX (N.nSim bk hk dd hr) (N.nview bk hk .base w0.fs) w0 (runOps (N.nestedCfg bk hk) w0 ops) := by
  apply N.history_keepsX ops w0 _ hcov
  apply N.InvX.init_typed (S := N.nSim bk hk dd hr) hg hinfos (nbvX bk hk dd hr)
  intro k n hk' hn
  have hn' : (w0.fs.get (bk ++ hk ++ k)).map eraseMt = some n := hn
  cases hraw : w0.fs.get (bk ++ hk ++ k) with
  | none => rw [hraw] at hn'; cases hn'
  | some nb =>
    rw [hraw] at hn'
    simp only [Option.map_some, Option.some.injEq] at hn'
    obtain ⟨hvis, n0, hn0, hkind⟩ := htyped k nb hk' hraw
    refine ⟨eraseMt n0, ?_, ?_⟩
    · show N.nview bk hk .base w0.fs k = _
      rw [N.nview_base_vis hvis, hn0]; rfl
    · rw [kind_eraseMtN, hkind, ← hn', kind_eraseMtN]

/-- a key tracked with a `FileInfo` is never at or below the location: nothing the base view hides is ever
backed up (cf. `Props.C04.loc_never_backed_up`) -/
theorem tracked_with_info_is_visible_nested
    (w0 : World) (hg : N.NGood bk hk dd w0.fs) (hinfos : w0.infos = [])
    (ops : List Op) (hcov : N.CoveredHist (N.nestedCfg bk hk) (N.nSim bk hk dd hr) w0 ops) :
    ∀ k i, PKey k → (runOps (N.nestedCfg bk hk) w0 ops).infos.lookup (kp k) = some (some i) → ¬ hk <+: k := by
  intro k i hpk hts hh
  have hinv := (N.history_keeps ops w0 (N.Inv.init (S := N.nSim bk hk dd hr) hg hinfos) hcov).inv
  obtain ⟨n, hn, _⟩ := hinv.saved k i hpk hts
  have hn' : N.nview bk hk .base w0.fs k = some n := hn
  rw [N.nview_base_hid hh] at hn'; cases hn'

/-! ### X1-N — the copies are exact (every fault plan) -/

/-- **X1-N, uniform form.**  After any covered history run under ANY fault plan, from a location that is empty
(or, more generally, `BackupTypedN`): every non-root key tracked with a `FileInfo` lies outside the location, and
at the same path below the location the disk shows the node the base showed when the transaction began (directory
timestamps erased on both sides). -/
theorem backup_copy_is_original_nested_linkfree_partial
    (w0 : World) (hg : N.NGood bk hk dd w0.fs) (hinfos : w0.infos = []) (htyped : BackupTypedN w0.fs bk hk)
    (ops : List Op) (hcov : N.CoveredHist (N.nestedCfg bk hk) (N.nSim bk hk dd hr) w0 ops) :
    ∀ k i, PKey k → k ≠ [] → (runOps (N.nestedCfg bk hk) w0 ops).infos.lookup (kp k) = some (some i) →
      ¬ hk <+: k ∧
      ((runOps (N.nestedCfg bk hk) w0 ops).fs.get (bk ++ hk ++ k)).map eraseMt = (w0.fs.get (bk ++ k)).map eraseMt := by
  intro k i hpk hk' hts
  have hvis := tracked_with_info_is_visible_nested bk hk dd hr w0 hg hinfos ops hcov k i hpk hts
  refine ⟨hvis, ?_⟩
  have := (exactness_invariant_after_history_nested bk hk dd hr w0 hg hinfos htyped ops hcov).inv.x.exact
    k i hpk hk' hts
  rw [← N.nview_base_vis (bk := bk) (m := w0.fs) hvis]
  exact this

/-- **X1-N (regular files).**  Every fault plan, location empty at the start, any covered history: if `k ≠ []` is
tracked with a `FileInfo` and the original was the regular file `.file c mt`, then the location holds
`.file c mt` at the same path — same content, all twelve mode bits, uid, gid, mtime. -/
theorem backup_copies_exact_nested_linkfree_partial
    (w0 : World) (hg : N.NGood bk hk dd w0.fs) (hinfos : w0.infos = [])
    (hempty : ∀ k, k ≠ [] → w0.fs.get (bk ++ hk ++ k) = none)
    (ops : List Op) (hcov : N.CoveredHist (N.nestedCfg bk hk) (N.nSim bk hk dd hr) w0 ops) :
    ∀ k i c mt, k ≠ [] → (runOps (N.nestedCfg bk hk) w0 ops).infos.lookup (kp k) = some (some i) →
      w0.fs.get (bk ++ k) = some (.file c mt) →
      (runOps (N.nestedCfg bk hk) w0 ops).fs.get (bk ++ hk ++ k) = some (.file c mt) := by
  intro k i c mt hk' hts horig
  have hpk : PKey k := (hg.os.pkey _ _ horig).right
  have h := (backup_copy_is_original_nested_linkfree_partial bk hk dd hr w0 hg hinfos
    (backupTypedN_of_empty hempty) ops hcov k i hpk hk' hts).2
  rw [horig] at h
  exact map_erase_fileN h

/-- X1-N (regular files), field by field, as the property lists them -/
theorem backup_copies_exact_fields_nested_linkfree_partial
    (w0 : World) (hg : N.NGood bk hk dd w0.fs) (hinfos : w0.infos = [])
    (hempty : ∀ k, k ≠ [] → w0.fs.get (bk ++ hk ++ k) = none)
    (ops : List Op) (hcov : N.CoveredHist (N.nestedCfg bk hk) (N.nSim bk hk dd hr) w0 ops) :
    ∀ k i c mt, k ≠ [] → (runOps (N.nestedCfg bk hk) w0 ops).infos.lookup (kp k) = some (some i) →
      w0.fs.get (bk ++ k) = some (.file c mt) →
      ∃ mt', (runOps (N.nestedCfg bk hk) w0 ops).fs.get (bk ++ hk ++ k) = some (.file c mt') ∧
        mt'.mode = mt.mode ∧ mt'.uid = mt.uid ∧ mt'.gid = mt.gid ∧ mt'.mtime = mt.mtime :=
  fun k i c mt hk' hts horig =>
    ⟨mt, backup_copies_exact_nested_linkfree_partial bk hk dd hr w0 hg hinfos hempty ops hcov
      k i c mt hk' hts horig, rfl, rfl, rfl, rfl⟩

/-- an original last modified at the instant `ns` (before the case began) has a copy with exactly that
modification time -/
theorem backup_copy_mtime_old_nested
    (w0 : World) (hg : N.NGood bk hk dd w0.fs) (hinfos : w0.infos = [])
    (hempty : ∀ k, k ≠ [] → w0.fs.get (bk ++ hk ++ k) = none)
    (ops : List Op) (hcov : N.CoveredHist (N.nestedCfg bk hk) (N.nSim bk hk dd hr) w0 ops) :
    ∀ k i c mt ns, k ≠ [] → (runOps (N.nestedCfg bk hk) w0 ops).infos.lookup (kp k) = some (some i) →
      w0.fs.get (bk ++ k) = some (.file c mt) → mt.mtime = .old ns →
      ∃ mt', (runOps (N.nestedCfg bk hk) w0 ops).fs.get (bk ++ hk ++ k) = some (.file c mt') ∧ mt'.mtime = .old ns :=
  fun k i c mt _ hk' hts horig hns =>
    ⟨mt, backup_copies_exact_nested_linkfree_partial bk hk dd hr w0 hg hinfos hempty ops hcov
      k i c mt hk' hts horig, hns⟩

/-- **X1-N (directories).**  Every fault plan: a non-root key tracked with a `FileInfo` whose original was a
directory is a directory below the location with the same twelve mode bits, uid and gid. -/
theorem backup_dir_copies_exact_nested_linkfree_partial
    (w0 : World) (hg : N.NGood bk hk dd w0.fs) (hinfos : w0.infos = [])
    (hempty : ∀ k, k ≠ [] → w0.fs.get (bk ++ hk ++ k) = none)
    (ops : List Op) (hcov : N.CoveredHist (N.nestedCfg bk hk) (N.nSim bk hk dd hr) w0 ops) :
    ∀ k i mt, k ≠ [] → (runOps (N.nestedCfg bk hk) w0 ops).infos.lookup (kp k) = some (some i) →
      w0.fs.get (bk ++ k) = some (.dir mt) →
      ∃ mt', (runOps (N.nestedCfg bk hk) w0 ops).fs.get (bk ++ hk ++ k) = some (.dir mt') ∧
        mt'.mode = mt.mode ∧ mt'.uid = mt.uid ∧ mt'.gid = mt.gid := by
  intro k i mt hk' hts horig
  have hpk : PKey k := (hg.os.pkey _ _ horig).right
  have h := (backup_copy_is_original_nested_linkfree_partial bk hk dd hr w0 hg hinfos
    (backupTypedN_of_empty hempty) ops hcov k i hpk hk' hts).2
  rw [horig] at h
  exact map_erase_dirN h

/-- X1-N with what `N.Inv` says about the tracked `FileInfo`: the literal per-entry disjunction of the property
for every original OUTSIDE the location — intact in the base, or tracked with a `FileInfo` describing it exactly
AND exactly copied at the same path below the location. -/
theorem original_intact_or_exactly_copied_nested_linkfree_partial
    (w0 : World) (hg : N.NGood bk hk dd w0.fs) (hinfos : w0.infos = [])
    (hempty : ∀ k, k ≠ [] → w0.fs.get (bk ++ hk ++ k) = none)
    (ops : List Op) (hcov : N.CoveredHist (N.nestedCfg bk hk) (N.nSim bk hk dd hr) w0 ops) :
    ∀ k, k ≠ [] → ¬ hk <+: k → ∀ node, w0.fs.get (bk ++ k) = some node →
      ((runOps (N.nestedCfg bk hk) w0 ops).fs.get (bk ++ k)).map eraseMt = some (eraseMt node) ∨
      ((∃ i, (runOps (N.nestedCfg bk hk) w0 ops).infos.lookup (kp k) = some (some i) ∧ InfoFor i (eraseMt node)) ∧
        ((runOps (N.nestedCfg bk hk) w0 ops).fs.get (bk ++ hk ++ k)).map eraseMt = some (eraseMt node)) := by
  intro k hk' hvis node horig
  have hkept := exactness_invariant_after_history_nested bk hk dd hr w0 hg hinfos
    (backupTypedN_of_empty hempty) ops hcov
  have hv : N.nview bk hk .base w0.fs k = some (eraseMt node) := by
    rw [N.nview_base_vis hvis, horig]; rfl
  have hpk : PKey k := (hg.os.pkey _ _ horig).right
  rcases hkept.inv.inv.recoverable hv with ⟨_, hb⟩ | ⟨i, hts, hfor, _⟩
  · left
    have hb' : N.nview bk hk .base (runOps (N.nestedCfg bk hk) w0 ops).fs k = some (eraseMt node) := hb
    rw [N.nview_base_vis hvis] at hb'
    exact hb'
  · right
    refine ⟨⟨i, hts, hfor⟩, ?_⟩
    have := hkept.inv.x.exact k i hpk hk' hts
    exact this.trans hv

/-! ### X4-N — crash points -/

/-- **X4-N.**  Let the process die after any number `n` of the primitive calls of any covered history: on the
disk it leaves behind, every key tracked with a `FileInfo` has its exact copy below the location. -/
theorem backup_copies_exact_at_every_crash_point_nested_linkfree_partial
    (w0 : World) (hg : N.NGood bk hk dd w0.fs) (hinfos : w0.infos = [])
    (hempty : ∀ k, k ≠ [] → w0.fs.get (bk ++ hk ++ k) = none) (n : Nat) (_hplan : w0.faults = crashPlan n)
    (ops : List Op) (hcov : N.CoveredHist (N.nestedCfg bk hk) (N.nSim bk hk dd hr) w0 ops) :
    ∀ k i node, k ≠ [] → (runOps (N.nestedCfg bk hk) w0 ops).infos.lookup (kp k) = some (some i) →
      w0.fs.get (bk ++ k) = some node →
      ((runOps (N.nestedCfg bk hk) w0 ops).fs.get (bk ++ hk ++ k)).map eraseMt = some (eraseMt node) := by
  intro k i node hk' hts horig
  have hpk : PKey k := (hg.os.pkey _ _ horig).right
  have h := (backup_copy_is_original_nested_linkfree_partial bk hk dd hr w0 hg hinfos
    (backupTypedN_of_empty hempty) ops hcov k i hpk hk' hts).2
  rw [h, horig]; rfl

/-- **X4-N, crash points inside Rollback.**  Any covered history run under any fault plan from an empty
location; then Rollback, the process dying after `n` more primitive calls, for ANY `n`: on the frozen disk every
entry outside the location that existed when the transaction began is intact in the base (type, content, mode,
owner, file mtime) or EXACTLY copied at the same path below the location. -/
theorem exactly_recoverable_at_every_crash_point_in_rollback_nested_linkfree_partial
    (w0 : World) (hg : N.NGood bk hk dd w0.fs) (hinfos : w0.infos = [])
    (hempty : ∀ k, k ≠ [] → w0.fs.get (bk ++ hk ++ k) = none) (ops : List Op)
    (hcov : N.CoveredHist (N.nestedCfg bk hk) (N.nSim bk hk dd hr) w0 ops) (n : Nat) :
    ∀ k, k ≠ [] → ¬ hk <+: k → ∀ node, w0.fs.get (bk ++ k) = some node →
      BaseShows (rollback (N.nestedCfg bk hk) (dieAfter (runOps (N.nestedCfg bk hk) w0 ops) n)).1.fs bk k node ∨
      ((rollback (N.nestedCfg bk hk) (dieAfter (runOps (N.nestedCfg bk hk) w0 ops) n)).1.fs.get (bk ++ hk ++ k)).map eraseMt =
        some (eraseMt node) := by
  intro k hk' hvis node horig
  have hkept := exactness_invariant_after_history_nested bk hk dd hr w0 hg hinfos
    (backupTypedN_of_empty hempty) ops hcov
  have hv : N.nview bk hk .base w0.fs k = some (eraseMt node) := by
    rw [N.nview_base_vis hvis, horig]; rfl
  have hpk : PKey k := (hg.os.pkey _ _ horig).right
  rcases crash_in_rollback_dichotomy_nested_linkfree_partial bk hk dd hr w0 hg hinfos ops hcov n with
    h | ⟨hb, hf⟩
  · left
    show ((rollback (N.nestedCfg bk hk) (dieAfter (runOps (N.nestedCfg bk hk) w0 ops) n)).1.fs.get (bk ++ k)).map eraseMt = _
    rw [h k hk' hvis, horig]; rfl
  · rcases hkept.inv.inv.recoverable hv with ⟨hu, hbase⟩ | ⟨i, hts, _, _⟩
    · left
      show ((rollback (N.nestedCfg bk hk) (dieAfter (runOps (N.nestedCfg bk hk) w0 ops) n)).1.fs.get (bk ++ k)).map eraseMt = _
      rw [hf k hvis hu (by rw [horig]; simp)]
      have hb' : N.nview bk hk .base (runOps (N.nestedCfg bk hk) w0 ops).fs k = some (eraseMt node) := hbase
      rw [N.nview_base_vis hvis] at hb'
      exact hb'
    · right
      rw [hb k]
      exact (hkept.inv.x.exact k i hpk hk' hts).trans hv

/-! ### X2-N — a copy once taken is never overwritten -/

private theorem coveredHist_appendN {cfg : Cfg} {S : N.Sim cfg} : ∀ (ops₁ ops₂ : List Op) (w : World),
    N.CoveredHist cfg S w (ops₁ ++ ops₂) →
      N.CoveredHist cfg S w ops₁ ∧ N.CoveredHist cfg S (runOps cfg w ops₁) ops₂
  | [], _, _, h => ⟨trivial, h⟩
  | op :: rest, ops₂, w, h => by
    obtain ⟨h1, h2⟩ := coveredHist_appendN rest ops₂ (op.step cfg w) h.2
    exact ⟨⟨h.1, h1⟩, h2⟩

/-- **X2-N.**  Every fault plan.  Split any covered history at any point: if after `ops₁` the key `k ≠ []` is
tracked with a `FileInfo`, then after `ops₁ ++ ops₂` it still is — with the same `FileInfo` —, and the node at
that path below the location is the same as after `ops₁` (directory timestamps erased) — namely the original. -/
theorem copy_never_overwritten_nested_linkfree_partial
    (w0 : World) (hg : N.NGood bk hk dd w0.fs) (hinfos : w0.infos = []) (htyped : BackupTypedN w0.fs bk hk)
    (ops₁ ops₂ : List Op)
    (hcov : N.CoveredHist (N.nestedCfg bk hk) (N.nSim bk hk dd hr) w0 (ops₁ ++ ops₂)) :
    ∀ k i, PKey k → k ≠ [] → (runOps (N.nestedCfg bk hk) w0 ops₁).infos.lookup (kp k) = some (some i) →
      (runOps (N.nestedCfg bk hk) w0 (ops₁ ++ ops₂)).infos.lookup (kp k) = some (some i) ∧
      ((runOps (N.nestedCfg bk hk) w0 (ops₁ ++ ops₂)).fs.get (bk ++ hk ++ k)).map eraseMt =
        ((runOps (N.nestedCfg bk hk) w0 ops₁).fs.get (bk ++ hk ++ k)).map eraseMt ∧
      ((runOps (N.nestedCfg bk hk) w0 ops₁).fs.get (bk ++ hk ++ k)).map eraseMt = (w0.fs.get (bk ++ k)).map eraseMt := by
  intro k i hpk hk' hts
  obtain ⟨hc1, hc2⟩ := coveredHist_appendN ops₁ ops₂ w0 hcov
  have h1 := exactness_invariant_after_history_nested bk hk dd hr w0 hg hinfos htyped ops₁ hc1
  have h2 := N.history_keepsX ops₂ _ h1.inv hc2
  have hvis := tracked_with_info_is_visible_nested bk hk dd hr w0 hg hinfos ops₁ hc1 k i hpk hts
  rw [runOps_append]
  have hex1 := h1.inv.x.exact k i hpk hk' hts
  have hts' := h2.mono _ _ hts
  have hex2 := h2.inv.x.exact k i hpk hk' hts'
  refine ⟨hts', hex2.trans hex1.symm, ?_⟩
  rw [← N.nview_base_vis (bk := bk) (m := w0.fs) hvis]
  exact hex1

/-- X2-N for regular files, without any erasure: the very same node (content, mode, owner, mtime) -/
theorem file_copy_never_overwritten_nested_linkfree_partial
    (w0 : World) (hg : N.NGood bk hk dd w0.fs) (hinfos : w0.infos = [])
    (hempty : ∀ k, k ≠ [] → w0.fs.get (bk ++ hk ++ k) = none) (ops₁ ops₂ : List Op)
    (hcov : N.CoveredHist (N.nestedCfg bk hk) (N.nSim bk hk dd hr) w0 (ops₁ ++ ops₂)) :
    ∀ k i c mt, k ≠ [] → (runOps (N.nestedCfg bk hk) w0 ops₁).infos.lookup (kp k) = some (some i) →
      w0.fs.get (bk ++ k) = some (.file c mt) →
      (runOps (N.nestedCfg bk hk) w0 ops₁).fs.get (bk ++ hk ++ k) = some (.file c mt) ∧
      (runOps (N.nestedCfg bk hk) w0 (ops₁ ++ ops₂)).fs.get (bk ++ hk ++ k) = some (.file c mt) := by
  intro k i c mt hk' hts horig
  have hpk : PKey k := (hg.os.pkey _ _ horig).right
  obtain ⟨_, h21, h10⟩ := copy_never_overwritten_nested_linkfree_partial bk hk dd hr w0 hg hinfos
    (backupTypedN_of_empty hempty) ops₁ ops₂ hcov k i hpk hk' hts
  rw [horig] at h10
  have h1 := map_erase_fileN h10
  rw [h1] at h21
  exact ⟨h1, map_erase_fileN h21⟩

/-! ### X3-N — the location holds nothing but exact copies (healthy filesystem) -/

/-- **X3-N.**  Healthy filesystem (`faults = []`), location empty at the start, any covered history: every entry
below the location sits at the path of an original OUTSIDE the location that is tracked with a `FileInfo`
describing it exactly, and IS that original (type, content, mode, owner, file mtime; directory timestamps erased).
In particular the location never holds a copy of (anything in) itself. -/
theorem backup_holds_only_exact_copies_nested_linkfree_partial
    (w0 : World) (hg : N.NGood bk hk dd w0.fs) (hinfos : w0.infos = []) (hnf : w0.faults = [])
    (hempty : ∀ k, k ≠ [] → w0.fs.get (bk ++ hk ++ k) = none) (ops : List Op)
    (hcov : N.CoveredHist (N.nestedCfg bk hk) (N.nSim bk hk dd hr) w0 ops) :
    ∀ j, j ≠ [] → (runOps (N.nestedCfg bk hk) w0 ops).fs.get (bk ++ hk ++ j) ≠ none →
      ¬ hk <+: j ∧
      ∃ i node, (runOps (N.nestedCfg bk hk) w0 ops).infos.lookup (kp j) = some (some i) ∧
        w0.fs.get (bk ++ j) = some node ∧ InfoFor i (eraseMt node) ∧
        ((runOps (N.nestedCfg bk hk) w0 ops).fs.get (bk ++ hk ++ j)).map eraseMt = some (eraseMt node) := by
  intro j hj hp
  have hB := (N.history_keepsB ops w0 (N.InvB.init (S := N.nSim bk hk dd hr) hg hinfos hnf (nbvX bk hk dd hr)
    (fun k hk' => by
      show (w0.fs.get (bk ++ hk ++ k)).map eraseMt = none
      rw [hempty k hk']; rfl)) hcov).inv
  have hX := exactness_invariant_after_history_nested bk hk dd hr w0 hg hinfos
    (backupTypedN_of_empty hempty) ops hcov
  have hp' : N.nview bk hk .backup (runOps (N.nestedCfg bk hk) w0 ops).fs j ≠ none := by
    show ((runOps (N.nestedCfg bk hk) w0 ops).fs.get (bk ++ hk ++ j)).map eraseMt ≠ none
    intro e; exact hp (Option.map_eq_none_iff.mp e)
  obtain ⟨i, hts⟩ := hB.b.bonly j hj hp'
  have hpk : PKey j := (N.nSim bk hk dd hr).pkey (s := .backup) hB.inv.good hp'
  have hvis := tracked_with_info_is_visible_nested bk hk dd hr w0 hg hinfos ops hcov j i hpk hts
  refine ⟨hvis, ?_⟩
  obtain ⟨n, hn, hfor, _⟩ := hB.inv.ts_node hpk hts
  have hn' : (w0.fs.get (bk ++ j)).map eraseMt = some n := by
    rw [← N.nview_base_vis (bk := bk) (m := w0.fs) hvis]; exact hn
  have hex := hX.inv.x.exact j i hpk hj hts
  cases hraw : w0.fs.get (bk ++ j) with
  | none => rw [hraw] at hn'; cases hn'
  | some node =>
    rw [hraw] at hn'
    simp only [Option.map_some, Option.some.injEq] at hn'
    refine ⟨i, node, hts, rfl, hn' ▸ hfor, ?_⟩
    have : ((runOps (N.nestedCfg bk hk) w0 ops).fs.get (bk ++ hk ++ j)).map eraseMt =
        (w0.fs.get (bk ++ j)).map eraseMt := by
      rw [← N.nview_base_vis (bk := bk) (m := w0.fs) hvis]; exact hex
    rw [this, hraw]; rfl

/-- X3-N for regular files without erasure: a regular file below the location IS the original file of the same
path outside the location -/
theorem backup_file_is_original_nested_linkfree_partial
    (w0 : World) (hg : N.NGood bk hk dd w0.fs) (hinfos : w0.infos = []) (hnf : w0.faults = [])
    (hempty : ∀ k, k ≠ [] → w0.fs.get (bk ++ hk ++ k) = none) (ops : List Op)
    (hcov : N.CoveredHist (N.nestedCfg bk hk) (N.nSim bk hk dd hr) w0 ops) :
    ∀ j c mt, j ≠ [] → (runOps (N.nestedCfg bk hk) w0 ops).fs.get (bk ++ hk ++ j) = some (.file c mt) →
      w0.fs.get (bk ++ j) = some (.file c mt) := by
  intro j c mt hj hf
  obtain ⟨_, i, node, _, horig, _, hex⟩ := backup_holds_only_exact_copies_nested_linkfree_partial bk hk dd hr
    w0 hg hinfos hnf hempty ops hcov j hj (by rw [hf]; simp)
  rw [hf] at hex
  cases node with
  | file c' mt' =>
    simp only [Option.map_some, eraseMt, Option.some.injEq, Node.file.injEq] at hex
    rw [horig, hex.1, hex.2]
  | dir md => simp [eraseMt] at hex
  | link t md => simp [eraseMt] at hex

/-- **What survives of X3-N under every fault plan**: whatever the location holds below its root — exact copies of
tracked originals, and the orphans failed copies left behind — sits at the path of a VISIBLE original of the same
type; nothing is ever written at the path of an entry the transaction created, nor at a path at or below the
location's own name. -/
theorem backup_holds_only_entries_at_paths_of_originals_nested_linkfree_partial
    (w0 : World) (hg : N.NGood bk hk dd w0.fs) (hinfos : w0.infos = [])
    (hempty : ∀ k, k ≠ [] → w0.fs.get (bk ++ hk ++ k) = none) (ops : List Op)
    (hcov : N.CoveredHist (N.nestedCfg bk hk) (N.nSim bk hk dd hr) w0 ops) :
    ∀ j n, j ≠ [] → (runOps (N.nestedCfg bk hk) w0 ops).fs.get (bk ++ hk ++ j) = some n →
      ¬ hk <+: j ∧ ∃ n0, w0.fs.get (bk ++ j) = some n0 ∧ n0.kind = n.kind := by
  intro j n hj hn
  have hX := exactness_invariant_after_history_nested bk hk dd hr w0 hg hinfos
    (backupTypedN_of_empty hempty) ops hcov
  obtain ⟨n0, hn0, hkind⟩ := hX.inv.x.kind j (eraseMt n) hj (by
    show ((runOps (N.nestedCfg bk hk) w0 ops).fs.get (bk ++ hk ++ j)).map eraseMt = _
    rw [hn]; rfl)
  have hvis : ¬ hk <+: j := by
    intro hh
    rw [N.nview_base_hid hh] at hn0; cases hn0
  refine ⟨hvis, ?_⟩
  have hn0' : (w0.fs.get (bk ++ j)).map eraseMt = some n0 := by
    rw [← N.nview_base_vis (bk := bk) (m := w0.fs) hvis]; exact hn0
  cases hraw : w0.fs.get (bk ++ j) with
  | none => rw [hraw] at hn0'; cases hn0'
  | some nb =>
    rw [hraw] at hn0'
    simp only [Option.map_some, Option.some.injEq] at hn0'
    exact ⟨nb, rfl, by rw [← kind_eraseMtN nb, hn0', hkind, kind_eraseMtN]⟩

end

/-! ### non-vacuity on the example disk of Props/C04N.lean

`exDisk`: base root `/b` with the file `/b/f` (mode 0644, mtime the instant 0) and the directory `/b/d`, which is
the backup location INSIDE the base.  History: `Chmod("/f", 0600)`, `Remove("/f")`, and a `Create` below the
location (refused by the sealing HiddenFS). -/

def exOpsXN : List Op := [.chmod "/f".toList 0o600, .remove "/f".toList, .creat "/d/x".toList "hidden"]

def exAfterXN : World := runOps (N.nestedCfg [['b']] [['d']]) { fs := exDisk } exOpsXN

/-- the hypotheses of X1-N … X4-N hold of the example -/
example : N.NGood [['b']] [['d']] [['k']] exDisk ∧
    N.CoveredHist (N.nestedCfg [['b']] [['d']]) (N.nSim [['b']] [['d']] [['k']] Props.C04.nroots_example)
      { fs := exDisk } exOpsXN ∧
    (∀ k, k ≠ [] → exDisk.get ([['b']] ++ [['d']] ++ k) = none) ∧ BackupTypedN exDisk [['b']] [['d']] := by
  refine ⟨⟨osGood_example, ⟨_, rfl⟩⟩, ⟨?_, ?_, ?_, trivial⟩, Props.C07.exDisk_loc_empty,
    backupTypedN_of_empty Props.C07.exDisk_loc_empty⟩
  · show isAbs _ = true; decide
  · show isAbs _ = true ∧ clean _ ≠ rootP; decide
  · show isAbs _ = true; decide

/-- … `/f` is tracked with a `FileInfo`, and (by evaluation of the model) its copy below the location IS the
original: content, mode 0644 (not the 0600 of the `Chmod`), owner, mtime `.old 0`; the base has moved on; nothing
appeared at `/b/d/x` or `/b/d/d`. -/
example :
    (exAfterXN.infos.lookup "/f".toList).isSome = true ∧
    exAfterXN.fs.get [['b'], ['d'], ['f']] = exDisk.get [['b'], ['f']] ∧
    exAfterXN.fs.get [['b'], ['d'], ['f']] = some (.file "hello" { exMeta with mode := 0o644 }) ∧
    exAfterXN.fs.get [['b'], ['f']] = none ∧
    exAfterXN.fs.get [['b'], ['d'], ['x']] = none ∧ exAfterXN.fs.get [['b'], ['d'], ['d']] = none := by
  decide +kernel

/-! ### the witness for X3-N's fault-free hypothesis

`exDiskXN` = the disk `exDiskX` of Props/C02X.lean with the backup location moved INSIDE the base: `/b/s` — a
set-uid + set-gid executable (mode 06755, foreign owner 1000:1000, mtime the instant 12345); `/b/t` — a sticky
directory of gid 5; `/b/t/y` — a file stamped during the case; `/b/d` — the (empty) backup location; `/k` — the
auxiliary directory of the well-formedness class; umask 022. -/

def exDiskXN : MFS where
  get := fun k =>
    if k = [] then some (.dir exMeta)
    else if k = [['b']] then some (.dir exMeta)
    else if k = [['k']] then some (.dir exMeta)
    else if k = [['b'], ['s']] then some (.file "secret" { mode := 0o6755, uid := 1000, gid := 1000, mtime := .old 12345 })
    else if k = [['b'], ['t']] then some (.dir { mode := 0o1777, uid := 0, gid := 5, mtime := .old 7 })
    else if k = [['b'], ['t'], ['y']] then some (.file "why" { mode := 0o600, uid := 1000, gid := 100, mtime := .fresh })
    else if k = [['b'], ['d']] then some (.dir exMeta)
    else none
  dom := [[], [['b']], [['k']], [['b'], ['s']], [['b'], ['t']], [['b'], ['t'], ['y']], [['b'], ['d']]]
  umask := 0o022

theorem exDiskXN_live {k : Key} {n : Node} (h : exDiskXN.get k = some n) :
    k ∈ [[], [['b']], [['k']], [['b'], ['s']], [['b'], ['t']], [['b'], ['t'], ['y']], [['b'], ['d']]] := by
  simp only [exDiskXN] at h
  repeat' split at h
  all_goals first | (cases h; done) | (subst_vars; simp)

theorem osGood_exampleXN : OSGood [['b']] [['k']] exDiskXN := by
  refine ⟨⟨_, rfl⟩, ?_, ?_, ?_, ?_, ⟨_, rfl⟩, ⟨_, rfl⟩, ?_⟩
  · intro k n h
    have := exDiskXN_live h
    simp only [List.mem_cons, List.not_mem_nil, or_false] at this
    rcases this with rfl | rfl | rfl | rfl | rfl | rfl | rfl <;> decide
  · intro k n h
    exact exDiskXN_live h
  · intro k n h
    have := exDiskXN_live h
    simp only [List.mem_cons, List.not_mem_nil, or_false] at this
    rcases this with rfl | rfl | rfl | rfl | rfl | rfl | rfl <;> (cases h; decide)
  · intro k n h hne
    have := exDiskXN_live h
    simp only [List.mem_cons, List.not_mem_nil, or_false] at this
    rcases this with rfl | rfl | rfl | rfl | rfl | rfl | rfl
    · exact absurd rfl hne
    all_goals exact ⟨_, rfl⟩
  · intro k t mt _ h
    have := exDiskXN_live h
    simp only [List.mem_cons, List.not_mem_nil, or_false] at this
    rcases this with rfl | rfl | rfl | rfl | rfl | rfl | rfl <;> cases h

theorem nGood_exampleXN : N.NGood [['b']] [['d']] [['k']] exDiskXN := ⟨osGood_exampleXN, ⟨_, rfl⟩⟩

theorem exDiskXN_loc_empty : ∀ k, k ≠ [] → exDiskXN.get ([['b']] ++ [['d']] ++ k) = none := by
  intro k hk
  cases h : exDiskXN.get ([['b']] ++ [['d']] ++ k) with
  | none => rfl
  | some n =>
    exfalso
    have := exDiskXN_live h
    simp at this
    exact hk this

def exOpsXN2 : List Op := [.chmod "/s".toList 0o600, .remove "/t/y".toList]

/-- the hypotheses hold of this disk too, and on a healthy filesystem the three copies below `/b/d` are exact:
set-id bits, foreign owner and mtime of `/s`; sticky bit and group of `/t`; `/t/y` -/
example : N.NGood [['b']] [['d']] [['k']] exDiskXN ∧
    N.CoveredHist (N.nestedCfg [['b']] [['d']]) (N.nSim [['b']] [['d']] [['k']] Props.C04.nroots_example)
      { fs := exDiskXN } exOpsXN2 ∧
    (let w := runOps (N.nestedCfg [['b']] [['d']]) { fs := exDiskXN } exOpsXN2
     w.fs.get [['b'], ['d'], ['s']] = exDiskXN.get [['b'], ['s']] ∧
     (w.fs.get [['b'], ['d'], ['t']]).map eraseMt = (exDiskXN.get [['b'], ['t']]).map eraseMt ∧
     w.fs.get [['b'], ['d'], ['t'], ['y']] = exDiskXN.get [['b'], ['t'], ['y']] ∧
     w.fs.get [['b'], ['t'], ['y']] = none) := by
  refine ⟨nGood_exampleXN, ⟨?_, ⟨?_, ?_⟩, trivial⟩, by decide +kernel⟩
  · show isAbs _ = true; decide
  · show isAbs _ = true; decide
  · decide

/-- one injected fault: the backup side refuses the `Chmod("/s", 06755)` inside `copyFile` -/
def exFaultXN : List Fault := [⟨⟨.backup, "chmod", ["/s".toList, "3565".toList]⟩, 0⟩]

def exOrphanXN : World :=
  runOps (N.nestedCfg [['b']] [['d']]) { fs := exDiskXN, faults := exFaultXN } [.chmod "/s".toList 0o600]

/-- **The fault-free hypothesis of X3-N is forced** (and so is "tracked" in X1-N), in the nested layering exactly
as in the disjoint one: `Chmod("/s", 0600)` through BackupFS fails, the base is untouched and `/s` is NOT tracked —
yet the location holds `/b/d/s`: right content, right owner, but mode 0755 (set-uid and set-gid bits gone) and a
`fresh` mtime.  An untracked, inexact orphan; it is a regular file at the path of a regular file
(`backup_holds_only_entries_at_paths_of_originals_nested_linkfree_partial`). -/
theorem failed_copy_leaves_inexact_orphan_nested :
    N.CoveredHist (N.nestedCfg [['b']] [['d']]) (N.nSim [['b']] [['d']] [['k']] Props.C04.nroots_example)
      { fs := exDiskXN, faults := exFaultXN } [.chmod "/s".toList 0o600] ∧
    exOrphanXN.infos.lookup "/s".toList = none ∧
    exOrphanXN.fs.get [['b'], ['s']] = exDiskXN.get [['b'], ['s']] ∧
    exOrphanXN.fs.get [['b'], ['d'], ['s']] =
      some (.file "secret" { mode := 0o755, uid := 1000, gid := 1000, mtime := .fresh }) ∧
    exOrphanXN.fs.get [['b'], ['d'], ['s']] ≠ exDiskXN.get [['b'], ['s']] ∧
    (exOrphanXN.trace.filter (fun e => e.failed)).length = 1 := by
  refine ⟨⟨?_, trivial⟩, ?_⟩
  · show isAbs _ = true; decide
  · decide +kernel

/-- retrying the operation on a healthy filesystem repairs the orphan, and only then is `/s` recorded — with an
exact copy -/
example :
    let w := runOps (N.nestedCfg [['b']] [['d']]) { exOrphanXN with faults := [] } [.chmod "/s".toList 0o600]
    (w.infos.lookup "/s".toList).isSome = true ∧ w.fs.get [['b'], ['d'], ['s']] = exDiskXN.get [['b'], ['s']] := by
  decide +kernel

/-- a crash plan: the process dies after 13 primitive calls of the example history: `/s` is not tracked, the
partial copy is there; X4-N speaks about tracked keys only -/
example :
    let w := runOps (N.nestedCfg [['b']] [['d']]) { fs := exDiskXN, faults := crashPlan 13 } exOpsXN2
    crashed w = true ∧ w.infos.lookup "/s".toList = none ∧
    w.fs.get [['b'], ['d'], ['s']] = some (.file "secret" { mode := 0o755, uid := 1000, gid := 1000, mtime := .fresh }) ∧
    w.fs.get [['b'], ['s']] = exDiskXN.get [['b'], ['s']] := by
  decide +kernel

end Props.C02
