import Lemmas
import Lemmas.PNLink
import Props.C14D
/-!
# C14 (names) — what PrefixFS reports back never reveals the prefix

`Props.C14`/`C14D` settle which call reaches the underlying filesystem and with which effect.  This
file is about the NAMES that come back: `File.Name()` of handles (prefixfs_file.go `newPrefixFile`),
`FileInfo.Name()` of `Stat`/`Lstat` (prefixfs_file_info.go `newPrefixFileInfo`) — both modelled by
`PrefixFS.reportedName`, applied by `prefixPost` in `prefixFS p inner` — the listings of directory
handles, and `Readlink` (on top of `readlink_no_leak`).  Every statement is for EVERY prefix string
`p` (stored as `mk p = filepath.Clean p`), every name string and every inner filesystem `inner` over
any state type that reports names derived from the paths it was given (`ReportsGivenNames`, proved
of the OS model `osfs`).

Vocabulary (`Lemmas/PNName.lean`): `rootedName n = join "/" (clean n)` — the cleaned, rooted form of
the caller's name; `HasComp pre` — the stored prefix has at least one component (it is neither `/`
nor `.`); `Mentions pre s` — the component sequence of `pre` occurs contiguously among the
components of `s` (so in particular: is a component-wise prefix of it).
-/
namespace Props.C14
open BFS BFS.D BFS.PrefixFS
open BFS.PN hiding rerooted

theorem rerooted_eq (pre : Path) (c : Call) : PN.rerooted pre c = rerooted pre c := rfl

/-- the path the base call is given for the entry a call returns a handle or info of -/
theorem rerooted_primaryPath (pre : Path) (c : Call) :
    (rerooted pre c).primaryPath = join pre (clean c.primaryPath) := primaryPath_rerooted pre c

/-! ## 1. `File.Name()` -/

/-- N14.1 `File.Name()` is the name below the prefix.  For a call through PrefixFS (prefix with at
least one component) on names that stay inside which returns a handle (`Open`, `OpenFile`,
`Create`): the handle is the one the inner call at `prefix + cleaned name` returned, renamed; its
name is EXACTLY the cleaned rooted form of the caller's name; joining it below the prefix gives back
the very path the base call was given, so the same PrefixFS reaches the same entry again under the
reported name; and its components are those of the caller's cleaned name — nothing of the prefix
appears that the caller did not spell himself. -/
theorem file_name_is_name_below_prefix {σ} (inner : FSI σ) (hR : ReportsGivenNames inner)
    (p : Path) (hc : HasComp (mk p)) (c : Call) (s s' : σ) (h : Handle)
    (hin : ∀ n ∈ c.accessPaths, StaysInside n)
    (hsym : ∀ o n, c = .symlink o n → isAbs o = false →
      Within (mk p) (join (dir (join (mk p) (clean n))) o))
    (hcall : (prefixFS p inner).call s c = (s', .ok (.handle h))) :
    (∃ h0, inner.call s (rerooted (mk p) c) = (s', .ok (.handle h0)) ∧ h = { h0 with name := h.name }) ∧
    h.name = rootedName c.primaryPath ∧
    join (mk p) h.name = (rerooted (mk p) c).primaryPath ∧
    translate (mk p) (.open_ h.name) = .ok (.open_ (rerooted (mk p) c).primaryPath) ∧
    (cleanC h.name).comps = (cleanC c.primaryPath).comps := by
  have hs := hin _ (primaryPath_mem c)
  have hpc := mk_clean p
  obtain ⟨r0, hc0, hr⟩ := call_inside_inv inner p c s s' _ hin hsym hcall
  obtain ⟨h0, rfl, hh⟩ := post_ret_handle hr
  have hn0 := hR.handle_name _ _ _ _ hc0
  rw [rerooted_eq] at hc0 hn0 hh
  have hname : h.name = rootedName c.primaryPath := by
    rw [hh]
    show reportedName (mk p) _ h0.name = _
    rw [hn0, rerooted_primaryPath]
    exact reportedName_handle hpc hc hs
  refine ⟨⟨h0, hc0, ?_⟩, hname, ?_, ?_, ?_⟩
  · rw [hh]
  · rw [hname, rerooted_primaryPath]
    exact join_rootedName hpc hs
  · rw [hname, rerooted_primaryPath]
    simp only [translate, bind, Except.bind, pure, Except.pure,
      prefixPath_staysInside (pre_ne_nil hpc) (staysInside_rootedName hs)]
    rw [prefixed_rootedName hpc hs]
  · rw [hname, cleanC_rootedName hs]

/-- … in the words of the property: the reported name has the prefix's components as a
(component-wise) prefix — or anywhere inside — only if the caller's own name has -/
theorem file_name_reveals_nothing {σ} (inner : FSI σ) (hR : ReportsGivenNames inner)
    (p : Path) (hc : HasComp (mk p)) (c : Call) (s s' : σ) (h : Handle)
    (hin : ∀ n ∈ c.accessPaths, StaysInside n)
    (hsym : ∀ o n, c = .symlink o n → isAbs o = false →
      Within (mk p) (join (dir (join (mk p) (clean n))) o))
    (hcall : (prefixFS p inner).call s c = (s', .ok (.handle h))) :
    ((cleanC (mk p)).comps <+: (cleanC h.name).comps → (cleanC (mk p)).comps <+: (cleanC c.primaryPath).comps) ∧
    (Mentions (mk p) h.name → Mentions (mk p) c.primaryPath) := by
  have h5 := (file_name_is_name_below_prefix inner hR p hc c s s' h hin hsym hcall).2.2.2.2
  unfold Mentions
  rw [h5]
  exact ⟨id, id⟩

/-- N14.1′ the known oddity, prefix `/` (`mk p = "/"`): the handle's name is the cleaned rooted name
WITHOUT its leading separator (`x` for `/x`; the root itself is `/`).  It is still a name under
which the same PrefixFS reaches the same entry. -/
theorem file_name_root_prefix {σ} (inner : FSI σ) (hR : ReportsGivenNames inner)
    (p : Path) (hroot : mk p = rootP) (c : Call) (s s' : σ) (h : Handle)
    (hin : ∀ n ∈ c.accessPaths, StaysInside n)
    (hsym : ∀ o n, c = .symlink o n → isAbs o = false →
      Within (mk p) (join (dir (join (mk p) (clean n))) o))
    (hcall : (prefixFS p inner).call s c = (s', .ok (.handle h))) :
    h.name = (if (cleanC c.primaryPath).comps = [] then rootP else joinSep (cleanC c.primaryPath).comps) ∧
    (cleanC h.name).comps = (cleanC c.primaryPath).comps ∧
    join (mk p) h.name = (rerooted (mk p) c).primaryPath := by
  have hs := hin _ (primaryPath_mem c)
  obtain ⟨r0, hc0, hr⟩ := call_inside_inv inner p c s s' _ hin hsym hcall
  obtain ⟨h0, rfl, hh⟩ := post_ret_handle hr
  have hn0 := hR.handle_name _ _ _ _ hc0
  rw [rerooted_eq] at hc0 hn0 hh
  have hname : h.name = (if (cleanC c.primaryPath).comps = [] then rootP
      else joinSep (cleanC c.primaryPath).comps) := by
    rw [hh]
    show reportedName (mk p) _ h0.name = _
    rw [hn0, rerooted_primaryPath, hroot]
    exact reportedName_handle_rootprefix hs
  have hcomps : (cleanC h.name).comps = (cleanC c.primaryPath).comps := by
    rw [hname]
    by_cases hn : (cleanC c.primaryPath).comps = []
    · rw [if_pos hn, hn]; decide
    · rw [if_neg hn]
      have : joinSep (cleanC c.primaryPath).comps = CPath.render ⟨false, (cleanC c.primaryPath).comps⟩ :=
        (render_unrooted hn).symm
      rw [this, cleanC_render]
      have hcan := cleanC_canon c.primaryPath
      exact { ok := hcan.ok, lead := hcan.lead, rootedNoDD := by intro e; cases e }
  refine ⟨hname, hcomps, ?_⟩
  rw [rerooted_primaryPath, hroot]
  have hne : rootP ≠ [] := by decide
  have hsn : StaysInside h.name := by unfold StaysInside; rw [hcomps]; exact hs
  have hcl : clean h.name = h.name := by
    rw [hname]
    by_cases hn : (cleanC c.primaryPath).comps = []
    · rw [if_pos hn]; decide
    · rw [if_neg hn]
      have : joinSep (cleanC c.primaryPath).comps = CPath.render ⟨false, (cleanC c.primaryPath).comps⟩ :=
        (render_unrooted hn).symm
      rw [this]
      unfold clean
      rw [cleanC_render]
      have hcan := cleanC_canon c.primaryPath
      exact { ok := hcan.ok, lead := hcan.lead, rootedNoDD := by intro e; cases e }
  have h1 : join rootP (clean h.name) = join rootP (clean c.primaryPath) := by
    apply eq_of_cleanC_eq (join_clean_is_clean _ _ hne) (join_clean_is_clean _ _ hne)
    rw [cleanC_join_clean hne hsn, cleanC_join_clean hne hs, hcomps]
  rw [hcl] at h1
  exact h1

/-! ## 2. `FileInfo.Name()` of `Stat` / `Lstat` -/

/-- N14.2a `Stat`/`Lstat` of the prefix root (any spelling that cleans to the root: `/`, ``, `.`,
`//.`, …) report the name `/` — for EVERY prefix and whatever the inner filesystem reports (which for
package `os` is the last component of the prefix). -/
theorem root_info_name_is_separator {σ} (inner : FSI σ) (p n : Path) (c : Call)
    (hc : c = .stat n ∨ c = .lstat n) (hroot : (cleanC n).comps = []) (s s' : σ) (i : Info)
    (hcall : (prefixFS p inner).call s c = (s', .ok (.info i))) : i.name = rootP := by
  have hs := staysInside_of_comps_nil hroot
  have hin : ∀ x ∈ c.accessPaths, StaysInside x := by
    rcases hc with rfl | rfl <;> simpa [Call.accessPaths] using hs
  have hsym : ∀ o x, c = .symlink o x → isAbs o = false →
      Within (mk p) (join (dir (join (mk p) (clean x))) o) := by
    rcases hc with rfl | rfl <;> (intro o x e; cases e)
  obtain ⟨r0, _, hr⟩ := call_inside_inv inner p c s s' _ hin hsym hcall
  obtain ⟨i0, rfl, hi⟩ := post_ret_info_stat
    (by rcases hc with rfl | rfl; exact Or.inl ⟨n, rfl⟩; exact Or.inr ⟨n, rfl⟩) hr
  rw [hi]
  show reportedInfoName (mk p) _ i0.name = _
  have hp : (PN.rerooted (mk p) c).primaryPath = join (mk p) (clean n) := by
    rcases hc with rfl | rfl <;> rfl
  rw [hp]
  exact reportedInfoName_root (mk_clean p) hroot _

/-- N14.2b for every other name that stays inside, the `FileInfo` is EXACTLY the one the inner
filesystem returned for `prefix + cleaned name` — its name, the base of the cleaned name, included —
for EVERY prefix, relative ones included (since the repair of defect D26: `newPrefixFileInfo` used to
apply the handle-name override — a string-prefix test — to the BASE name as well, which trimmed the
names of entries below a one-component relative prefix: `relative_prefix_info_name_trimmed` records
what the old code computed). -/
theorem info_name_is_base {σ} (inner : FSI σ) (hR : ReportsGivenNames inner)
    (p n : Path) (c : Call)
    (hc : c = .stat n ∨ c = .lstat n) (hs : StaysInside n) (hn : (cleanC n).comps ≠ [])
    (s s' : σ) (i : Info)
    (hcall : (prefixFS p inner).call s c = (s', .ok (.info i))) :
    inner.call s (rerooted (mk p) c) = (s', .ok (.info i)) ∧
    i.name = base (clean n) ∧ i.name = (cleanC n).comps.getLast hn := by
  have hin : ∀ x ∈ c.accessPaths, StaysInside x := by
    rcases hc with rfl | rfl <;> simpa [Call.accessPaths] using hs
  have hsym : ∀ o x, c = .symlink o x → isAbs o = false →
      Within (mk p) (join (dir (join (mk p) (clean x))) o) := by
    rcases hc with rfl | rfl <;> (intro o x e; cases e)
  obtain ⟨r0, hc0, hr⟩ := call_inside_inv inner p c s s' _ hin hsym hcall
  obtain ⟨i0, rfl, hi⟩ := post_ret_info_stat
    (by rcases hc with rfl | rfl; exact Or.inl ⟨n, rfl⟩; exact Or.inr ⟨n, rfl⟩) hr
  have hn0 := hR.info_name _ _ _ _ hc0
  have hp : (PN.rerooted (mk p) c).primaryPath = join (mk p) (clean n) := by
    rcases hc with rfl | rfl <;> rfl
  rw [hp] at hn0 hi
  have hname : reportedInfoName (mk p) (join (mk p) (clean n)) i0.name = i0.name :=
    reportedInfoName_info (mk_clean p) hs hn _
  have hii : i = i0 := by
    rw [hi]
    show ({ i0 with name := reportedInfoName (mk p) (join (mk p) (clean n)) i0.name } : Info) = i0
    rw [hname]
  subst hii
  refine ⟨hc0, ?_, ?_⟩
  · rw [hn0, base_prefixed (mk_clean p) hs hn, base_clean hn]
  · rw [hn0, base_prefixed (mk_clean p) hs hn]

/-! ## 3. listings and the other handle primitives -/

/-- N14.3 `Readdirnames` (and reading, writing) through a handle returned by PrefixFS — for ANY name
— is the inner filesystem's primitive on the handle the inner call returned: entry names come back
unchanged. -/
theorem listing_names_unchanged {σ} (inner : FSI σ) (hB : NameBlind inner)
    (p : Path) (c : Call) (s s' : σ) (h : Handle)
    (hcall : (prefixFS p inner).call s c = (s', .ok (.handle h))) :
    ∃ c' h0, translate (mk p) c = .ok c' ∧ inner.call s c' = (s', .ok (.handle h0)) ∧
      ∀ s2, (prefixFS p inner).hreaddirnames s2 h = inner.hreaddirnames s2 h0 ∧
        (prefixFS p inner).hread s2 h = inner.hread s2 h0 ∧
        ∀ off d, (prefixFS p inner).hwrite s2 h off d = inner.hwrite s2 h0 off d := by
  obtain ⟨c', r0, ht, hc0, hr⟩ := call_ok_inv inner p c s s' _ hcall
  obtain ⟨h0, rfl, hh⟩ := post_ret_handle hr
  refine ⟨c', h0, ht, hc0, fun s2 => ⟨?_, ?_, fun off d => ?_⟩⟩
  · rw [prefixFS_hreaddirnames, hh]; exact hB.readdirnames _ _ _
  · rw [prefixFS_hread, hh]; exact hB.read _ _ _
  · rw [prefixFS_hwrite, hh]; exact hB.write _ _ _ _ _

/-- … over the OS model, on any disk: every listed name is the name of a live entry directly below
the directory the handle stands for — no string derived from a path -/
theorem listing_names_are_entries (p : Path) (m : MFS) (h : Handle) (names : List Name)
    (hl : (prefixFS p osfs).hreaddirnames m h = .ok names) :
    ∀ n ∈ names, (m.get (h.key ++ [n])).isSome :=
  os_listing_entries hl

/-! ## 4. no leak -/

/-- N14.4 the conjunction.  The stored prefix has at least one component and contains a separator
(i.e. it is not `/`, `.`, or a single relative component), the caller's names stay inside and do not
mention the prefix (its component sequence does not occur in theirs).  Then for a successful call of
any of the 16 methods: a returned handle's `Name()` does not mention the prefix, nor does the name of
a `FileInfo` obtained from that handle; the name of the `FileInfo` of `Stat`/`Lstat` does not; and what
`Readlink` returns is the stored target re-rooted by `readlinkPost`, which lies at or below the prefix
path only if the STORED target spelled the prefix twice.  (Listings: `listing_names_unchanged`,
`listing_names_are_entries`.) -/
theorem names_never_contain_prefix_partial {σ} (inner : FSI σ) (hR : ReportsGivenNames inner)
    (p : Path) (hc : HasComp (mk p)) (hsep : '/' ∈ mk p) (c : Call) (s s' : σ) (r : Ret)
    (hin : ∀ n ∈ c.accessPaths, StaysInside n)
    (hnm : ∀ n ∈ c.accessPaths, ¬ Mentions (mk p) n)
    (hsym : ∀ o n, c = .symlink o n → isAbs o = false →
      Within (mk p) (join (dir (join (mk p) (clean n))) o))
    (hcall : (prefixFS p inner).call s c = (s', .ok r)) :
    (∀ h, r = .handle h → ¬ Mentions (mk p) h.name ∧
      ∀ s2 i, (prefixFS p inner).hstat s2 h = .ok i → ¬ Mentions (mk p) i.name) ∧
    (∀ i n, r = .info i → c = .stat n ∨ c = .lstat n → ¬ Mentions (mk p) i.name) ∧
    (∀ t n, r = .str t → c = .readlink n →
      ∃ t0, inner.call s (.readlink (join (mk p) (clean n))) = (s', .ok (.str t0)) ∧
        t = readlinkPost (mk p) t0 ∧
        (Within (mk p) t → ∃ rest, (cleanC t0).comps = (cleanC p).comps ++ ((cleanC p).comps ++ rest))) := by
  have hs := hin _ (primaryPath_mem c)
  have hnm' := hnm _ (primaryPath_mem c)
  refine ⟨?_, ?_, ?_⟩
  · rintro h rfl
    obtain ⟨_, hname, _, _, hcomps⟩ := file_name_is_name_below_prefix inner hR p hc c s s' h hin hsym hcall
    refine ⟨fun hm => hnm' (by unfold Mentions at hm ⊢; rw [← hcomps]; exact hm), ?_⟩
    intro s2 i hst
    rw [prefixFS_hstat] at hst
    have hi := hR.hstat_name _ _ _ hst
    rw [hi, hname]
    by_cases hn : (cleanC c.primaryPath).comps = []
    · rw [base_rootedName_root hn]
      exact not_mentions_root hc
    · rw [base_rootedName hs hn]
      exact fun hm => hnm' (mentions_of_last hc hn hm)
  · rintro i n rfl hcn
    have hpn : c.primaryPath = n := by rcases hcn with rfl | rfl <;> rfl
    rw [hpn] at hs hnm'
    by_cases hn : (cleanC n).comps = []
    · rw [root_info_name_is_separator inner p n c hcn hn s s' i hcall]
      exact not_mentions_root hc
    · rw [(info_name_is_base inner hR p n c hcn hs hn s s' i hcall).2.2]
      exact fun hm => hnm' (mentions_of_last hc hn hm)
  · rintro t n rfl rfl
    obtain ⟨r0, hc0, hr⟩ := call_inside_inv inner p _ s s' _ hin hsym hcall
    obtain ⟨t0, rfl, ht⟩ := post_ret_str_readlink hr
    refine ⟨t0, hc0, ht, ?_⟩
    intro hw
    rw [ht] at hw
    have := readlinkPost_within hw
    unfold mk at this
    rw [cleanC_clean] at this
    exact this

/-! ## 5. `File.Stat().Name()` of the root handle: what the inner handle reports

`prefixFile.Stat()` is `pf.f.Stat()` (prefixfs_file.go), not wrapped by `newPrefixFileInfo`: the
`FileInfo` comes from the INNER handle.  In the model a handle is a record and `layer` hands the
record with the overridden name to the inner `hstat`; for package `os` (`Base` of the handle's name)
the two agree on every handle but the root's, where the inner handle reports the last component of
the prefix.  Candidate finding, see NOTES.md (F1). -/

/-- the inner handle of the prefix root reports `Base(prefix)`: for a prefix with at least one
component, its last component -/
theorem root_handle_inner_stat_reveals_last_component {σ} (inner : FSI σ) (hR : ReportsGivenNames inner)
    (p : Path) (hc : HasComp (mk p)) (c : Call) (s s' : σ) (h0 : Handle)
    (hroot : (cleanC c.primaryPath).comps = [])
    (hcall : inner.call s (rerooted (mk p) c) = (s', .ok (.handle h0))) :
    ∀ s2 i, inner.hstat s2 h0 = .ok i → i.name = (cleanC (mk p)).comps.getLast hc := by
  intro s2 i hst
  have hi := hR.hstat_name _ _ _ hst
  have hn0 := hR.handle_name _ _ _ _ hcall
  rw [rerooted_primaryPath, prefixed_root (mk_clean p) hroot] at hn0
  have hb : base (mk p) = (cleanC (mk p)).comps.getLast hc := by
    conv => lhs; rw [pre_eq_render (mk_clean p)]
    exact base_render hc (cleanC_NF _)
  rw [hn0, hb] at hi
  exact hi

/-! ## non-vacuity and witnesses (all kernel-checked by `decide`) -/

/-- the hypotheses on the prefix hold for an absolute prefix and for a relative one with two
components; they fail for `/`, `.` and a single relative component -/
example : HasComp (mk "/r/app".toList) ∧ '/' ∈ mk "/r/app".toList ∧
    HasComp (mk "rel/sub".toList) ∧ '/' ∈ mk "rel/sub".toList ∧
    ¬ HasComp (mk "/".toList) ∧ ¬ HasComp (mk ".".toList) ∧ ¬ HasComp (mk "".toList) ∧
    HasComp (mk "rel".toList) ∧ '/' ∉ mk "rel".toList := by decide

/-- the names of the non-vacuity list stay inside and do not mention the prefix; `/r/app/x` does -/
example : (∀ n ∈ ["/x".toList, "//x/./y".toList, "/".toList, "".toList, ".".toList],
      StaysInside n ∧ ¬ Mentions (mk "/r/app".toList) n) ∧
    Mentions (mk "/r/app".toList) "/r/app/x".toList ∧ Mentions (mk "/r/app".toList) "q/r/app".toList := by
  decide

/-- `reportedName` for handles (the base reports the prefixed path), prefix `/r/app` -/
example :
    let pre := mk "/r/app".toList
    let nm := fun (n : String) => reportedName pre (join pre (clean n.toList)) (join pre (clean n.toList))
    nm "/x" = "/x".toList ∧ nm "//x/./y" = "/x/y".toList ∧ nm "/" = "/".toList ∧ nm "" = "/".toList ∧
      nm "." = "/".toList ∧ nm "a/../b" = "/b".toList := by decide

/-- `reportedName` for infos (the base reports `Base` of the prefixed path), prefix `/r/app` -/
example :
    let pre := mk "/r/app".toList
    let nm := fun (n : String) => reportedName pre (join pre (clean n.toList)) (base (join pre (clean n.toList)))
    nm "/x" = "x".toList ∧ nm "//x/./y" = "y".toList ∧ nm "/" = "/".toList ∧ nm "" = "/".toList ∧
      nm "." = "/".toList ∧ base (join pre (clean "/".toList)) = "app".toList := by decide

/-- a relative prefix with two components behaves like an absolute one -/
example :
    let pre := mk "rel/sub".toList
    join pre (clean "//x/./y".toList) = "rel/sub/x/y".toList ∧
    reportedName pre (join pre (clean "//x/./y".toList)) (join pre (clean "//x/./y".toList)) = "/x/y".toList ∧
    reportedName pre (join pre (clean "//x/./y".toList)) (base (join pre (clean "//x/./y".toList))) = "y".toList ∧
    reportedName pre (join pre (clean ".".toList)) (base (join pre (clean ".".toList))) = "/".toList := by decide

/-- WITNESS, prefix `/` (known oddity, `file_name_root_prefix`): the handle of `/x` is named `x`,
of `/a/b` `a/b`; `Stat` is not affected -/
theorem root_prefix_handle_name_unrooted :
    let pre := mk "/".toList
    reportedName pre (join pre (clean "/x".toList)) (join pre (clean "/x".toList)) = "x".toList ∧
    reportedName pre (join pre (clean "/a//b".toList)) (join pre (clean "/a//b".toList)) = "a/b".toList ∧
    reportedName pre (join pre (clean "/".toList)) (join pre (clean "/".toList)) = "/".toList ∧
    reportedName pre (join pre (clean "/a/b".toList)) (base (join pre (clean "/a/b".toList))) = "b".toList := by
  decide

/-- WITNESS of defect D26 (repaired): what the HANDLE-name override computes when it is applied to a
BASE name, as `newPrefixFileInfo` used to do: with the relative prefix `rel` the `FileInfo` of `/relx`
was named `x` — `HasPrefix(baseName, prefix)` fires on the base name; and with `aa` below prefix `a`
the reported name was the prefix's own component -/
theorem relative_prefix_info_name_trimmed :
    (let pre := mk "rel".toList
     base (join pre (clean "/relx".toList)) = "relx".toList ∧
     reportedName pre (join pre (clean "/relx".toList)) (base (join pre (clean "/relx".toList))) = "x".toList) ∧
    (let pre := mk "a".toList
     ¬ Mentions pre "/aa".toList ∧
     Mentions pre (reportedName pre (join pre (clean "/aa".toList)) (base (join pre (clean "/aa".toList))))) ∧
    (let pre := mk "..".toList
     reportedName pre (join pre (clean "/..x".toList)) (base (join pre (clean "/..x".toList))) = "x".toList) := by
  decide

/-- WITNESS (forces `HasComp` in `file_name_is_name_below_prefix`), prefix `.`: the handle of `/.x`
is named `x`, which reaches another entry (`join "." "x" = "x" ≠ ".x"`); names are unrooted -/
theorem dot_prefix_handle_name_trimmed :
    let pre := mk ".".toList
    join pre (clean "/.x".toList) = ".x".toList ∧
    reportedName pre (join pre (clean "/.x".toList)) (join pre (clean "/.x".toList)) = "x".toList ∧
    join pre "x".toList ≠ join pre (clean "/.x".toList) ∧
    reportedName pre (join pre (clean "/a/b".toList)) (join pre (clean "/a/b".toList)) = "a/b".toList := by
  decide

/-- WITNESS against cutting behind the LAST occurrence of the prefix (`LastIndex` instead of
`HasPrefix`/`TrimPrefix`): prefix `/data`, caller's name `/data/x`, base path `/data/data/x`.  The
model reports `/data/x` (= `rootedName`, as `file_name_is_name_below_prefix` demands); the answer
`/x` of the variant violates both the exact clause and the reach-again clause. -/
theorem first_not_last_occurrence :
    let pre := mk "/data".toList
    let fp := join pre (clean "/data/x".toList)
    fp = "/data/data/x".toList ∧
    reportedName pre fp fp = "/data/x".toList ∧
    rootedName "/data/x".toList = "/data/x".toList ∧
    "/x".toList ≠ rootedName "/data/x".toList ∧
    join pre "/x".toList ≠ fp ∧ join pre "/data/x".toList = fp ∧
    (cleanC "/x".toList).comps ≠ (cleanC "/data/x".toList).comps := by
  decide

/-! ### through the OS model: the disk of `Lemmas/SimOS.lean` (`/b/f` a file, `/b/d` a directory),
prefix `/b`.  `reportsGivenNames_osfs` and `nameBlind_osfs` discharge the assumptions. -/

example : ReportsGivenNames osfs ∧ NameBlind osfs := ⟨reportsGivenNames_osfs, nameBlind_osfs⟩

/-- handles: `Open("//f/.")` is named `/f`, `Open("")`, `Open(".")`, `Open("/")` are named `/` -/
example :
    let fs := prefixFS "/b".toList osfs
    (fs.call exDisk (.open_ "//f/.".toList)).2 =
      .ok (.handle { key := [['b'], ['f']], name := "/f".toList, isDir := false, flag := 0 }) ∧
    (fs.call exDisk (.open_ "".toList)).2 =
      .ok (.handle { key := [['b']], name := "/".toList, isDir := true, flag := 0 }) ∧
    (fs.call exDisk (.open_ ".".toList)).2 =
      .ok (.handle { key := [['b']], name := "/".toList, isDir := true, flag := 0 }) ∧
    (fs.call exDisk (.open_ "/".toList)).2 =
      .ok (.handle { key := [['b']], name := "/".toList, isDir := true, flag := 0 }) := by decide

/-- infos: `Stat`/`Lstat` of the root are named `/` (the OS reports `b`), of `/d/` `d` -/
example :
    let fs := prefixFS "/b".toList osfs
    ((fs.call exDisk (.stat "/".toList)).2.map fun | .info i => i.name | _ => []) = .ok "/".toList ∧
    ((fs.call exDisk (.lstat ".".toList)).2.map fun | .info i => i.name | _ => []) = .ok "/".toList ∧
    ((osCall exDisk (.lstat "/b".toList)).2.map fun | .info i => i.name | _ => []) = .ok "b".toList ∧
    ((fs.call exDisk (.stat "//d/".toList)).2.map fun | .info i => i.name | _ => []) = .ok "d".toList := by
  decide

/-- listings: the root handle lists `d`, `f` -/
example :
    (prefixFS "/b".toList osfs).hreaddirnames exDisk
      { key := [['b']], name := "/".toList, isDir := true, flag := 0 } = .ok [['d'], ['f']] := by decide

/-- WITNESS for section 5 (candidate finding F1): through prefix `/b`, the handle of the root is named
`/` and the MODEL's `File.Stat` on it reports `/`, but the handle the inner filesystem returned — the
one `prefixFile.Stat()` delegates to in the Go code — reports `b`, the last component of the prefix -/
theorem root_handle_stat_model_vs_inner :
    let fs := prefixFS "/b".toList osfs
    let h : Handle := { key := [['b']], name := "/".toList, isDir := true, flag := 0 }
    let h0 : Handle := { key := [['b']], name := "/b".toList, isDir := true, flag := 0 }
    (fs.call exDisk (.open_ "/".toList)).2 = .ok (.handle h) ∧
    (osCall exDisk (.open_ "/b".toList)).2 = .ok (.handle h0) ∧
    (fs.hstat exDisk h).map (·.name) = .ok "/".toList ∧
    (osfs.hstat exDisk h0).map (·.name) = .ok "b".toList := by decide

/-- the hypotheses of `file_name_is_name_below_prefix` are satisfiable together: a concrete successful
`Open("//f/.")` through prefix `/b` over the OS model -/
example : ∃ (m' : MFS) (h : Handle),
    (prefixFS "/b".toList osfs).call exDisk (.open_ "//f/.".toList) = (m', .ok (.handle h)) ∧
    HasComp (mk "/b".toList) ∧ '/' ∈ mk "/b".toList ∧
    (∀ n ∈ (Call.open_ "//f/.".toList).accessPaths, StaysInside n ∧ ¬ Mentions (mk "/b".toList) n) :=
  ⟨_, { key := [['b'], ['f']], name := "/f".toList, isDir := false, flag := 0 },
    Prod.ext rfl (by decide), by decide⟩

/-- first versus last occurrence through the OS model: after `Mkdir("/b")` through prefix `/b` (the
directory `/b/b` on disk), `Create("/b/x")` works on `/b/b/x` and the handle is named `/b/x` -/
theorem first_not_last_occurrence_os :
    let fs := prefixFS "/b".toList osfs
    let m1 := (fs.call exDisk (.mkdir "/b".toList 0o755)).1
    (fs.call m1 (.create "/b/x".toList)).2 =
      .ok (.handle { key := [['b'], ['b'], ['x']], name := "/b/x".toList, isDir := false,
                     flag := O_RDWR ||| O_CREATE ||| O_TRUNC }) := by decide

end Props.C14
