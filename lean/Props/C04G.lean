import Lemmas.NGSub
import Props.C04L
import Lemmas.GEx
/-!
# C04 / C01 (nested layering, names through flat symlinks) — Rollback restores the visible base exactly

Setting: that of `Props.C04.rollback_restores_nested_symlink_leaves_partial` (Props/C04L.lean) — the
documented layering `N.nestedCfg bk hk = NewWithFS (PrefixFS (kp bk) osfs) (kp hk)` over the OS model,
every well-formed disk with symlinks anywhere, the location `bk ++ hk` an existing directory, healthy
filesystems, any number of consecutive transactions, in each any finite history of covered operations —
but the names of the operations **may pass through symlinked directories**.  After Rollback every
VISIBLE entry of the base below its root (every key `k ≠ []` not at or below `hk`) is what it was before
the first operation (`L.eraseV`: same set of paths, types, contents, permission bits, owners, file
modification times, link target texts).

"Covered" (`NL.G.Op.Covered bk hk`, Lemmas/NGTx.lean, judged in the state the operation is issued in):
* names are absolute, in any spelling, of any length;
* the VISIBLE links are flat in that state (`NG.FlatN bk hk`, Lemmas/NG16Def.lean: `F16.targetOK` for every
  symlink at or below `bk` that is not at or below `bk ++ hk`; the copies of links the transaction itself
  stores below the location need not be flat; a visible link MAY lead into the location);
* with `r = NG.rkN bk hk w k = NG.resN w.fs bk hk [] k` the key `realPath` returns for the cleaned name's
  key `k` THROUGH THE SEALING HiddenFS (`Props.C16.resolve_exact_flat_links_nested_partial`: outside the
  location it is the disjoint layering's answer; a name entering the location — lexically or through a
  link — resolves to the hidden path, which the base then refuses), the RESOLVED key satisfies what
  `NL.Op.Covered` demands of the cleaned name (see `NL.G.Op.Covered`); no proper ancestor of `r` is a
  symlink in the visible base view — a theorem (`NG.rkN_noLinkAnc`), not a hypothesis;
* read-only operations are unrestricted (they do not resolve and change nothing).
Names whose resolution ends at or below the location need no exclusion: the base refuses them, and what
`prepare` records for them (hidden names as absent) is harmless for Rollback (as in Props/C04L.lean).

Only the history side needed new work: `NG.sat_realPathN` (Lemmas/NG16Loop.lean, every fault plan) supplies
`L.G.ResTo`, from which Lemmas/NGOps.lean (= Lemmas/GOps.lean over the contract `NL.Sim`) re-runs the
operation lemmas of Lemmas/NLOps.lean at the resolved key.  Rollback never resolves names.
-/
namespace Props.C04
open BFS BFS.BackupFS BFS.F16 BFS.NG

/-- T04G.main  Rollback restores every visible entry of the base — nested layering, operations whose
names pass through FLAT visible symlinks, any number of transactions (see the header for "covered"). -/
theorem rollback_restores_nested_through_flat_links_partial (bk hk dd : Key) (hr : N.NRoots bk hk dd)
    (w : World) (hg : L.OSGoodL bk dd w.fs) (hloc : ∃ mt, w.fs.get (bk ++ hk) = some (.dir mt))
    (hinfos : w.infos = []) (hnf : w.faults = [])
    (hbl : BackupLinksBelowBase bk hk w.fs)
    (txs : List (List Op))
    (hcov : NL.G.CoveredTxs (N.nestedCfg bk hk) bk hk (NL.nlSim bk hk dd hr) w txs) :
    ∀ k, k ≠ [] → ¬ hk <+: k →
      ((txs.foldl (runTx (N.nestedCfg bk hk)) w).fs.get (bk ++ k)).map (L.eraseV (kp bk)) =
        (w.fs.get (bk ++ k)).map (L.eraseV (kp bk)) := by
  intro k hk' hvis
  have := NL.G.txs_restore (hr := hr) txs w ⟨hg, hloc⟩ hinfos hnf (backupLinksOK_of hbl) hcov k hk'
  rw [nlview_base_visible hvis, nlview_base_visible hvis] at this
  exact this

/-- the same when the backup location holds no symlink at the start (e.g. is empty) -/
theorem rollback_restores_nested_through_flat_links_clean_backup_partial (bk hk dd : Key) (hr : N.NRoots bk hk dd)
    (w : World) (hg : L.OSGoodL bk dd w.fs) (hloc : ∃ mt, w.fs.get (bk ++ hk) = some (.dir mt))
    (hinfos : w.infos = []) (hnf : w.faults = [])
    (hbl : ∀ k t mt, w.fs.get (bk ++ (hk ++ k)) ≠ some (.link t mt))
    (txs : List (List Op))
    (hcov : NL.G.CoveredTxs (N.nestedCfg bk hk) bk hk (NL.nlSim bk hk dd hr) w txs) :
    ∀ k, k ≠ [] → ¬ hk <+: k →
      ((txs.foldl (runTx (N.nestedCfg bk hk)) w).fs.get (bk ++ k)).map (L.eraseV (kp bk)) =
        (w.fs.get (bk ++ k)).map (L.eraseV (kp bk)) :=
  rollback_restores_nested_through_flat_links_partial bk hk dd hr w hg hloc hinfos hnf
    (fun k ⟨t, mt, h⟩ => absurd h (hbl k t mt)) txs hcov

/-- T04G.after  the location survives and the start conditions hold again after a transaction -/
theorem nested_wellformed_after_through_flat_links (bk hk dd : Key) (hr : N.NRoots bk hk dd)
    (w : World) (hg : NL.NLGood bk hk dd w.fs) (hinfos : w.infos = []) (hnf : w.faults = [])
    (hbl : BackupLinksBelowBase bk hk w.fs)
    (ops : List Op) (hcov : NL.G.CoveredHist (N.nestedCfg bk hk) bk hk (NL.nlSim bk hk dd hr) w ops) :
    NL.NLGood bk hk dd (runTx (N.nestedCfg bk hk) w ops).fs ∧ (runTx (N.nestedCfg bk hk) w ops).infos = [] ∧
      (runTx (N.nestedCfg bk hk) w ops).faults = [] ∧
      BackupLinksBelowBase bk hk (runTx (N.nestedCfg bk hk) w ops).fs := by
  obtain ⟨g, i, f, b, _⟩ := NL.G.tx_restores (hr := hr) hg hinfos hnf (backupLinksOK_of hbl) ops hcov
  refine ⟨g, i, f, ?_⟩
  intro k hl
  exact isLinkAt_nlview_base.mp (b k (isLinkAt_nlview_backup.mpr hl))

/-- T04G.inv  after any covered history through flat visible links — whatever failed, whatever the fault
plan — the transaction invariant (`NL.Inv`) holds. -/
theorem nested_invariant_after_history_through_flat_links (bk hk dd : Key) (hr : N.NRoots bk hk dd)
    (w : World) (hg : NL.NLGood bk hk dd w.fs) (hinfos : w.infos = [])
    (hbl : BackupLinksBelowBase bk hk w.fs) (ops : List Op)
    (hcov : NL.G.CoveredHist (N.nestedCfg bk hk) bk hk (NL.nlSim bk hk dd hr) w ops) :
    NL.Inv (NL.nlSim bk hk dd hr) (NL.nlview bk hk .base w.fs) (runOps (N.nestedCfg bk hk) w ops) :=
  (NL.G.history_keeps (hr := hr) ops w
    (NL.Inv.init (S := NL.nlSim bk hk dd hr) hg hinfos (backupLinksOK_of hbl)) hcov).inv

/-- T04G.faults  whatever the fault plan did to the operations of a covered history through flat visible
links (a planned fault makes a primitive return EIO; `realPath` then fails instead of mis-resolving), once
the filesystems are healthy again Rollback restores the visible base. -/
theorem later_rollback_still_restores_nested_through_flat_links_partial (bk hk dd : Key) (hr : N.NRoots bk hk dd)
    (w : World) (hg : NL.NLGood bk hk dd w.fs) (hinfos : w.infos = [])
    (hbl : BackupLinksBelowBase bk hk w.fs) (ops : List Op)
    (hcov : NL.G.CoveredHist (N.nestedCfg bk hk) bk hk (NL.nlSim bk hk dd hr) w ops) :
    ∀ k, k ≠ [] → ¬ hk <+: k →
      ((rollback (N.nestedCfg bk hk) { runOps (N.nestedCfg bk hk) w ops with faults := [] }).1.fs.get (bk ++ k)).map
          (L.eraseV (kp bk)) =
        (w.fs.get (bk ++ k)).map (L.eraseV (kp bk)) := by
  intro k hk' hvis
  have := NL.G.tx_restores_after_faults (hr := hr) hg hinfos (backupLinksOK_of hbl) ops hcov k hk'
  rw [nlview_base_visible hvis, nlview_base_visible hvis] at this
  exact this

/-- T04G.sub  the new fragment CONTAINS the nested symlink-leaves fragment wherever the visible links are
flat: when no proper ancestor of the cleaned name is a symlink in the visible base view, `realPath`
resolves the name to itself (`NL.G.rkN_id`). -/
theorem nested_through_flat_links_covers_symlink_leaves (bk hk dd : Key) (hr : N.NRoots bk hk dd)
    (w : World) (hflat : FlatN bk hk w.fs) (op : Op)
    (hc : NL.Op.Covered (NL.nlSim bk hk dd hr) w op) :
    NL.G.Op.Covered bk hk (NL.nlSim bk hk dd hr) w op :=
  NL.G.covered_of_NL hflat hc

/-! ## Non-vacuity: two transactions on a README-like disk with directory links

`gDisk` (base root `/b`, location `/b/d` EMPTY, `/k` another directory; names below relative to the base
root): file `/f`, directory `/e` with file `g` and directory `sub`, file link `/l -> f`, relative
directory link `/m -> e`, absolute directory link `/a -> /b/e` (as `PrefixFS` stores it; read back as
`/e`), and `/into -> d`: a pre-existing link INTO the location.

Transaction 1: `Create("/m/new")` (through `/m`), `Chmod("/a/g")` (through `/a`), `MkdirAll("/m/sub/x/y")`
(two new directories behind the link), `Create("/into/x")` (resolves to the hidden `/d/x`: refused),
`Remove("/m")` (the directory link itself: backed up, removed, not followed); Rollback.
Transaction 2: `Rename("/a/g", "/a/sub/h")` (both names through `/a`), `Mkdir("/into/y")` (refused),
`Symlink("g", "/m/lnk")` (a new link created behind the restored link `/m`); Rollback. -/

def gEntries : List (Key × Node) := [
  ([], .dir exM), ([['b']], .dir exM), ([['k']], .dir exM),
  ([['b'], ['f']], .file "hello" exM),
  ([['b'], ['d']], .dir exM),
  ([['b'], ['e']], .dir exM),
  ([['b'], ['e'], ['g']], .file "g" exM),
  ([['b'], ['e'], "sub".toList], .dir exM),
  ([['b'], ['l']], .link "f".toList exM),
  ([['b'], ['m']], .link "e".toList exM),
  ([['b'], ['a']], .link "/b/e".toList exM),
  ([['b'], "into".toList], .link "d".toList exM)]

def gDisk : MFS := listDisk gEntries

theorem gDisk_good : L.OSGoodL [['b']] [['k']] gDisk := good_of_goodB (by decide +kernel)
theorem gDisk_flatN : FlatN [['b']] [['d']] gDisk := by decide +kernel

abbrev cfgNG := N.nestedCfg [['b']] [['d']]
abbrev simNG := NL.nlSim [['b']] [['d']] [['k']] nroots_exNL
def wQ0 : World := { fs := gDisk }
def opsQ1 : List Op :=
  [.creat "/m/new".toList "hello", .chmod "/a/g".toList 0o600, .mkdirAll "/m/sub/x/y".toList 0o755,
   .creat "/into/x".toList "boo", .remove "/m".toList]
def opsQ2 : List Op :=
  [.rename "/a/g".toList "/a/sub/h".toList, .mkdir "/into/y".toList 0o755, .symlink "g".toList "/m/lnk".toList]
/-- after the first transaction (Rollback included) -/
def wQ1 := runTx cfgNG wQ0 opsQ1
def wR1 := Op.step cfgNG wQ1 (.rename "/a/g".toList "/a/sub/h".toList)
def wR2 := Op.step cfgNG wR1 (.mkdir "/into/y".toList 0o755)

theorem wQ0_backup_clean : ∀ k t mt, wQ0.fs.get ([['b']] ++ ([['d']] ++ k)) ≠ some (.link t mt) :=
  L.G.listDisk_no_links_below (kk := [['b'], ['d']]) (l := gEntries) (by decide +kernel)

/-- the view of a visible symlink stored with metadata `exM` -/
def lnk (t : String) : Option Node := some (.link t.toList { exM with mode := 0o777, mtime := .fresh })

set_option maxRecDepth 100000 in
theorem txQ1_covered : NL.G.CoveredHist cfgNG [['b']] [['d']] simNG wQ0 opsQ1 := by
  have hK1 : PKey [['m'], "new".toList] := by decide
  have hc1 : clean "/m/new".toList = kp [['m'], "new".toList] := by decide
  have hK2 : PKey [['a'], ['g']] := by decide
  have hc2 : clean "/a/g".toList = kp [['a'], ['g']] := by decide
  have hK3 : PKey [['m'], "sub".toList, ['x'], ['y']] := by decide
  have hc3 : clean "/m/sub/x/y".toList = kp [['m'], "sub".toList, ['x'], ['y']] := by decide
  have hK4 : PKey ["into".toList, ['x']] := by decide
  have hc4 : clean "/into/x".toList = kp ["into".toList, ['x']] := by decide
  have hK5 : PKey [['m']] := by decide
  have hc5 : clean "/m".toList = kp [['m']] := by decide
  refine ⟨?_, ?_, ?_, ?_, ?_, trivial⟩
  · -- Create("/m/new") through the relative directory link /m -> e: resolved /e/new, absent
    exact ⟨by decide, gDisk_flatN, nl_covered_key hK1 hc1
      (NL.G.notLinkAt_of (r := [['e'], "new".toList]) (n := none)
        (by decide +kernel) (by decide +kernel) (by intro t mt h; cases h))⟩
  · -- Chmod("/a/g") through the absolute directory link /a -> /b/e: resolved /e/g, a file
    exact ⟨by decide, by decide +kernel, nl_covered_key hK2 hc2
      (NL.G.notLinkAt_of (r := [['e'], ['g']]) (n := some (.file "g" exM))
        (by decide +kernel) (by decide +kernel) (by intro t mt h; cases h))⟩
  · -- MkdirAll("/m/sub/x/y"): resolved /e/sub/x/y (lexical tail behind the link), absent
    exact ⟨by decide, by decide +kernel, nl_covered_key hK3 hc3
      (NL.G.notLinkAt_of (r := [['e'], "sub".toList, ['x'], ['y']]) (n := none)
        (by decide +kernel) (by decide +kernel) (by intro t mt h; cases h))⟩
  · -- Create("/into/x") through the link INTO the location: resolved to the hidden /d/x (refused by the base)
    exact ⟨by decide, by decide +kernel, nl_covered_key hK4 hc4
      (NL.G.notLinkAt_of (r := [['d'], ['x']]) (n := none)
        (by decide +kernel) (by decide +kernel) (by intro t mt h; cases h))⟩
  · -- Remove("/m"): the directory link itself, resolved /m, a symlink both layers of the base admit
    refine ⟨by decide, by decide, by decide +kernel, nl_covered_key hK5 hc5
      (NL.G.linkOKAt_of (r := [['m']]) (n := lnk "e") (by decide +kernel) (by decide +kernel) ?_)⟩
    intro t mt h
    cases h
    exact ⟨by decide +kernel, by decide +kernel, Or.inr (by decide +kernel)⟩

set_option maxRecDepth 100000 in
theorem txQ2_covered : NL.G.CoveredHist cfgNG [['b']] [['d']] simNG wQ1 opsQ2 := by
  have hKo : PKey [['a'], ['g']] := by decide
  have hco : clean "/a/g".toList = kp [['a'], ['g']] := by decide
  have hKn : PKey [['a'], "sub".toList, ['h']] := by decide
  have hcn : clean "/a/sub/h".toList = kp [['a'], "sub".toList, ['h']] := by decide
  have hKy : PKey ["into".toList, ['y']] := by decide
  have hcy : clean "/into/y".toList = kp ["into".toList, ['y']] := by decide
  have hKl : PKey [['m'], "lnk".toList] := by decide
  have hcl : clean "/m/lnk".toList = kp [['m'], "lnk".toList] := by decide
  refine ⟨?_, ?_, ?_, trivial⟩
  · -- Rename("/a/g", "/a/sub/h"): resolved /e/g (a file) and /e/sub/h (absent)
    refine ⟨by decide, by decide, by decide +kernel, ?_⟩
    intro ko kn hko hkn eo en
    have h1 := kp_inj hko hKo (eo.symm.trans hco)
    have h2 := kp_inj hkn hKn (en.symm.trans hcn)
    subst h1 h2
    have hro : rkN [['b']] [['d']] wQ1 [['a'], ['g']] = [['e'], ['g']] := by decide +kernel
    have hrn : rkN [['b']] [['d']] wQ1 [['a'], "sub".toList, ['h']] = [['e'], "sub".toList, ['h']] := by
      decide +kernel
    have hvo : simNG.view .base wQ1.fs [['e'], ['g']] = some (.file "g" exM) := by decide +kernel
    have hvn : simNG.view .base wQ1.fs [['e'], "sub".toList, ['h']] = none := by decide +kernel
    refine ⟨NL.G.linkOKAt_of hro hvo (by intro t mt h; cases h), NL.G.linkOKAt_of hrn hvn (by intro t mt h; cases h), ?_, ?_⟩
    · rw [hro]; rintro ⟨⟨mt, hd⟩, _⟩; rw [hvo] at hd; cases hd
    · rw [hro]; rintro ⟨t, mt, hl⟩; rw [hvo] at hl; cases hl
  · -- Mkdir("/into/y"): resolved to the hidden /d/y (refused)
    exact ⟨by decide, by decide +kernel, nl_covered_key hKy hcy
      (NL.G.linkOKAt_of (r := [['d'], ['y']]) (n := none) (by decide +kernel) (by decide +kernel)
        (by intro t mt h; cases h))⟩
  · -- Symlink("g", "/m/lnk") behind the restored link /m -> e: resolved /e/lnk, absent, nothing tracked below
    have hrl : rkN [['b']] [['d']] wR2 [['m'], "lnk".toList] = [['e'], "lnk".toList] := by decide +kernel
    have hvl : simNG.view .base wR2.fs [['e'], "lnk".toList] = none := by decide +kernel
    refine ⟨by decide, by decide +kernel, nl_covered_key hKl hcl ⟨NL.G.linkOKAt_of hrl hvl (by intro t mt h; cases h), ?_⟩⟩
    have hnb : NL.NoneBelow wR2 [['e'], "lnk".toList] := NL.G.noneBelow_of_keys
      (ks := [[['e'], "sub".toList, ['h']], [], [['e']], [['e'], "sub".toList], [['e'], ['g']], [['d'], ['y']], [['d']]])
      (by decide +kernel) (by decide) (by decide)
    rw [← hrl] at hnb
    exact hnb

/-- non-vacuity: the hypotheses of `rollback_restores_nested_through_flat_links_clean_backup_partial` hold of
the README-like disk `gDisk` and the two transactions above, in which every mutating operation but one
names its object through a symlinked directory, two of them through a link into the location. -/
example : L.OSGoodL [['b']] [['k']] wQ0.fs ∧ (∃ mt, wQ0.fs.get ([['b']] ++ [['d']]) = some (.dir mt)) ∧
    wQ0.infos = [] ∧ wQ0.faults = [] ∧
    (∀ k t mt, wQ0.fs.get ([['b']] ++ ([['d']] ++ k)) ≠ some (.link t mt)) ∧
    NL.G.CoveredTxs cfgNG [['b']] [['d']] simNG wQ0 [opsQ1, opsQ2] :=
  ⟨gDisk_good, ⟨exM, by decide +kernel⟩, rfl, rfl, wQ0_backup_clean, txQ1_covered, txQ2_covered, trivial⟩

/-- the names really go through links: `realPath` rewrites them, because proper ancestors of the cleaned
names are symlinks on the disk — so none of these operations is covered by `NL.Op.Covered`; and the
resolved key of `/into/x` is at the location -/
example : rkN [['b']] [['d']] wQ0 [['m'], "new".toList] = [['e'], "new".toList] ∧
    rkN [['b']] [['d']] wQ0 [['a'], ['g']] = [['e'], ['g']] ∧
    rkN [['b']] [['d']] wQ0 ["into".toList, ['x']] = [['d'], ['x']] ∧
    (∃ t mt, wQ0.fs.get [['b'], ['m']] = some (.link t mt)) ∧
    (∃ t mt, wQ0.fs.get [['b'], ['a']] = some (.link t mt)) ∧
    (∃ t mt, wQ0.fs.get [['b'], "into".toList] = some (.link t mt)) :=
  ⟨by decide +kernel, by decide +kernel, by decide +kernel, ⟨"e".toList, exM, by decide +kernel⟩,
    ⟨"/b/e".toList, exM, by decide +kernel⟩, ⟨"d".toList, exM, by decide +kernel⟩⟩

/-- what the theorem says about the example, read off the disk: after both transactions every visible
entry is back (checked independently by evaluation for three of them) -/
example : ((([opsQ1, opsQ2].foldl (runTx cfgNG) wQ0).fs.get [['b'], ['e'], ['g']]) = some (.file "g" exM)) ∧
    (([opsQ1, opsQ2].foldl (runTx cfgNG) wQ0).fs.get [['b'], ['e'], "new".toList]) = none ∧
    (([opsQ1, opsQ2].foldl (runTx cfgNG) wQ0).fs.get [['b'], ['e'], "lnk".toList]) = none := by
  decide +kernel

end Props.C04
