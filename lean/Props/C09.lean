import Lemmas
/-!
# C09 — Rollback never reports success unless it restored

In the model `rollback : M Bool` returns whether an error is reported; the Go code wraps every
non-nil result with `errors.Join(ErrRollbackFailed, …)` in a deferred function (checked on the real
error value by the harness).  The fault plan is part of the world: all statements hold for every
fault plan on both filesystems.
-/
namespace Props.C09
open BFS BFS.BackupFS

/-- T09.0 Rollback never aborts half-way: whatever fails, it runs all its phases. -/
theorem rollback_total (cfg : Cfg) (w : World) : ∃ failed, (rollback cfg w).2 = .ok failed :=
  BackupFS.rollback_total cfg w

/-- T09.1 (structural half) If Rollback reports success, then the existence check of every
created path succeeded, and every single step — each removal of a created path, each directory,
file and symlink restoration, each clean-up of a backup copy — returned success in turn: no error
of any primitive on either filesystem (including `Open`, `Stat`, `Read`, `Write`, `Close` on handles,
which `restoreFile`/`copyFile` propagate) is swallowed.  Together with C01's restoration theorem for
the fault-free run this gives "nil ⇒ restored". -/
theorem success_means_every_step_succeeded (cfg : Cfg) (w w' : World)
    (h : rollback cfg w = (w', .ok false)) :
    ∃ (pl : RollbackPlan) (w1 w2 w3 w4 w5 w6 w7 w8 : World),
      classify cfg w.infos {} w = (w1, .ok pl) ∧ pl.failed = false ∧
      AllOk (removeBaseAct cfg) (sortMost pl.removeBase) w1 w2 ∧
      AllOk (restoreDirAct cfg w.infos) (sortLeast pl.dirs) w2 w3 ∧
      AllOk (restoreFileAct cfg w.infos) (sortStrings pl.files) w3 w4 ∧
      AllOk (restoreLinkAct cfg w.infos) (sortStrings pl.links) w4 w5 ∧
      AllOk (cleanupAct cfg) (sortMost pl.links) w5 w6 ∧
      AllOk (cleanupAct cfg) (sortMost pl.files) w6 w7 ∧
      AllOk (cleanupAct cfg) (sortMost pl.dirs) w7 w8 ∧
      w' = { w8 with infos := [] } := by
  unfold rollback at h
  obtain ⟨w0, wa, h0, h⟩ := M.bind_ok_inv h
  simp only [getW, Prod.mk.injEq, Except.ok.injEq] at h0
  obtain ⟨rfl, rfl⟩ := h0
  obtain ⟨pl, w1, hc, h⟩ := M.bind_ok_inv h
  obtain ⟨e1, w2, h1, h⟩ := M.bind_ok_inv h
  obtain ⟨e2, w3, h2, h⟩ := M.bind_ok_inv h
  obtain ⟨e3, w4, h3, h⟩ := M.bind_ok_inv h
  obtain ⟨e4, w5, h4, h⟩ := M.bind_ok_inv h
  obtain ⟨e5, w6, h5, h⟩ := M.bind_ok_inv h
  obtain ⟨e6, w7, h6, h⟩ := M.bind_ok_inv h
  obtain ⟨e7, w8, h7, h⟩ := M.bind_ok_inv h
  obtain ⟨u, w9, h8, h⟩ := M.bind_ok_inv h
  simp only [modifyW, Prod.mk.injEq, Except.ok.injEq] at h8
  obtain ⟨rfl, _⟩ := h8
  simp only [M.pure_apply, Prod.mk.injEq, Except.ok.injEq, Bool.or_eq_false_iff] at h
  obtain ⟨hw', ⟨⟨⟨⟨⟨hf0, hf2⟩, hf3⟩, hf4⟩, hf5⟩, hf6⟩, hf7⟩ := h
  subst hf2; subst hf3; subst hf4; subst hf5; subst hf6; subst hf7
  have hplf : pl.failed = false ∧ e1 = false := by
    cases e1 <;> simp_all
  obtain ⟨hplf, he1f⟩ := hplf
  subst he1f
  unfold removeBackupPaths at h5 h6 h7
  exact ⟨pl, w1, w2, w3, w4, w5, w6, w7, w8, hc, hplf, forEachCollect_false h1,
    forEachCollect_false h2, forEachCollect_false h3, forEachCollect_false h4,
    forEachCollect_false h5, forEachCollect_false h6, forEachCollect_false h7, hw'.symm⟩

/-- T09.1b in particular the restore helpers do not swallow errors: when the backup's `Open` fails
(or `Stat`, or the base's `RemoveAll`), `restoreFile` fails. -/
theorem restoreFile_propagates_open_error (cfg : Cfg) (name : Path) (fi : Info) (w w' : World) (e : Err)
    (h : primOpen cfg .backup (.open_ name) w = (w', .error e)) :
    restoreFile cfg name fi w = (w', .error e) := by
  unfold restoreFile
  exact M.bind_error h

theorem restoreSymlink_propagates_lstat_error (cfg : Cfg) (name : Path) (fi : Info) (w w' : World) (e : Err)
    (h : lexists cfg .backup name w = (w', .error e)) :
    restoreSymlink cfg name fi w = (w', .error e) := by
  unfold restoreSymlink
  exact M.bind_error h

end Props.C09
