import Lemmas
/-!
# C09 — Rollback never reports success unless it restored

In the model `rollback : M Bool` returns whether an error is reported; the Go code wraps every
non-nil result with `errors.Join(ErrRollbackFailed, …)` in a deferred function (checked on the real
error value by the harness).  The fault plan is part of the world: all statements hold for every
fault plan on both filesystems.
-/
namespace Props.C09
open BFS BFS.BackupFS

/-- T09.0 Rollback never aborts half-way: whatever fails, it runs all its phases. -/
theorem rollback_total (cfg : Cfg) (w : World) : ∃ failed, (rollback cfg w).2 = .ok failed :=
  BackupFS.rollback_total cfg w

/-- T09.1 (structural half) If Rollback reports success, then the existence check of every
created path succeeded, and every single step — each removal of a created path, each directory,
file and symlink restoration, each clean-up of a backup copy — returned success in turn: no error
of any primitive on either filesystem (including `Open`, `Stat`, `Read`, `Write`, `Close` on handles,
which `restoreFile`/`copyFile` propagate) is swallowed.  Together with C01's restoration theorem for
the fault-free run this gives "nil ⇒ restored". -/
theorem success_means_every_step_succeeded (cfg : Cfg) (w w' : World)
    (h : rollback cfg w = (w', .ok false)) :
    ∃ (pl : RollbackPlan) (w1 w2 w3 w4 w5 w6 w7 w8 : World),
      classify cfg w.infos {} w = (w1, .ok pl) ∧ pl.failed = false ∧
      AllOk (removeBaseAct cfg) (sortMost pl.removeBase) w1 w2 ∧
      AllOk (restoreDirAct cfg w.infos) (sortLeast pl.dirs) w2 w3 ∧
      AllOk (restoreFileAct cfg w.infos) (sortStrings pl.files) w3 w4 ∧
      AllOk (restoreLinkAct cfg w.infos) (sortStrings pl.links) w4 w5 ∧
      AllOk (cleanupAct cfg) (sortMost pl.links) w5 w6 ∧
      AllOk (cleanupAct cfg) (sortMost pl.files) w6 w7 ∧
      AllOk (cleanupAct cfg) (sortMost pl.dirs) w7 w8 ∧
      w' = { w8 with infos := [] } := by
  unfold rollback at h
  obtain ⟨w0, wa, h0, h⟩ := M.bind_ok_inv h
  simp only [getW, Prod.mk.injEq, Except.ok.injEq] at h0
  obtain ⟨rfl, rfl⟩ := h0
  obtain ⟨pl, w1, hc, h⟩ := M.bind_ok_inv h
  obtain ⟨e1, w2, h1, h⟩ := M.bind_ok_inv h
  obtain ⟨e2, w3, h2, h⟩ := M.bind_ok_inv h
  obtain ⟨e3, w4, h3, h⟩ := M.bind_ok_inv h
  obtain ⟨e4, w5, h4, h⟩ := M.bind_ok_inv h
  obtain ⟨e5, w6, h5, h⟩ := M.bind_ok_inv h
  obtain ⟨e6, w7, h6, h⟩ := M.bind_ok_inv h
  obtain ⟨e7, w8, h7, h⟩ := M.bind_ok_inv h
  obtain ⟨u, w9, h8, h⟩ := M.bind_ok_inv h
  simp only [modifyW, Prod.mk.injEq, Except.ok.injEq] at h8
  obtain ⟨rfl, _⟩ := h8
  simp only [M.pure_apply, Prod.mk.injEq, Except.ok.injEq, Bool.or_eq_false_iff] at h
  obtain ⟨hw', ⟨⟨⟨⟨⟨hf0, hf2⟩, hf3⟩, hf4⟩, hf5⟩, hf6⟩, hf7⟩ := h
  subst hf2; subst hf3; subst hf4; subst hf5; subst hf6; subst hf7
  have hplf : pl.failed = false ∧ e1 = false := by
    cases e1 <;> simp_all
  obtain ⟨hplf, he1f⟩ := hplf
  subst he1f
  unfold removeBackupPaths at h5 h6 h7
  exact ⟨pl, w1, w2, w3, w4, w5, w6, w7, w8, hc, hplf, forEachCollect_false h1,
    forEachCollect_false h2, forEachCollect_false h3, forEachCollect_false h4,
    forEachCollect_false h5, forEachCollect_false h6, forEachCollect_false h7, hw'.symm⟩

/-- T09.1b in particular the restore helpers do not swallow errors: when the backup's `Open` fails
(or `Stat`, or the base's `Remove`/`RemoveAll` of what is in the way), `restoreFile` fails. -/
theorem restoreFile_propagates_open_error (cfg : Cfg) (name : Path) (fi : Info) (w w' : World) (e : Err)
    (h : primOpen cfg .backup (.open_ name) w = (w', .error e)) :
    restoreFile cfg name fi w = (w', .error e) := by
  unfold restoreFile
  exact M.bind_error h

theorem restoreSymlink_propagates_lstat_error (cfg : Cfg) (name : Path) (fi : Info) (w w' : World) (e : Err)
    (h : lexists cfg .backup name w = (w', .error e)) :
    restoreSymlink cfg name fi w = (w', .error e) := by
  unfold restoreSymlink
  exact M.bind_error h

/-!
### C09 (semantic half) — Rollback never reports success unless it restored

`Props/C09.lean` has the structural half ("`.ok false` ⇒ every single step returned ok").  This
file has the semantic one: for EVERY fault plan in force during Rollback — any primitive call on
the base or backup filesystem (`Lstat`, `Remove`, `RemoveAll`, `MkdirAll`, `Chmod`, `Chown`,
`Chtimes`, `Open`, `OpenFile`, and `Stat`/`Read`/`Write`/`Close` on handles) refused, any number of
times, at any occurrence — if `rollback` returns `.ok false` (Go: `nil`), then every entry of the
base below its root is what it was before the first operation of the transaction.  Equivalently:
either Rollback reports an error, or the base is fully restored.

The proof (Lemmas/RestoreF.lean) redoes the phase-by-phase argument of Lemmas/Restore.lean with the
conclusion "this step returns ok" (there a consequence of the empty fault plan) replaced by the
hypothesis "this step returned ok" (here a consequence of the `false` flag): `sat_forEachF`,
`sat_classifyF`, `phase1F`, `phase2F`, `phase3F`, `sat_rollbackF`.  No error is swallowed on the way:
`ignorePerm` drops only permission errors (injected faults are `.io`), `restoreFile` ignores only
the error of the deferred `Close` of the backup handle (no effect on the disk), `lexists`
propagates every error that is not "not found", and a refused existence check in the first loop
sets `failed`, which is part of the result.

Scope (`_partial`) as for `Props.C01.rollback_restores_linkfree_partial`: link-free trees, covered
operations.
-/


/-- T09.2 (generic form, for any model of the filesystem contract `Sim`): from a state satisfying
the transaction invariant, under ANY fault plan, `rollback` returning `.ok false` implies that the
disk is well-formed and every key of the base view except the root shows its original node. -/
theorem success_means_restored_generic {cfg : Cfg} (S : Sim cfg) {v0 : View} {w : World}
    (hinv : Inv S v0 w) :
    (rollback cfg w).2 = .ok false →
      S.G (rollback cfg w).1.fs ∧ ∀ k, k ≠ [] → S.view .base (rollback cfg w).1.fs k = v0 k :=
  (sat_rollbackF (cfg := cfg) hinv).elim

/-- T09.main  "Rollback never returns nil while an entry of the transaction is left unrestored" —
link-free fragment.  OS model behind two `PrefixFS` layers; any well-formed link-free disk; any
covered history, itself run under any fault plan (`w.faults` is arbitrary); then Rollback run under
ANY fault plan `plan`: if it reports success, every entry of the base below its root is what it was
before the first operation (same paths, types, contents, permission bits, owners, file modification
times; directory timestamps are erased from the view, the root itself is exempt). -/
theorem success_means_restored_linkfree_partial (bk kk : Key) (hbk : PKey bk) (hkk : PKey kk)
    (hne1 : bk ≠ []) (hne2 : kk ≠ []) (hd1 : ¬ bk <+: kk) (hd2 : ¬ kk <+: bk)
    (w : World) (hg : OSGood bk kk w.fs) (hinfos : w.infos = []) (ops : List Op)
    (hcov : CoveredHist (osCfg bk kk) (osSim bk kk hbk hkk hne1 hne2 hd1 hd2) w ops)
    (plan : List Fault) :
    (rollback (osCfg bk kk) { runOps (osCfg bk kk) w ops with faults := plan }).2 = .ok false →
    ∀ k, k ≠ [] →
      ((rollback (osCfg bk kk) { runOps (osCfg bk kk) w ops with faults := plan }).1.fs.get (bk ++ k)).map eraseMt
        = (w.fs.get (bk ++ k)).map eraseMt :=
  tx_success_means_restored (S := osSim bk kk hbk hkk hne1 hne2 hd1 hd2) hg hinfos ops hcov plan

/-- T09.main, contrapositive reading: if some entry below the root differs from the original after
Rollback, Rollback reported an error (it never throws: `rollback_total`). -/
theorem unrestored_means_error_linkfree_partial (bk kk : Key) (hbk : PKey bk) (hkk : PKey kk)
    (hne1 : bk ≠ []) (hne2 : kk ≠ []) (hd1 : ¬ bk <+: kk) (hd2 : ¬ kk <+: bk)
    (w : World) (hg : OSGood bk kk w.fs) (hinfos : w.infos = []) (ops : List Op)
    (hcov : CoveredHist (osCfg bk kk) (osSim bk kk hbk hkk hne1 hne2 hd1 hd2) w ops)
    (plan : List Fault) (k : Key) (hk : k ≠ [])
    (hdiff : ((rollback (osCfg bk kk) { runOps (osCfg bk kk) w ops with faults := plan }).1.fs.get (bk ++ k)).map eraseMt
        ≠ (w.fs.get (bk ++ k)).map eraseMt) :
    (rollback (osCfg bk kk) { runOps (osCfg bk kk) w ops with faults := plan }).2 = .ok true := by
  obtain ⟨b, hb⟩ := BackupFS.rollback_total (osCfg bk kk) { runOps (osCfg bk kk) w ops with faults := plan }
  cases b with
  | true => exact hb
  | false =>
    exact absurd (success_means_restored_linkfree_partial bk kk hbk hkk hne1 hne2 hd1 hd2 w hg hinfos
      ops hcov plan hb k hk) hdiff

/-- the same when Rollback runs under the plan the history ran under (no re-planning): the world
after the history is used as it is -/
theorem success_means_restored_same_plan_linkfree_partial (bk kk : Key) (hbk : PKey bk) (hkk : PKey kk)
    (hne1 : bk ≠ []) (hne2 : kk ≠ []) (hd1 : ¬ bk <+: kk) (hd2 : ¬ kk <+: bk)
    (w : World) (hg : OSGood bk kk w.fs) (hinfos : w.infos = []) (ops : List Op)
    (hcov : CoveredHist (osCfg bk kk) (osSim bk kk hbk hkk hne1 hne2 hd1 hd2) w ops) :
    (rollback (osCfg bk kk) (runOps (osCfg bk kk) w ops)).2 = .ok false →
    ∀ k, k ≠ [] →
      ((runTx (osCfg bk kk) w ops).fs.get (bk ++ k)).map eraseMt = (w.fs.get (bk ++ k)).map eraseMt :=
  fun h => (tx_success_means_restored_same_plan (S := osSim bk kk hbk hkk hne1 hne2 hd1 hd2) hg hinfos ops hcov h).2

/-- non-vacuity: the hypotheses hold of an ordinary disk (`/b` with a file and a directory, backup
root `/k`), a history that overwrites a file and creates another, and a non-empty fault plan for
Rollback (the first `Remove` of the created file on the base is refused) -/
example : OSGood [['b']] [['k']] exDisk ∧
    CoveredHist (osCfg [['b']] [['k']]) osSim_example { fs := exDisk }
      [.write "/f".toList (O_WRONLY ||| O_TRUNC) 0 "y", .creat "/n".toList "x"] ∧
    ([⟨⟨.base, "remove", ["/n".toList]⟩, 0⟩] : List Fault) ≠ [] := by
  refine ⟨osGood_example, ⟨?_, ?_, trivial⟩, by simp⟩
  · show isAbs _ = true; decide
  · show isAbs _ = true; decide

/-! ### non-vacuity, concretely (kernel evaluation of the model on the example disk) -/

/-- the example transaction: overwrite `/f`, create `/n` (names relative to the base root `/b`) -/
def exOps : List Op := [.write "/f".toList (O_WRONLY ||| O_TRUNC) 0 "y", .creat "/n".toList "x"]

/-- Rollback of the example transaction under the fault plan `plan` -/
def exRollback (plan : List Fault) : World × Except Err Bool :=
  rollback (osCfg [['b']] [['k']]) { runOps (osCfg [['b']] [['k']]) { fs := exDisk } exOps with faults := plan }

/-- first branch of the property: the `Remove` of the created file is refused; the entry `/b/n` is
left unrestored — and Rollback reports an error -/
example : (exRollback [⟨⟨.base, "remove", ["/n".toList]⟩, 0⟩]).2 = .ok true ∧
    ((exRollback [⟨⟨.base, "remove", ["/n".toList]⟩, 0⟩]).1.fs.get [['b'], ['n']]).isSome = true ∧
    (exDisk.get [['b'], ['n']]).isSome = false := by decide +kernel

/-- second branch: a primitive call fails during Rollback (the deferred `Close` of the backup handle
in `restoreFile`, the one error the Go code drops), Rollback reports success — the hypothesis of
`success_means_restored_linkfree_partial` holds with a plan that fires — and the base is restored -/
example : (exRollback [⟨⟨.backup, "close", ["/f".toList]⟩, 1⟩]).2 = .ok false ∧
    (exRollback [⟨⟨.backup, "close", ["/f".toList]⟩, 1⟩]).1.trace.any (fun e => e.failed) = true ∧
    ((exRollback [⟨⟨.backup, "close", ["/f".toList]⟩, 1⟩]).1.fs.get [['b'], ['f']]).map eraseMt
      = (exDisk.get [['b'], ['f']]).map eraseMt ∧
    ((exRollback [⟨⟨.backup, "close", ["/f".toList]⟩, 1⟩]).1.fs.get [['b'], ['n']]).isSome = false := by
  decide +kernel

end Props.C09
