import Props.C10S
import Props.C04N
import Props.C04L
/-!
# C10 composed with C04/C01 in the nested (README, `NewWithFS`) layering

`concurrent_ops_serialise` (every schedule of operation-threads leaves the world of the serial
history in lock-acquisition order; configuration-generic) composed with
`Props.C04.rollback_restores_nested_linkfree_partial`: whatever the schedule, a final Rollback
restores every visible entry of the base, the backup location lying INSIDE the base tree and being
masked by `HiddenFS`.
-/
namespace Props.C10
open BFS BFS.BackupFS Conc

/-- T10.4N (link-free fragment, nested layering)  for every schedule of concurrently issued operations
whose serialisation (in the order in which they got the mutex) is a covered history, after a final
Rollback every visible entry of the base below its root is what it was before the first operation. -/
theorem concurrent_rollback_restores_nested_linkfree_partial (bk hk dd : Key) (hbk : PKey bk) (hhk : PKey hk)
    (hdd : PKey dd) (hne1 : bk ≠ []) (hne2 : hk ≠ []) (hne3 : dd ≠ []) (hd1 : ¬ bk <+: dd) (hd2 : ¬ dd <+: bk)
    (w0 : World) (hg : OSGood bk dd w0.fs) (hloc : ∃ mt, w0.fs.get (bk ++ hk) = some (.dir mt))
    (hinfos : w0.infos = []) (hnf : w0.faults = [])
    (opOf : Nat → Op) (sched : List Nat) (c : Config World)
    (h : exec (fun t => opThread (N.nestedCfg bk hk) (opOf t)) sched (init w0) = some c)
    (hfree : c.owner = none)
    (hcov : N.CoveredHist (N.nestedCfg bk hk)
      (N.nSim bk hk dd ⟨hbk, hhk, hdd, hne1, hne2, hne3, hd1, hd2⟩) w0 (c.order.map opOf)) :
    ∀ k, k ≠ [] → ¬ hk <+: k →
      ((rollback (N.nestedCfg bk hk) c.st).1.fs.get (bk ++ k)).map eraseMt =
        (w0.fs.get (bk ++ k)).map eraseMt := by
  rw [concurrent_ops_serialise (N.nestedCfg bk hk) opOf w0 sched c h hfree]
  exact Props.C04.rollback_restores_nested_linkfree_partial bk hk dd hbk hhk hdd hne1 hne2 hne3 hd1 hd2 w0 hg hloc
    hinfos hnf [c.order.map opOf] ⟨hcov, trivial⟩

/-- non-vacuity: two operations on the example disk of `Props/C04N.lean` (backup location `/b/d` inside the
base `/b`), the second thread gets the mutex first; the serialisation is a covered history -/
example : ∃ c, exec (fun t => opThread (N.nestedCfg [['b']] [['d']])
      (if t = 0 then .remove "/f".toList else .mkdir "/d/n".toList 0o755))
    [1, 1, 1, 0, 0, 0] (init { fs := exDisk }) = some c ∧ c.owner = none ∧ c.order = [1, 0] ∧
    N.CoveredHist (N.nestedCfg [['b']] [['d']]) (N.nSim [['b']] [['d']] [['k']] Props.C04.nroots_example)
      { fs := exDisk } (c.order.map (fun t => if t = 0 then Op.remove "/f".toList else .mkdir "/d/n".toList 0o755)) := by
  refine ⟨_, rfl, rfl, rfl, ?_⟩
  refine ⟨?_, ?_, trivial⟩
  · show isAbs _ = true; decide
  · show isAbs _ = true ∧ clean _ ≠ rootP; decide

/-- T10.4NL (symlinks as leaves, nested layering)  the same with `Props.C04.rollback_restores_nested_symlink_leaves_partial`:
trees with symlinks as leaves the operations never traverse, the `Symlink` operation included. -/
theorem concurrent_rollback_restores_nested_symlink_leaves_partial (bk hk dd : Key) (hr : N.NRoots bk hk dd)
    (w0 : World) (hg : L.OSGoodL bk dd w0.fs) (hloc : ∃ mt, w0.fs.get (bk ++ hk) = some (.dir mt))
    (hinfos : w0.infos = []) (hnf : w0.faults = [])
    (hbl : Props.C04.BackupLinksBelowBase bk hk w0.fs)
    (opOf : Nat → Op) (sched : List Nat) (c : Config World)
    (h : exec (fun t => opThread (N.nestedCfg bk hk) (opOf t)) sched (init w0) = some c)
    (hfree : c.owner = none)
    (hcov : NL.CoveredHist (N.nestedCfg bk hk) (NL.nlSim bk hk dd hr) w0 (c.order.map opOf)) :
    ∀ k, k ≠ [] → ¬ hk <+: k →
      ((rollback (N.nestedCfg bk hk) c.st).1.fs.get (bk ++ k)).map (L.eraseV (kp bk)) =
        (w0.fs.get (bk ++ k)).map (L.eraseV (kp bk)) := by
  rw [concurrent_ops_serialise (N.nestedCfg bk hk) opOf w0 sched c h hfree]
  exact Props.C04.rollback_restores_nested_symlink_leaves_partial bk hk dd hr w0 hg hloc hinfos hnf hbl
    [c.order.map opOf] ⟨hcov, trivial⟩

/-- non-vacuity (disk `exDiskNL` of Props/C04L.lean: `/b/l -> f`, location `/b/d`): thread 0 runs
`Lchown("/l", 5, 6)`, thread 1 `Remove("/l")`; thread 0 gets the mutex first; the serialisation is covered -/
example : ∃ c, exec (fun t => opThread Props.C04.cfgNL
      (if t = 0 then .lchown "/l".toList 5 6 else .remove "/l".toList))
    [0, 0, 0, 1, 1, 1] (init Props.C04.wN0) = some c ∧ c.owner = none ∧ c.order = [0, 1] ∧
    NL.CoveredHist Props.C04.cfgNL Props.C04.simNL Props.C04.wN0
      (c.order.map (fun t => if t = 0 then Op.lchown "/l".toList 5 6 else .remove "/l".toList)) := by
  refine ⟨_, rfl, rfl, rfl, ?_⟩
  have hKl : PKey [['l']] := by decide
  have hcl : clean "/l".toList = kp [['l']] := by decide
  refine ⟨?_, ?_, trivial⟩
  · refine ⟨by decide, Props.C04.nl_covered_key hKl hcl
      ⟨Props.C04.nl_noLinkAnc_top ⟨Props.C04.rootNL, by decide +kernel⟩, ?_⟩⟩
    intro t mt hv
    have : Props.C04.simNL.view .base Props.C04.wN0.fs [['l']] =
        some (.link ['f'] { exMeta with mode := 0o777, mtime := .fresh }) := by decide +kernel
    have hv' := this.symm.trans hv; cases hv'
    exact Props.C04.linkOK_exNL _ _ ⟨Or.inl rfl, Or.inl rfl⟩
  · refine ⟨by decide, by decide, Props.C04.nl_covered_key hKl hcl
      ⟨Props.C04.nl_noLinkAnc_top ⟨Props.C04.rootNL, by decide +kernel⟩, ?_⟩⟩
    intro t mt hv
    have : Props.C04.simNL.view .base Props.C04.wN1.fs [['l']] =
        some (.link ['f'] { mode := 0o777, uid := 5, gid := 6, mtime := .fresh }) := by decide +kernel
    have hv' := this.symm.trans hv; cases hv'
    exact Props.C04.linkOK_exNL _ _ ⟨Or.inl rfl, Or.inl rfl⟩

end Props.C10
