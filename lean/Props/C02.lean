import Lemmas
/-!
# C02 — originals stay recoverable at every step (ordering theorems)

The full statement (at every prefix of the primitive trace every original is intact in the base
or exactly copied in the backup) is an invariant over the filesystem semantics; it is checked at
*every primitive call* of every generated history by the crash-point oracle of the `hist` stream.
Proved here, for every configuration, world and fault plan, are the ordering facts that invariant
rests on.
-/
namespace Props.C02
open BFS BFS.BackupFS

/-- T02.1 backup before write: until its single base call, a mutator has issued only read-only
calls on the base filesystem — the copy is complete (written, closed, mode/owner/time fixed) and
recorded before the base is touched. -/
theorem copy_completes_before_base_is_touched (cfg : Cfg) (n : Path) (w : World) :
    Extends (fun e => e.sig.side = .backup ∨ e.mutating = false) w (prepare cfg n w).1 :=
  prepare_logs cfg n w

/-- T02.2 a failed preparation means the base call is never issued (see C08 for all mutators) -/
theorem no_base_call_without_backup (cfg : Cfg) (n : Path) (w w' : World) (e : Err)
    (h : prepare cfg n w = (w', .error e)) : remove cfg n w = (w', .error e) := by
  rw [remove_eq]; exact aborts_after_prepare cfg n _ w w' e h

/-- T02.3 a tracked entry is never replaced by later operations (`setInfoIfNotAlreadySeen`): the
first recorded original wins … -/
theorem first_write_wins (p q : Path) (i v : Option Info) (w : World)
    (h : w.infos.lookup q = some v) : ((setInfo p i w).1).infos.lookup q = some v :=
  setInfo_first_write_wins p q i w v h

/-- T02.3b … and an already tracked path is not copied again: `backupRequired` answers from the
map without any filesystem access. -/
theorem tracked_is_not_copied_again (cfg : Cfg) (r : Path) (v : Option Info) (w : World)
    (h : w.infos.lookup r = some v) : backupRequired cfg r w = (w, .ok (v, false)) := by
  unfold backupRequired
  simp only [M.bind_apply, lookupInfo, getW, M.pure_apply, h]

/-- T02.4 taking a copy records nothing: the tracking entry is written by the caller only after
the copy succeeded. -/
theorem copy_records_nothing (cfg : Cfg) (side : Side) (name : Path) (info : Info) (src : WHandle) (w : World) :
    (copyFile cfg side name info src w).1.infos = w.infos ∧
    (copyDir cfg side name info w).1.infos = w.infos ∧
    (copySymlink cfg .base side name info w).1.infos = w.infos :=
  ⟨copyFile_keeps cfg side name info src w, copyDir_keeps cfg side name info w,
   copySymlink_keeps cfg .base side name info w⟩

/-! ### crash points -/

/-- the fault plan "the process dies after `n` primitive calls": every later primitive, on either
filesystem, path-taking or through a handle, is refused and nothing reaches the disk any more -/
def crashPlan (n : Nat) : List Fault := [⟨⟨.base, crashMethod, []⟩, n⟩]

/-- once `n` calls have been logged, a world running under `crashPlan n` is crashed … -/
theorem crashPlan_crashed (w : World) (n : Nat) (h : w.faults = crashPlan n) (hn : n ≤ w.trace.length) :
    crashed w = true := by
  unfold crashed; rw [h]; simp [crashPlan, hn]

/-- … and in a crashed world every primitive is refused without touching the disk, and the world
stays crashed (the disk is frozen in its state at the crash point) -/
theorem crashed_frozen (cfg : Cfg) (side : Side) (c : Call) (w : World) (h : crashed w = true) :
    (primCall cfg side c w).2 = .error .io ∧ (primCall cfg side c w).1.fs = w.fs ∧
      crashed (primCall cfg side c w).1 = true := by
  have hstill : ∀ (e : Event) (sn : List (Sig × Nat)),
      crashed { w with seen := sn, trace := e :: w.trace } = true := by
    intro e sn
    unfold crashed at h ⊢
    simp only [List.any_eq_true] at h ⊢
    obtain ⟨f, hf, hc⟩ := h
    refine ⟨f, hf, ?_⟩
    simp only [Bool.and_eq_true, decide_eq_true_eq] at hc ⊢
    exact ⟨hc.1, by simp only [List.length_cons]; omega⟩
  unfold primCall
  split
  · simp [h]
  · simp only [account, h, Bool.or_true]
    refine ⟨by simp, by simp, ?_⟩
    exact hstill _ _

theorem crashed_frozen_handle (wh : WHandle) (method : String) (extra : List Path) (mu : Bool) (w : World)
    (h : crashed w = true) :
    (primH wh method extra mu w).2 = .error .io ∧ (primH wh method extra mu w).1.fs = w.fs := by
  unfold primH account
  simp [h]

/-- T02.crash (link-free fragment, crash points inside operations): let the process die after any
number `n` of primitive calls of any covered history — in the middle of a copy, of a RemoveAll walk,
between the backup and the base call.  The disk it leaves behind still satisfies the transaction
invariant with the tracked map of that moment (`Props.C01.invariant_after_history` holds for every
fault plan), hence every original is recoverable: Rollback on the frozen disk restores every entry
of the base below its root. -/
theorem originals_recoverable_at_every_crash_point_linkfree_partial (bk kk : Key) (hbk : PKey bk) (hkk : PKey kk)
    (hne1 : bk ≠ []) (hne2 : kk ≠ []) (hd1 : ¬ bk <+: kk) (hd2 : ¬ kk <+: bk)
    (w : World) (hg : OSGood bk kk w.fs) (hinfos : w.infos = []) (n : Nat) (hplan : w.faults = crashPlan n)
    (ops : List Op) (hcov : CoveredHist (osCfg bk kk) (osSim bk kk hbk hkk hne1 hne2 hd1 hd2) w ops) :
    ∀ k, k ≠ [] →
      ((rollback (osCfg bk kk) { runOps (osCfg bk kk) w ops with faults := [] }).1.fs.get (bk ++ k)).map eraseMt
        = (w.fs.get (bk ++ k)).map eraseMt :=
  tx_restores_after_faults (S := osSim bk kk hbk hkk hne1 hne2 hd1 hd2) hg hinfos ops hcov

/-- non-vacuity: the crash plan really crashes the example world once three calls are logged -/
def exTrace : List Event := [⟨⟨.base, "lstat", []⟩, false, false⟩, ⟨⟨.base, "lstat", []⟩, false, false⟩, ⟨⟨.base, "lstat", []⟩, false, false⟩]

example : crashed ⟨exDisk, [], exTrace, crashPlan 3, []⟩ = true := by decide

end Props.C02
