import Lemmas
/-!
# C02 — originals stay recoverable at every step (ordering theorems)

The full statement (at every prefix of the primitive trace every original is intact in the base
or exactly copied in the backup) is an invariant over the filesystem semantics; it is checked at
*every primitive call* of every generated history by the crash-point oracle of the `hist` stream.
Proved here, for every configuration, world and fault plan, are the ordering facts that invariant
rests on.
-/
namespace Props.C02
open BFS BFS.BackupFS

/-- T02.1 backup before write: until its single base call, a mutator has issued only read-only
calls on the base filesystem — the copy is complete (written, closed, mode/owner/time fixed) and
recorded before the base is touched. -/
theorem copy_completes_before_base_is_touched (cfg : Cfg) (n : Path) (w : World) :
    Extends (fun e => e.sig.side = .backup ∨ e.mutating = false) w (prepare cfg n w).1 :=
  prepare_logs cfg n w

/-- T02.2 a failed preparation means the base call is never issued (see C08 for all mutators) -/
theorem no_base_call_without_backup (cfg : Cfg) (n : Path) (w w' : World) (e : Err)
    (h : prepare cfg n w = (w', .error e)) : remove cfg n w = (w', .error e) := by
  rw [remove_eq]; exact aborts_after_prepare cfg n _ w w' e h

/-- T02.3 a tracked entry is never replaced by later operations (`setInfoIfNotAlreadySeen`): the
first recorded original wins … -/
theorem first_write_wins (p q : Path) (i v : Option Info) (w : World)
    (h : w.infos.lookup q = some v) : ((setInfo p i w).1).infos.lookup q = some v :=
  setInfo_first_write_wins p q i w v h

/-- T02.3b … and an already tracked path is not copied again: `backupRequired` answers from the
map without any filesystem access. -/
theorem tracked_is_not_copied_again (cfg : Cfg) (r : Path) (v : Option Info) (w : World)
    (h : w.infos.lookup r = some v) : backupRequired cfg r w = (w, .ok (v, false)) := by
  unfold backupRequired
  simp only [M.bind_apply, lookupInfo, getW, M.pure_apply, h]

/-- T02.4 taking a copy records nothing: the tracking entry is written by the caller only after
the copy succeeded. -/
theorem copy_records_nothing (cfg : Cfg) (side : Side) (name : Path) (info : Info) (src : WHandle) (w : World) :
    (copyFile cfg side name info src w).1.infos = w.infos ∧
    (copyDir cfg side name info w).1.infos = w.infos ∧
    (copySymlink cfg .base side name info w).1.infos = w.infos :=
  ⟨copyFile_keeps cfg side name info src w, copyDir_keeps cfg side name info w,
   copySymlink_keeps cfg .base side name info w⟩

end Props.C02
