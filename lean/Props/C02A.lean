import Lemmas.FlowCheck
/-!
# C02 — facts about the CURRENT Go sources (regenerated on every run), decided by the kernel

`Generated.flowFacts` is written by the harness (`vharness -stream astfacts`, go/ast) from /repo's
working tree before every build; the predicates are defined in `Lemmas/FlowCheck.lean`.  A change to
the sources that alters how names flow through the methods changes the facts, and these theorems no
longer build — whether or not a generated input happens to exhibit the difference.
-/
namespace Props.C02
open Flow Generated

/-- in every mutator of BackupFS, each path handed to a mutating call on the base was last bound by
`realPath(<parameter>)` and passed to `tryBackup` between that binding and the call: the copy is
taken — and has returned — before the base is touched, in the source text itself -/
theorem source_backup_precedes_base_mutation : backupBeforeMutation flowFacts methodParams = true := by decide +kernel

/-- each of these methods does issue such a call (the statement above is not vacuous) … -/
theorem source_mutators_mutate : mutatorsMutate flowFacts = true := by decide +kernel

/-- … and no other method of BackupFS mutates the base directly, the Rollback helpers apart -/
theorem source_no_other_base_mutation : noOtherBaseMutation flowFacts = true := by decide +kernel

/-- only `tryRemoveBackup` (ForceBackup) and the clean-up of Rollback remove from the backup -/
theorem source_backup_removals_confined : backupRemovalsConfined flowFacts = true := by decide +kernel

/-- the copies go to `fsys.backup` (and are taken: `copyFile`, `copySymlink`, `copyDir` are called) -/
theorem source_backup_helpers_write_backup_only : backupHelpersWriteBackupOnly flowFacts = true := by decide +kernel

end Props.C02
