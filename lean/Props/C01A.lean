import Lemmas.FlowCheck
/-!
# C01 — facts about the CURRENT Go sources (regenerated on every run), decided by the kernel

`Generated.flowFacts` is written by the harness (`vharness -stream astfacts`, go/ast) from /repo's
working tree before every build; the predicates are defined in `Lemmas/FlowCheck.lean`.  A change to
the sources that alters how names flow through the methods changes the facts, and these theorems no
longer build — whether or not a generated input happens to exhibit the difference.
-/
namespace Props.C01
open Flow Generated

/-- `copyFile` (backup copy and restore alike) writes the content, then changes the owner, then the mode,
then the times: chown clears set-id bits, so the order matters for "all twelve mode bits" -/
theorem source_copyFile_owner_before_mode : copyFileOwnerBeforeMode flowFacts = true := by decide +kernel

/-- during Rollback the writing helpers are pointed at `fsys.base` and read from `fsys.backup`, and
each restore phase calls its helper -/
theorem source_restore_helpers_write_base_only : restoreHelpersWriteBaseOnly flowFacts = true := by decide +kernel

end Props.C01
