import Lemmas.NG16Loop
import Lemmas.F16Ex
/-!
# C16 (nested layering) — path resolution through the sealing HiddenFS, FLAT visible link topologies

Setting: the documented layering `N.nestedCfg bk hk = NewWithFS (PrefixFS (kp bk) osfs) (kp hk)`: base =
`HiddenFS [kp hk]` over `PrefixFS (kp bk)` over the OS model, backup = `PrefixFS (kp hk)` over the same
`PrefixFS`.  `BackupFS.realPath` issues `Lstat`/`Readlink` on the BASE, i.e. through the sealing
`HiddenFS`, which refuses every name at or below the location with `ErrHiddenNotExist`.  That error
wraps `fs.ErrNotExist`: `isNotFoundError` accepts it, so `resolvePathWithInfo` takes the refusal for
"the rest of the path does not exist" and returns the remaining components verbatim.

Fragment: `NG.FlatN bk hk m` (Lemmas/NG16Def.lean) — `F16.Flat` demanded of the VISIBLE symlinks only
(at or below `bk`, not at or below `bk ++ hk`); the link copies a transaction stores below the location
are never looked at and need not be flat.  A visible link MAY point into the location (pre-existing:
`HiddenFS.Symlink` refuses to create one).

Main theorem `resolve_exact_flat_links_nested_partial`: `realPath` returns `kp r`, `r = NG.resN …`
(the key-level specification with the refusal clause), nothing changes, and
* (A) if `r` is NOT at or below the location — the lexical walk with substitution never enters it —
  `r` is exactly what the disjoint layering's specification `F16.resK` gives, no proper ancestor of `r`
  is a symlink, and (names of at most 40 components) the OS resolver ends on `bk ++ r` exactly where it
  ends on the caller's `bk ++ k` — the same entry, the same parent and final name, or the same error;
  in particular the OS never ends on an entry other than `bk ++ r`;
* (B) if `r` IS at or below the location — a component of the caller's name is, or a visible link's
  target leads there — resolution does NOT fail: `r` is the hidden path (target substituted, rest
  lexical), and every single-path call and every `Rename` on the base with `kp r` is refused by the
  sealing layer, in every state.  So for the operations that resolve (all mutators) the sealing holds
  through such links; the read-only operations of `BackupFS` do not resolve and follow the link into
  the location: K-hidden-symlink-route (`readonly_follows_link_into_location`).
`resolve_nested_fails_instead_of_misresolving`: under every fault plan nothing changes and a
returned path is `kp r`.
-/
namespace Props.C16
open BFS BFS.BackupFS BFS.MFS BFS.F16 BFS.NG

/-- the single-path calls of the `FS` interface -/
def SingleCall (f : Path → Call) : Prop :=
  (f = Call.create) ∨ (∃ p, f = (Call.mkdir · p)) ∨ (∃ p, f = (Call.mkdirAll · p)) ∨ (f = Call.open_) ∨
    (∃ fl p, f = (Call.openFile · fl p)) ∨ (f = Call.remove) ∨ (∃ md, f = (Call.chmod · md)) ∨
    (∃ u g, f = (Call.chown · u g)) ∨ (∃ u g, f = (Call.lchown · u g)) ∨ (∃ a t, f = (Call.chtimes · a t))

/-- **T16.N exactness through the sealing HiddenFS** (nested layering over the OS model, well-formed
disk with symlinks anywhere, the location `bk ++ hk` a directory, VISIBLE links flat, no planned
faults, any absolute name in any spelling).  See the header for clauses (A) and (B). -/
theorem resolve_exact_flat_links_nested_partial (bk hk dd : Key) (hr : N.NRoots bk hk dd)
    (w : World) (hg : L.OSGoodL bk dd w.fs) (hloc : ∃ mt, w.fs.get (bk ++ hk) = some (.dir mt))
    (hflat : FlatN bk hk w.fs) (hnf : w.faults = [])
    (name : Path) (habs : isAbs name = true) :
    ∃ k r : Key, PKey k ∧ PKey r ∧ clean name = kp k ∧ r = resN w.fs bk hk [] k ∧
      (realPath (N.nestedCfg bk hk) name w).2 = .ok (kp r) ∧
      SameFS w (realPath (N.nestedCfg bk hk) name w).1 ∧
      r.getLast? = k.getLast? ∧
      (∀ p, p <+: r → p ≠ r → ¬ hk <+: p → ∀ t mt, w.fs.get (bk ++ p) ≠ some (.link t mt)) ∧
      -- (A) the resolution stays outside the location
      (¬ hk <+: r →
        r = resK w.fs bk [] k ∧
        (∀ p, p <+: r → p ≠ r → ∀ t mt, w.fs.get (bk ++ p) ≠ some (.link t mt)) ∧
        ((comps (clean name)).length ≤ 40 →
          namei w.fs (kp (bk ++ r)) false = namei w.fs (kp (bk ++ k)) false ∧
          (∀ K n, namei w.fs (kp (bk ++ k)) false = .found K n → K = bk ++ r) ∧
          (∀ a T, k = a ++ T → a ≠ [] → (∀ K n, namei w.fs (kp (bk ++ a)) false ≠ .found K n) →
            ∃ ra, (realPath (N.nestedCfg bk hk) (kp a) w).2 = .ok (kp ra) ∧ r = ra ++ T))) ∧
      -- (B) the resolution enters the location
      (hk <+: r →
        (∀ f, SingleCall f → ∃ e, ∀ m, ((N.nestedCfg bk hk).side .base).call m (f (kp r)) = (m, .error e)) ∧
        (∀ q, PKey q → (∃ e, ∀ m, ((N.nestedCfg bk hk).side .base).call m (.rename (kp r) (kp q)) = (m, .error e)) ∧
          (∃ e, ∀ m, ((N.nestedCfg bk hk).side .base).call m (.rename (kp q) (kp r)) = (m, .error e)))) := by
  have hG : NL.NLGood bk hk dd w.fs := ⟨hg, hloc⟩
  obtain ⟨k, hk', hname⟩ := clean_abs habs
  have hsat := (sat_realPathN hr hG hflat hk' hname).elim
  obtain ⟨hsame, hres, hok⟩ := hsat
  obtain ⟨p, hp⟩ := hok hnf
  have hp' := hres p hp
  subst hp'
  have hrp : PKey (resN w.fs bk hk [] k) := resN_pkey hr.pb hg hflat k [] PKey.nil hk'
  refine ⟨k, resN w.fs bk hk [] k, hk', hrp, hname, rfl, hp, hsame, ?_,
    resN_nolink hg hflat k [] (noLinkUpto_root hg), ?_, ?_⟩
  · by_cases hke : k = []
    · subst hke; rfl
    · exact resN_getLast k [] hke
  · intro hout
    refine ⟨resN_eq_resK k [] hout, ?_, ?_⟩
    · intro q hq hne t mt
      exact resN_nolink_out hg hflat k [] (noLinkUpto_root hg) hout (bk ++ q)
        ((List.prefix_append_right_inj _).mpr hq) (fun e => hne (List.append_cancel_left e)) t mt
    · intro hlen
      rw [hname, comps_kp hk'] at hlen
      refine ⟨namei_resN hr.r1 hg hflat hk' hlen hout, fun K n hf => namei_found_resN hr.r1 hg hflat hk' hlen hout hf, ?_⟩
      intro a T hsplit hane hnfd
      have ha : PKey a := by rw [hsplit] at hk'; exact hk'.left
      have hla : a.length ≤ 40 := by rw [hsplit] at hlen; simp at hlen; omega
      have houta : ¬ hk <+: resN w.fs bk hk [] a := by
        intro hh
        apply hout
        rw [hsplit]
        exact resN_prefix_hid a [] T hane hh
      obtain ⟨_, hresa, hoka⟩ := (sat_realPathN hr hG hflat ha (clean_kp ha)).elim
      obtain ⟨pa, hpa⟩ := hoka hnf
      have hpa' := hresa pa hpa
      subst hpa'
      refine ⟨resN w.fs bk hk [] a, hpa, ?_⟩
      rw [hsplit]
      exact resN_tail a [] T hane houta (resN_absent_of_not_found hr.r1 hg hflat ha hla houta hnfd)
  · intro hin
    refine ⟨?_, ?_⟩
    · intro f hf
      exact N.refused_single (s := .base) hr hrp hin hf
    · intro q hq
      exact ⟨N.refused_rename (s := .base) hr hrp hq (Or.inl hin),
        N.refused_rename (s := .base) hr hq hrp (Or.inr (Or.inr (Or.inl hin)))⟩

/-- **T16.N' under EVERY fault plan** `realPath` through the sealing base changes neither disk,
tracked map nor fault plan, and a path it returns is `kp (resN …)`: it fails (EIO) instead of
mis-resolving. -/
theorem resolve_nested_fails_instead_of_misresolving (bk hk dd : Key) (hr : N.NRoots bk hk dd)
    (w : World) (hg : L.OSGoodL bk dd w.fs) (hloc : ∃ mt, w.fs.get (bk ++ hk) = some (.dir mt))
    (hflat : FlatN bk hk w.fs) (name : Path) (k : Key) (hk' : PKey k) (hname : clean name = kp k) :
    SameFS w (realPath (N.nestedCfg bk hk) name w).1 ∧
    ∀ p, (realPath (N.nestedCfg bk hk) name w).2 = .ok p → p = kp (resN w.fs bk hk [] k) := by
  have h := (sat_realPathN hr ⟨hg, hloc⟩ hflat hk' hname).elim
  exact ⟨h.1, h.2.1⟩

/-- a name a component of which is at or below the location (and whose visible proper ancestors up to
there are real directories, so that nothing is substituted before) resolves to itself: the lexical
case of (B) -/
theorem resN_lexically_hidden {m : MFS} {bk hk : Key} : ∀ (S : List Name) (D : Key),
    (∀ A c, A ++ [c] <+: S → ¬ hk <+: D ++ A ++ [c] → A ++ [c] ≠ S → ∃ mt, m.get (bk ++ D ++ A ++ [c]) = some (.dir mt)) →
    resN m bk hk D S = D ++ S
  | [], D, _ => by simp [resN]
  | [s], D, _ => resN_single D s
  | s :: s' :: S, D, h => by
    have hne : s' :: S ≠ [] := by simp
    by_cases hh : hk <+: D ++ [s]
    · exact resN_hid _ hh
    · obtain ⟨mt, hd⟩ := h [] s (by simp) (by simpa using hh) (by simp)
      rw [List.append_nil] at hd
      rw [resN_dir hne hh hd, resN_lexically_hidden (s' :: S) (D ++ [s])]
      · simp
      · intro A c hA hv hne'
        have := h (s :: A) c (by simpa using hA) (by simpa using hv) (by simpa using hne')
        simpa using this

/-! ## the example disk: README layout with links, some of them leading into the location

Base root `/b`, location `/b/d` (hidden name `/d`) holding a directory `s` with a file `h` and a NON-flat
chain of link copies `c1 -> c2 -> s`; visible: file `/f`, directory `/e` with file `g`, file link
`/l -> f`, relative directory link `/m -> e`, absolute directory link `/a -> /b/e` (as `PrefixFS` stores
it), and two links INTO the location: `/into -> d` (relative) and `/deep -> /b/d/s` (absolute). -/

def nestEntries : List (Key × Node) := [
  ([], .dir exM), ([['b']], .dir exM), ([['k']], .dir exM),
  ([['b'], ['f']], .file "hello" exM),
  ([['b'], ['d']], .dir exM),
  ([['b'], ['d'], ['s']], .dir exM),
  ([['b'], ['d'], ['s'], ['h']], .file "copy" exM),
  ([['b'], ['d'], "c1".toList], .link "c2".toList exM),
  ([['b'], ['d'], "c2".toList], .link "s".toList exM),
  ([['b'], ['e']], .dir exM),
  ([['b'], ['e'], ['g']], .file "g" exM),
  ([['b'], ['l']], .link "f".toList exM),
  ([['b'], ['m']], .link "e".toList exM),
  ([['b'], ['a']], .link "/b/e".toList exM),
  ([['b'], "into".toList], .link "d".toList exM),
  ([['b'], "deep".toList], .link "/b/d/s".toList exM)]

def nestDisk : MFS := listDisk nestEntries

theorem nestDisk_good : L.OSGoodL [['b']] [['k']] nestDisk := good_of_goodB (by decide +kernel)
theorem nestDisk_loc : ∃ mt, nestDisk.get ([['b']] ++ [['d']]) = some (.dir mt) := ⟨exM, by decide +kernel⟩
/-- the visible links are flat; the disk as a whole is not (the chain of copies below the location) -/
theorem nestDisk_flatN : FlatN [['b']] [['d']] nestDisk := by decide +kernel
theorem nestDisk_not_flat : ¬ Flat [['b']] nestDisk := by decide +kernel

theorem nestRoots : N.NRoots [['b']] [['d']] [['k']] :=
  ⟨by decide, by decide, by decide, by decide, by decide, by decide, by decide, by decide⟩

def nestCfg : Cfg := N.nestedCfg [['b']] [['d']]
def rpN (m : MFS) (name : String) : Except Err Path := (realPath nestCfg name.toList { fs := m }).2

/-- the theorem applies to the example disk -/
example (name : Path) (habs : isAbs name = true) :=
  resolve_exact_flat_links_nested_partial [['b']] [['d']] [['k']] nestRoots { fs := nestDisk } nestDisk_good nestDisk_loc
    nestDisk_flatN rfl name habs

-- (A) outside the location: as in the disjoint layering
example : rpN nestDisk "/m/g" = .ok "/e/g".toList := by decide +kernel               -- relative directory link
example : rpN nestDisk "/a/new/x" = .ok "/e/new/x".toList := by decide +kernel       -- absolute link, lexical tail
example : rpN nestDisk "/m/../l" = .ok "/l".toList := by decide +kernel              -- final link kept
example : rpN nestDisk "/into" = .ok "/into".toList := by decide +kernel             -- final link INTO the location kept
example : parentName (namei nestDisk "/b/a/new".toList false) = some ([['b'], ['e']], "new".toList) ∧
    parentName (namei nestDisk "/b/e/new".toList false) = some ([['b'], ['e']], "new".toList) := by decide +kernel

/-- **(B), the question of the task**: `/into -> d` is a visible link whose target is the location.
`Lstat("/into")` and `Readlink("/into")` pass the sealing layer (the link's own name is visible); the
loop substitutes and goes on with `/d/x`; `Lstat("/d/x")` is refused with `ErrHiddenNotExist`, which is
of the not-found class, so the loop takes it for "the rest does not exist" and RETURNS the hidden path
`/d/x` — resolution does not fail.  Four primitive calls (trace length 4: Lstat `/`, Lstat `/into`,
Readlink `/into`, Lstat `/d/x`).  The same for the absolute link `/deep -> /b/d/s` and for names that
exist below the location; a name lexically below the location resolves to itself. -/
theorem link_into_location_resolves_to_hidden_path :
    rpN nestDisk "/into/x" = .ok "/d/x".toList ∧
    (realPath nestCfg "/into/x".toList { fs := nestDisk }).1.trace.length = 4 ∧
    rpN nestDisk "/deep/h" = .ok "/d/s/h".toList ∧
    rpN nestDisk "/deep/new/tail" = .ok "/d/s/new/tail".toList ∧
    rpN nestDisk "/into/c1/h" = .ok "/d/c1/h".toList ∧       -- the hidden chain is never looked at
    rpN nestDisk "/d/s/h" = .ok "/d/s/h".toList ∧
    rpN nestDisk "/e/../d/x" = .ok "/d/x".toList ∧
    -- the refusals are of the not-found class
    ((nestCfg.side .base).call nestDisk (.lstat "/d/x".toList)).2 = .error .hiddenNotExist ∧
    Err.isNotFound .hiddenNotExist = true ∧
    -- the link itself is visible
    (((nestCfg.side .base).call nestDisk (.readlink "/into".toList)).2 = .ok (.str "d".toList)) ∧
    (((nestCfg.side .base).call nestDisk (.readlink "/deep".toList)).2 = .ok (.str "/d/s".toList)) := by
  refine ⟨by decide +kernel, by decide +kernel, by decide +kernel, by decide +kernel, by decide +kernel, by decide +kernel,
    by decide +kernel, by decide +kernel, rfl, by decide +kernel, by decide +kernel⟩

/-- what the OS does with these names: it enters the location (`/b/into/x` is a place to create `x`
in `/b/d`; `/b/deep/h` IS the hidden file; `/b/into/c1/h` goes through the hidden chain) -/
example : parentName (namei nestDisk "/b/into/x".toList false) = some ([['b'], ['d']], ['x']) ∧
    parentName (namei nestDisk "/b/deep/h".toList false) = some ([['b'], ['d'], ['s']], ['h']) ∧
    parentName (namei nestDisk "/b/into/c1/h".toList false) = some ([['b'], ['d'], ['s']], ['h']) := by
  decide +kernel

def sameDisk (a b : MFS) : Bool := a.dom == b.dom && a.dom.all (fun K => a.get K == b.get K)

/-- the error of a result, if any -/
def errX {α : Type} : Except Err α → Option Err
  | .error e => some e
  | .ok _ => none

/-- type and size reported by a `Stat` -/
def statX : Except Err OpOut → Option (Kind × Nat)
  | .ok (.info i) => some (i.kind, i.size)
  | _ => none

def nestW : World := { fs := nestDisk }

/-- **the mutators through such a link are refused and change nothing**: every mutator of `BackupFS`
resolves first and hands the RESOLVED name to the base, whose lexical check then refuses it —
`Create`/`Mkdir`/`MkdirAll`/`Symlink` with `hiddenPerm`, the others with `hiddenNotExist`; `RemoveAll`
returns nil (as for a path that does not exist) and removes nothing; the disk is unchanged (location
directly below the base root: no ancestor to back up) — except that a `Rename` whose NEW name resolves into the
location backs its visible source up before the base call refuses (a copy inside the location appears). -/
theorem mutators_through_link_into_location_refused :
    errX (Op.exec nestCfg (.creat "/into/x".toList "boo") nestW).2 = some .hiddenPerm ∧
    sameDisk (Op.exec nestCfg (.creat "/into/x".toList "boo") nestW).1.fs nestDisk = true ∧
    errX (Op.exec nestCfg (.mkdir "/deep/y".toList 0o755) nestW).2 = some .hiddenPerm ∧
    errX (Op.exec nestCfg (.remove "/deep/h".toList) nestW).2 = some .hiddenNotExist ∧
    sameDisk (Op.exec nestCfg (.remove "/deep/h".toList) nestW).1.fs nestDisk = true ∧
    errX (Op.exec nestCfg (.chmod "/deep/h".toList 0o600) nestW).2 = some .hiddenNotExist ∧
    errX (Op.exec nestCfg (.rename "/deep/h".toList "/stolen".toList) nestW).2 = some .hiddenNotExist ∧
    sameDisk (Op.exec nestCfg (.rename "/deep/h".toList "/stolen".toList) nestW).1.fs nestDisk = true ∧
    errX (Op.exec nestCfg (.rename "/f".toList "/into/f".toList) nestW).2 = some .hiddenPerm ∧
    -- … after the source `/f` was copied into the backup: the only new key is `/b/d/f`, the only old key whose
    -- node changed is the location directory itself (its mtime)
    (Op.exec nestCfg (.rename "/f".toList "/into/f".toList) nestW).1.fs.dom = [['b'], ['d'], ['f']] :: nestDisk.dom ∧
    nestDisk.dom.filter (fun K => !((Op.exec nestCfg (.rename "/f".toList "/into/f".toList) nestW).1.fs.get K == nestDisk.get K)) =
      [[['b'], ['d']]] ∧
    errX (Op.exec nestCfg (.removeAll "/into/s".toList) nestW).2 = none ∧
    sameDisk (Op.exec nestCfg (.removeAll "/into/s".toList) nestW).1.fs nestDisk = true := by
  decide +kernel

/-- **K-hidden-symlink-route, read-only half** (known finding, here as a kernel-checked witness on the
flat example): `Stat`, `Lstat`, `Readlink`, `OpenFile(O_RDONLY)` of `BackupFS` do not resolve; the base
`HiddenFS` checks the caller's name lexically (`/deep/h` is visible) and the OS follows `/deep` into the
location: the hidden file's type and size are reported. -/
theorem readonly_follows_link_into_location :
    statX (Op.exec nestCfg (.stat "/deep/h".toList) nestW).2 = some (.file, 4) ∧
    errX (Op.exec nestCfg (.stat "/d/s/h".toList) nestW).2 = some .hiddenNotExist := by
  decide +kernel

end Props.C16
