import Lemmas.TNStepAll
import Props.C04S
/-!
# C03 — BackupFS is transparent in the NESTED (README) layering

Setting: that of `Props.C04.rollback_restores_nested_linkfree_partial` — `N.nestedCfg bk hk =
NewWithFS (PrefixFS (kp bk) osfs) (kp hk)`: base = `HiddenFS [loc]` over `PrefixFS(root)` over the OS
model, backup = `PrefixFS(loc)` over the same `PrefixFS(root)`; a well-formed link-free disk in which
the location `bk ++ hk` is an existing, empty directory (`N.NGood`, `hempty`), nothing tracked, healthy
filesystems (empty fault plan); any `N`-covered history `ops` has been run (names at/below the location
and names of its ancestors included), and `op` is the next operation, issued in the world
`w := runOps cfg w0 ops`.

The reference side is `Op.direct (N.nestedCfg bk hk).base w.fs op` (Model/Direct.lean): the same
operation issued directly on the filesystem the user of the README layering sees as "the base
filesystem" — `HiddenFS [loc]` over `PrefixFS(root)` — on the very disk the BackupFS operation starts
from.  (`Op.direct` takes its filesystem as an argument; no new executable definition.)

* `transparent_nested_linkfree_partial` — for every operation with absolute names (Create/OpenFile with
  the writes through the handle, Mkdir, MkdirAll, Remove, RemoveAll incl. the whole walk, Rename — also of
  non-empty directories —, Chmod, Chown, Lchown, Chtimes, Stat, Lstat, Readlink; every spelling), where
  `Rename`/`RemoveAll` name neither the location, nor anything below it, nor an ancestor of it
  (`N.AwayFromLoc`; every OTHER operation may name anything, the location included — there both sides are
  refused by the same guard):
  (a) the operation through BackupFS succeeds iff the direct call does — one exception, a disjunct:
      `RemoveAll` of a name below a regular file (BackupFS nil, `HiddenFS.RemoveAll` ENOTDIR; the reading
      adopted by the project counts this as "does not exist");
      same data on success (`OpOut.data`, up to the field `lname` of a handle: `hiddenFile` remembers
      the spelling it was opened with, for its listing filter only, and BackupFS hands HiddenFS the
      *cleaned* name: `handle_lname_differs`); same error class on failure, except that BackupFS reports
      `errDirInfoExpected` (class `typeMismatch`) where the direct call says ENOTDIR/ENOENT — and that only
      when a regular file is a proper ancestor of a name of the operation (`N.FileAbove`);
  (b) afterwards the two disks agree at every key of the base tree outside the location (whole nodes,
      directory mtimes erased).  Inside the location the disks DIFFER in general: BackupFS has put its
      copies there (also when the operation is then refused: `Props.C04.refused_mkdir_backs_up_ancestors`).
  Hypothesis beyond C04N's: `N.WalkDepthOK` — for `RemoveAll` of a directory the subtree fits the depth
  bound 64 of the model's `Walk` (a bound of the model, not of the code).
* `transparent_at_location_nested` — single-path mutators naming the location or anything below it: both
  sides fail with the SAME error, nothing visible changes.
* `rename_refused_nested` — `Rename` with a name at/below the location or an ancestor of it: both sides
  fail, nothing visible changes; same error unless a regular file lies above one of the names
  (`rename_refused_class_differs`: kernel-checked instance of that difference).
* Divergences kept out by hypothesis, kernel-checked / proved:
  `removeAll_above_location_differs` (K-removeall-above-location: `RemoveAll` of an ancestor of the
  location — BackupFS returns an error, `HiddenFS.RemoveAll` nil), `removeAll_at_location_differs`
  (`RemoveAll` of the location or below: BackupFS nil, `HiddenFS.RemoveAll` its "hidden: not exist" error),
  `removeAll_below_file_differs_nested` (the ENOTDIR exception is real in this layering too).

The auxiliary key `dd` names any other link-free directory of the disk outside the base root; it plays
no role in the layering (see the header of Props/C04N.lean).
-/
namespace Props.C03
open BFS BFS.BackupFS

/-- the strengthened invariant (transaction invariant + what the backup holds on healthy filesystems)
after any `N`-covered history in the nested layering -/
theorem invB_after_history_nested (bk hk dd : Key) (hr : N.NRoots bk hk dd)
    (w0 : World) (hg : N.NGood bk hk dd w0.fs) (hinfos : w0.infos = []) (hnf : w0.faults = [])
    (hempty : ∀ k, k ≠ [] → w0.fs.get (bk ++ hk ++ k) = none) (ops : List Op)
    (hcov : N.CoveredHist (N.nestedCfg bk hk) (N.nSim bk hk dd hr) w0 ops) :
    N.InvB (N.nSim bk hk dd hr) (N.nview bk hk .base w0.fs) (N.nview bk hk .backup w0.fs [])
      (runOps (N.nestedCfg bk hk) w0 ops) :=
  (N.history_keepsB ops w0 (N.InvB.init (S := N.nSim bk hk dd hr) hg hinfos hnf (fun _ hh => hh)
    (fun k hk' => by
      show (w0.fs.get (bk ++ hk ++ k)).map eraseMt = none
      rw [hempty k hk']; rfl)) hcov).inv

/-- T03.N  BackupFS is transparent in the nested (README) layering — link-free fragment, healthy
filesystems. -/
theorem transparent_nested_linkfree_partial (bk hk dd : Key) (hr : N.NRoots bk hk dd)
    (w0 : World) (hg : N.NGood bk hk dd w0.fs) (hinfos : w0.infos = []) (hnf : w0.faults = [])
    (hempty : ∀ k, k ≠ [] → w0.fs.get (bk ++ hk ++ k) = none)
    (ops : List Op) (hcov : N.CoveredHist (N.nestedCfg bk hk) (N.nSim bk hk dd hr) w0 ops)
    (op : Op) (hop : op.AbsNames) (haway : N.AwayFromLoc hk op)
    (hdepth : N.WalkDepthOK bk hk (runOps (N.nestedCfg bk hk) w0 ops).fs op) :
    let w := runOps (N.nestedCfg bk hk) w0 ops
    let x := Op.exec (N.nestedCfg bk hk) op w
    let d := Op.direct (N.nestedCfg bk hk).base w.fs op
    -- (a) same success / failure — but for `RemoveAll` below a regular file
    (((∃ a, x.2 = .ok a) ↔ (∃ b, d.2 = .ok b)) ∨
      (∃ p k, op = .removeAll p ∧ PKey k ∧ clean p = kp k ∧ FileAnc (N.nview bk hk .base w.fs) k ∧
        (∃ a, x.2 = .ok a) ∧ d.2 = .error .notDir)) ∧
    -- same data (up to the `lname` of a handle)
    (∀ a b, x.2 = .ok a → d.2 = .ok b → N.DOut.noL a.data = N.DOut.noL b) ∧
    -- same error class, but for `errDirInfoExpected` in place of ENOTDIR / ENOENT below a regular file
    (∀ e1 e2, x.2 = .error e1 → d.2 = .error e2 →
      e1 = e2 ∨ (e1 = .typeMismatch ∧ e2.isNotFound = true ∧ N.FileAbove (N.nview bk hk .base w.fs) op)) ∧
    -- (b) the same base tree afterwards, outside the location
    (∀ k, ¬ hk <+: k → (x.1.fs.get (bk ++ k)).map eraseMt = (d.1.get (bk ++ k)).map eraseMt) := by
  intro w x d
  have hinv := invB_after_history_nested bk hk dd hr w0 hg hinfos hnf hempty ops hcov
  rcases N.op_transp_allN hr hinv hop haway hdepth with ht | ⟨p, k, hp, hk', hname, hfa, ⟨a, ha, _⟩, hderr, htw, _⟩
  · exact ⟨Or.inl ht.res.success_iff, fun a b ha hb => ht.res.same_data ha hb,
      fun e1 e2 h1 h2 => ht.res.error_class h1 h2, fun k hv => ht.twin.eq.get k hv⟩
  · refine ⟨Or.inr ⟨p, k, hp, hk', hname, hfa, ⟨a, ha⟩, hderr⟩, ?_, ?_, fun j hv => htw.eq.get j hv⟩
    · intro a' b _ hb
      have : d.2 = .error .notDir := hderr
      rw [this] at hb; cases hb
    · intro e1 e2 h1 _
      have : x.2 = .ok a := ha
      rw [this] at h1; cases h1

/-- T03.N-loc  single-path mutators naming the location or anything below it (`mutName op = some p`:
Create, OpenFile for writing, Mkdir, MkdirAll, Remove, Chmod, Chown, Lchown, Chtimes): through BackupFS and
directly on the nested base the operation fails with the SAME error, and the base tree outside the
location is what it was.  (The backup may have changed: `Props.C04.refused_mkdir_backs_up_ancestors`.) -/
theorem transparent_at_location_nested (bk hk dd : Key) (hr : N.NRoots bk hk dd)
    (w0 : World) (hg : N.NGood bk hk dd w0.fs) (hinfos : w0.infos = []) (hnf : w0.faults = [])
    (hempty : ∀ k, k ≠ [] → w0.fs.get (bk ++ hk ++ k) = none)
    (ops : List Op) (hcov : N.CoveredHist (N.nestedCfg bk hk) (N.nSim bk hk dd hr) w0 ops)
    (op : Op) (hop : op.AbsNames) (p : Path) (hm : S4.mutName op = some p)
    (k : Key) (hk' : PKey k) (hname : clean p = kp k) (hloc : hk <+: k) :
    let w := runOps (N.nestedCfg bk hk) w0 ops
    let x := Op.exec (N.nestedCfg bk hk) op w
    let d := Op.direct (N.nestedCfg bk hk).base w.fs op
    (∃ e, x.2 = .error e ∧ d.2 = .error e) ∧
    (∀ j, ¬ hk <+: j → (x.1.fs.get (bk ++ j)).map eraseMt = (w.fs.get (bk ++ j)).map eraseMt) ∧
    (∀ j, ¬ hk <+: j → (d.1.get (bk ++ j)).map eraseMt = (w.fs.get (bk ++ j)).map eraseMt) := by
  intro w x d
  have hinv := invB_after_history_nested bk hk dd hr w0 hg hinfos hnf hempty ops hcov
  have haway : N.AwayFromLoc hk op := by
    cases op <;> first | trivial | (simp [S4.mutName] at hm)
  have hnra : ¬ op.isRemoveAll := by
    cases op <;> first | (intro hh; exact hh) | (simp [S4.mutName] at hm)
  have ht := N.op_transpN hr hinv hop haway hnra
  obtain ⟨⟨e1, he1⟩, hother, _⟩ := Props.C04.loc_mutators_refused bk hk dd hr w hinv.good op p hm k hk' hname hloc
  have he1' : x.2 = .error e1 := he1
  -- the direct call fails too
  obtain ⟨e2, he2⟩ : ∃ e2, d.2 = .error e2 := by
    cases hd : d.2 with
    | error e2 => exact ⟨e2, rfl⟩
    | ok b =>
      obtain ⟨a, ha⟩ := ht.res.success_iff.mpr ⟨b, hd⟩
      rw [he1'] at ha; cases ha
  -- no regular file above a hidden key
  have hnofile : ¬ N.FileAbove (N.nview bk hk .base w.fs) op := by
    intro hfa
    have key : ∀ q, S4.mutName op = some q → N.NameBelowFile (N.nview bk hk .base w.fs) q → False := by
      intro q hq ⟨k2, hk2, hn2, hfa2⟩
      rw [hm] at hq
      cases hq
      have : k2 = k := kp_inj hk2 hk' (hn2.symm.trans hname)
      subst this
      exact N.fileAnc_hidden_false hinv.good hloc hfa2
    cases op with
    | creat q dt => exact key q rfl hfa
    | mkdir q m => exact key q rfl hfa
    | mkdirAll q m => exact key q rfl hfa
    | remove q => exact key q rfl hfa
    | chmod q m => exact key q rfl hfa
    | chown q u g => exact key q rfl hfa
    | lchown q u g => exact key q rfl hfa
    | chtimes q t => exact key q rfl hfa
    | write q f pm dt =>
      by_cases hf : f = O_RDONLY
      · simp [S4.mutName, hf] at hm
      · exact key q (by simp [S4.mutName, hf]) hfa
    | symlink o n => exact hop
    | rename o n => cases hm
    | removeAll q => cases hm
    | stat q => cases hm
    | lstat q => cases hm
    | readlink q => cases hm
    | force q => cases hm
  have heq : e1 = e2 := by
    rcases ht.res.error_class he1' he2 with h1 | ⟨_, _, h3⟩
    · exact h1
    · exact absurd h3 hnofile
  refine ⟨⟨e1, he1', by rw [he2, heq]⟩, ?_, ?_⟩
  · intro j hv
    have := ht.twin.eq.get j hv
    -- through BackupFS: nothing outside the location's own subtree changes
    have hx : x.1.fs.get (bk ++ j) = w.fs.get (bk ++ j) := by
      apply hother
      intro hpp
      obtain ⟨hin, _⟩ := Props.C04.parPos_inside hpp
      exact hv ((List.prefix_append_right_inj bk).mp hin)
    rw [hx]
  · intro j hv
    have h1 := ht.twin.eq.get j hv
    have hx : x.1.fs.get (bk ++ j) = w.fs.get (bk ++ j) := by
      apply hother
      intro hpp
      obtain ⟨hin, _⟩ := Props.C04.parPos_inside hpp
      exact hv ((List.prefix_append_right_inj bk).mp hin)
    rw [hx] at h1
    exact h1.symm

/-- T03.N-ren  `Rename` with a name at/below the location, or an ancestor of the location (either
argument): refused on both sides, nothing visible changes.  The error is HiddenFS's refusal on both
sides — unless a regular file lies above one of the names: then BackupFS reports `errDirInfoExpected`
from its backup phase, which runs before the base call (`rename_refused_class_differs`). -/
theorem rename_refused_nested (bk hk dd : Key) (hr : N.NRoots bk hk dd)
    (w0 : World) (hg : N.NGood bk hk dd w0.fs) (hinfos : w0.infos = []) (hnf : w0.faults = [])
    (hempty : ∀ k, k ≠ [] → w0.fs.get (bk ++ hk ++ k) = none)
    (ops : List Op) (hcov : N.CoveredHist (N.nestedCfg bk hk) (N.nSim bk hk dd hr) w0 ops)
    (o n : Path) (ko kn : Key) (hko : PKey ko) (hkn : PKey kn) (ho : clean o = kp ko) (hn : clean n = kp kn)
    (hbad : hk <+: ko ∨ (ko <+: hk ∧ ko ≠ hk) ∨ hk <+: kn ∨ (kn <+: hk ∧ kn ≠ hk)) :
    let w := runOps (N.nestedCfg bk hk) w0 ops
    let x := Op.exec (N.nestedCfg bk hk) (.rename o n) w
    let d := Op.direct (N.nestedCfg bk hk).base w.fs (.rename o n)
    ∃ e1 e2, x.2 = .error e1 ∧ d.2 = .error e2 ∧ d.1 = w.fs ∧
      (e1 = e2 ∨ (e1 = .typeMismatch ∧
        (FileAnc (N.nview bk hk .base w.fs) ko ∨ FileAnc (N.nview bk hk .base w.fs) kn))) ∧
      (∀ j, ¬ hk <+: j → (x.1.fs.get (bk ++ j)).map eraseMt = (w.fs.get (bk ++ j)).map eraseMt) := by
  intro w x d
  have hinv := invB_after_history_nested bk hk dd hr w0 hg hinfos hnf hempty ops hcov
  obtain ⟨e1, e2, h1, h2, h3, h4, h5⟩ := (N.rename_refusedN hr hinv hko hkn ho hn hbad).elim
  exact ⟨e1, e2, h1, h2, h3, h4, fun j hv => h5.eq.get j hv⟩

/-! ### the divergences kept out by hypothesis -/

/-- K-removeall-above-location, as a divergence from the direct call: `RemoveAll` of a proper ancestor
`a ≠ /` of the location.  Through BackupFS it returns an error (the final `Remove` of the directories on
the way to the location fails: ENOTEMPTY) — `Props.C04.removeAll_of_ancestor_spares_loc`; directly,
`HiddenFS.RemoveAll` skips those directories and returns nil (`Props.C11.removeAll_succeeds`).
(Effects: both spare the location and remove the rest; not needed here.) -/
theorem removeAll_above_location_differs (bk hk dd : Key) (hr : N.NRoots bk hk dd) (v0 : View) (w : World)
    (hinv : N.Inv (N.nSim bk hk dd hr) v0 w) (p : Path) (hnn : p ≠ []) (a : Key) (ha : PKey a) (hne : a ≠ [])
    (hpar : a <+: hk ∧ a ≠ hk) (hname : clean p = kp a)
    (hht : ∀ j, a <+: j → (w.fs.get (bk ++ j)) ≠ none → j.length < a.length + 64) :
    (∃ e, (Op.exec (N.nestedCfg bk hk) (.removeAll p) w).2 = .error e) ∧
    (Op.direct (N.nestedCfg bk hk).base w.fs (.removeAll p)).2 = .ok .unit := by
  refine ⟨(Props.C04.removeAll_of_ancestor_spares_loc bk hk dd hr v0 w hinv p a ha hne hpar hname).1, ?_⟩
  have hgood : N.NGood bk hk dd w.fs := hinv.good
  show (directUnit (N.nbase bk hk) w.fs (.removeAll p)).2 = .ok .unit
  rw [N.directUnit_removeAll (dd := dd) w.fs hnn hname]
  have hex : osView bk dd .base w.fs a ≠ none := by
    obtain ⟨mt, hd⟩ := N.n_par_dir (s := .base) hgood hpar
    obtain ⟨_, hin⟩ := N.nview_base_some (dd := dd) hd
    rw [hin]; simp
  have hok := Props.C11.removeAll_succeeds bk dd hr.pb hr.pd hr.nb hr.nd hr.d1 hr.d2 [hk]
    (by intro x hx; simp at hx; subst hx; exact hr.ph) a ha hne w.fs hgood.os 64
    (by
      rintro ⟨x, hx, hpre⟩
      simp at hx; subst hx
      exact hpar.2 (N.prefix_antisymm hpar.1 hpre))
    hex
    (by
      intro j hj hv
      apply hht j hj
      intro e
      apply hv
      show (w.fs.get (bk ++ j)).map eraseMt = none
      rw [e]; rfl)
  have hok' : (hiddenRemoveAll (N.nhs hk) (N.inner bk dd) 64 w.fs (kp a)).2 = .ok () := hok
  show Except.map _ _ = _
  rw [hok']
  rfl

/-- `RemoveAll` of the location itself or of a name below it: through BackupFS nil (the base reports
"does not exist", so there is nothing to remove: `Props.C04.loc_removeAll_nil`), directly the
"hidden: does not exist" error of `HiddenFS.RemoveAll` — which, unlike `os.RemoveAll`, does not map
"not exist" to nil.  Nothing changes on either side. -/
theorem removeAll_at_location_differs (bk hk dd : Key) (hr : N.NRoots bk hk dd) (w : World)
    (hg : N.NGood bk hk dd w.fs) (hnf : w.faults = []) (p : Path) (hnn : p ≠ [])
    (k : Key) (hk' : PKey k) (hname : clean p = kp k) (hloc : hk <+: k) :
    (Op.exec (N.nestedCfg bk hk) (.removeAll p) w).2 = .ok .unit ∧
    (Op.exec (N.nestedCfg bk hk) (.removeAll p) w).1.fs = w.fs ∧
    Op.direct (N.nestedCfg bk hk).base w.fs (.removeAll p) = (w.fs, .error .hiddenNotExist) := by
  obtain ⟨h1, _, h3, _⟩ := Props.C04.loc_removeAll_nil bk hk dd hr w hg p k hk' hname hloc
  refine ⟨h3 hnf, h1, ?_⟩
  show directUnit (N.nbase bk hk) w.fs (.removeAll p) = _
  rw [N.directUnit_removeAll (dd := dd) w.fs hnn hname]
  unfold hiddenRemoveAll
  rw [N.hguard_hid hr hk' hloc]
  rfl

/-! ### kernel-checked instances -/

/-- the roots of the examples: base root `/b`, location `/b/d` (hidden name `/d`), `/k` the other
directory -/
theorem nroots_ex : N.NRoots [['b']] [['d']] [['k']] :=
  ⟨by decide, by decide, by decide, by decide, by decide, by decide, by decide, by decide⟩

/-- the ENOTDIR exception is real in the nested layering: `RemoveAll("/f/x")` where `/f` is a regular
file (disk of `Props/C04N.lean`: base root `/b`, file `/b/f`, location `/b/d`): BackupFS returns nil,
the direct call ENOTDIR. -/
theorem removeAll_below_file_differs_nested :
    (∃ a, (Op.exec (N.nestedCfg [['b']] [['d']]) (.removeAll "/f/x".toList) { fs := exDisk }).2 = .ok a) ∧
    (Op.direct (N.nestedCfg [['b']] [['d']]).base exDisk (.removeAll "/f/x".toList)).2 = .error .notDir :=
  ⟨⟨.unit, by rfl⟩, by rfl⟩

/-- the `lname` of the handle: `Create("//n")` through BackupFS opens the base file as `/n` (the cleaned
name `prepare` returns), the direct call as `//n`; `hiddenFile` remembers the spelling for its listing
filter.  Everything else of the two outcomes coincides (`transparent_nested_linkfree_partial`). -/
theorem handle_lname_differs :
    (match (Op.exec (N.nestedCfg [['b']] [['d']]) (.creat "//n".toList "x") { fs := exDisk }).2 with
      | .ok (.written wh _) => some wh.h.lname
      | _ => none) = some "/n".toList ∧
    (match (Op.direct (N.nestedCfg [['b']] [['d']]).base exDisk (.creat "//n".toList "x")).2 with
      | .ok (.written hd _) => some hd.lname
      | _ => none) = some "//n".toList := by
  decide +kernel

/-- the error classes of a refused `Rename` can differ: `Rename("/d", "/f/x")` on `deepDisk` with the
location `/d/k` — `/d` is an ancestor of the location, `/f` a regular file.  BackupFS fails in its backup
phase (`errDirInfoExpected`, class `typeMismatch`), before the base call; HiddenFS refuses the old name
(`hiddenPerm`). -/
theorem rename_refused_class_differs :
    Props.C04.errOf (Op.exec (N.nestedCfg [['b']] [['d'], ['k']]) (.rename "/d".toList "/f/x".toList)
      { fs := S4.deepDisk }).2 = some .typeMismatch ∧
    Props.C04.errOf (Op.direct (N.nestedCfg [['b']] [['d'], ['k']]).base S4.deepDisk
      (.rename "/d".toList "/f/x".toList)).2 = some .hiddenPerm := by
  decide +kernel

/-- an instance of `removeAll_above_location_differs`: `RemoveAll("/d")` on `deepDisk`, location `/d/k` -/
example :
    (∃ e, (Op.exec (N.nestedCfg [['b']] [['d'], ['k']]) (.removeAll "/d".toList) { fs := S4.deepDisk }).2 = .error e) ∧
    (Op.direct (N.nestedCfg [['b']] [['d'], ['k']]).base S4.deepDisk (.removeAll "/d".toList)).2 = .ok .unit :=
  removeAll_above_location_differs [['b']] [['d'], ['k']] [['k']] S4.deepRoots _ { fs := S4.deepDisk }
    (N.Inv.init (S := N.nSim [['b']] [['d'], ['k']] [['k']] S4.deepRoots) S4.deepDisk_good rfl)
    "/d".toList (by decide) [['d']] (by decide) (by decide) ⟨by decide, by decide⟩ (by decide)
    (by
      intro j _ hv
      cases hj : S4.deepDisk.get ([['b']] ++ j) with
      | none => exact absurd hj hv
      | some n0 =>
        rcases S4.deepDisk_live hj with ⟨e, _⟩ | ⟨e, _⟩ | ⟨e, _⟩ | ⟨e, _⟩ | ⟨e, _⟩ | ⟨e, _⟩ | ⟨e, _⟩ | ⟨e, _⟩ <;>
          (have := congrArg List.length e
           rw [List.length_append] at this
           simp only [List.length_cons, List.length_nil] at this
           omega))

/-! ### non-vacuity -/

/-- the hypotheses of `transparent_nested_linkfree_partial` hold of the README layout on an ordinary disk
(`/b` with a file `/b/f` and the EMPTY directory `/b/d`, which serves as the backup location inside the
base), a history that creates, overwrites, removes, makes directories, changes metadata, removes a tree and
also names the location and something below it, and a next operation -/
example : N.NGood [['b']] [['d']] [['k']] exDisk ∧
    (∀ k, k ≠ [] → exDisk.get ([['b']] ++ [['d']] ++ k) = none) ∧
    N.CoveredHist (N.nestedCfg [['b']] [['d']]) (N.nSim [['b']] [['d']] [['k']] nroots_ex) { fs := exDisk }
      [.creat "/n".toList "x", .write "/f".toList (O_WRONLY ||| O_TRUNC) 0 "y", .remove "/f".toList,
       .mkdirAll "/x/e//g/../h".toList 0o755, .chmod "/x".toList 0o4711, .removeAll "/x".toList,
       .creat "/d/x".toList "hidden", .chmod "/d".toList 0o000] ∧
    (Op.chown "/n".toList 5 6).AbsNames ∧ N.AwayFromLoc [['d']] (Op.chown "/n".toList 5 6) ∧
    N.WalkDepthOK [['b']] [['d']] (runOps (N.nestedCfg [['b']] [['d']]) { fs := exDisk }
      [.creat "/n".toList "x", .write "/f".toList (O_WRONLY ||| O_TRUNC) 0 "y", .remove "/f".toList,
       .mkdirAll "/x/e//g/../h".toList 0o755, .chmod "/x".toList 0o4711, .removeAll "/x".toList,
       .creat "/d/x".toList "hidden", .chmod "/d".toList 0o000]).fs (Op.chown "/n".toList 5 6) := by
  refine ⟨⟨osGood_example, ⟨_, rfl⟩⟩, ?_, ⟨?_, ?_, ?_, ?_, ?_, ?_, ?_, ?_, trivial⟩, ?_, trivial, trivial⟩
  · intro k hk'
    cases hj : exDisk.get ([['b']] ++ [['d']] ++ k) with
    | none => rfl
    | some n0 =>
      exfalso
      rcases exDisk_live hj with ⟨e, _⟩ | ⟨e, _⟩ | ⟨e, _⟩ | ⟨e, _⟩ | ⟨e, _⟩
      · simp at e
      · have := congrArg List.length e; simp at this
      · have := congrArg List.length e; simp at this
      · simp at e
      · have := congrArg List.length e
        simp at this
        exact hk' this
  · show isAbs _ = true; decide
  · show isAbs _ = true; decide
  · show isAbs _ = true ∧ clean _ ≠ rootP; decide
  · show isAbs _ = true; decide
  · show isAbs _ = true; decide
  · show isAbs _ = true ∧ clean _ ≠ rootP; decide
  · show isAbs _ = true; decide
  · show isAbs _ = true; decide
  · show isAbs _ = true; decide

/-- … and of a `Rename` and a `RemoveAll` of a directory beside the location: neither name is at/below the
location `/d` or an ancestor of it, and the depth hypothesis holds of the example disk -/
example : (Op.rename "/f".toList "/g".toList).AbsNames ∧ N.AwayFromLoc [['d']] (Op.rename "/f".toList "/g".toList) ∧
    (Op.removeAll "/f".toList).AbsNames ∧ N.AwayFromLoc [['d']] (Op.removeAll "/f".toList) ∧
    N.WalkDepthOK [['b']] [['d']] exDisk (Op.removeAll "/f".toList) := by
  have hclear : ∀ (p : Path) (k0 : Key), PKey k0 → clean p = kp k0 → N.Clear [['d']] k0 →
      N.ClearName [['d']] p := by
    intro p k0 hk0 hp hc k hk' hname
    have : k = k0 := kp_inj hk' hk0 (hname.symm.trans hp)
    subst this
    exact hc
  have cf : N.ClearName [['d']] "/f".toList :=
    hclear _ [['f']] (by decide) (by decide) ⟨by decide, by decide⟩
  have cg : N.ClearName [['d']] "/g".toList :=
    hclear _ [['g']] (by decide) (by decide) ⟨by decide, by decide⟩
  refine ⟨⟨by decide, by decide⟩, ⟨cf, cg⟩, ⟨by decide, by decide⟩, cf, ?_⟩
  intro k hk' hname j hkj hv
  have : k = [['f']] := kp_inj hk' (by decide) (hname.symm.trans (by decide))
  subst this
  by_cases hvis : [['d']] <+: j
  · rw [N.nview_base_hid hvis] at hv; exact absurd rfl hv
  · rw [N.nview_base_vis hvis] at hv
    cases hj : exDisk.get ([['b']] ++ j) with
    | none => rw [hj] at hv; exact absurd rfl hv
    | some n0 =>
      rcases exDisk_live hj with ⟨e, _⟩ | ⟨e, _⟩ | ⟨e, _⟩ | ⟨e, _⟩ | ⟨e, _⟩ <;>
        (have := congrArg List.length e
         rw [List.length_append] at this
         simp only [List.length_cons, List.length_nil] at this
         simp only [List.length_cons, List.length_nil]
         omega)

end Props.C03
