import Lemmas
import Props.C11
/-!
# C15 — HiddenFS is transparent for everything that is not hidden (lexical part)

The non-hidden branch of every HiddenFS method delegates the *unchanged* arguments to the base
filesystem (`Create` as `OpenFile(name, O_RDWR|O_CREATE|O_TRUNC, 0666)`, `Open` as
`OpenFile(name, O_RDONLY, 0)`, which is what `os.Create` / `os.Open` are).  `RemoveAll` and
listings differ on purpose (C11).  `Rename` of an *ancestor* of a hidden path is refused (C11's
"no operation can relocate hidden content by renaming one of its ancestors") and is therefore
excluded here by hypothesis.
-/
namespace Props.C15
open BFS BFS.HiddenFS

/-- T15.1 hidden means component-wise inside a hidden path: a sibling that merely shares a
string prefix (`backups2` next to `backups`) is never reported hidden. -/
theorem isHidden_sound (hs : List Path) (name : Path) (h : isHidden name hs = .ok true) :
    ∃ hp ∈ hs, Within hp name :=
  isHidden_true h

/-- T15.1b a name outside every hidden path (and comparable with them, e.g. all rooted) is
visible -/
theorem visible_of_outside (hs : List Path) (name : Path)
    (hout : ∀ hp ∈ hs, ¬ Within hp name) (hc : Comparable hs name) : isHidden name hs = .ok false :=
  isHidden_visible hout hc

/-- what the base receives for a visible call -/
def delegated : Call → Call
  | .create n => .openFile n (O_RDWR ||| O_CREATE ||| O_TRUNC) 0o666
  | .open_ n => .openFile n O_RDONLY 0
  | c => c

/-- T15.2 (all methods) for visible names the base receives exactly the caller's arguments -/
theorem nonhidden_delegates (hs : List Path) (c : Call)
    (hvis : ∀ n ∈ guardedNames c, isHidden n hs = .ok false)
    (hanc : ∀ o n, c = .rename o n → isParentOfHidden o hs = .ok false ∧ isParentOfHidden n hs = .ok false) :
    translate hs c = .ok (delegated c) := by
  cases c
  all_goals try (
    simp only [guardedNames, Call.accessPaths, List.mem_singleton, forall_eq] at hvis
    simp only [translate, delegated, bind, Except.bind, pure, Except.pure, hguard_of_visible _ hvis]
    done)
  · rename_i o n
    simp only [guardedNames, List.mem_cons, List.not_mem_nil, or_false] at hvis
    have h1 := hvis o (Or.inl rfl)
    have h2 := hvis n (Or.inr rfl)
    simp only [translate, delegated, bind, Except.bind, pure, Except.pure, hguard_of_visible _ h1,
      hguard_of_visible _ h2, (hanc o n rfl).1, (hanc o n rfl).2]
  · rename_i o n
    simp only [guardedNames, List.mem_cons, List.not_mem_nil, or_false] at hvis
    have h1 := hvis _ (Or.inl rfl)
    have h2 := hvis n (Or.inr rfl)
    simp only [translate, delegated, bind, Except.bind, pure, Except.pure, hguard_of_visible _ h1,
      hguard_of_visible _ h2]

/-- T15.3 the handle returned for a visible name is the base's handle for the same name: the
only override of `hiddenFile` is the listing filter (C11). Stated as: translation never rewrites a
path argument. -/
theorem arguments_unchanged (hs : List Path) (c c' : Call) (h : translate hs c = .ok c') :
    c' = delegated c := by
  cases c <;> simp only [translate, bind, Except.bind, pure, Except.pure] at h
  all_goals first
    | (split at h
       · cases h
       · cases h; rfl)
    | skip
  · rename_i o n
    split at h
    · cases h
    · split at h
      · cases h
      · cases h
      · split at h
        · cases h
        · split at h
          · cases h
          · cases h
          · cases h; rfl
  · rename_i o n
    split at h
    · cases h
    · split at h
      · cases h
      · cases h; rfl

/-! ## non-vacuity -/
example : translate (mk ["/var/opt/backups".toList]) (.mkdir "/var/opt/backups2".toList 0o755)
    = .ok (.mkdir "/var/opt/backups2".toList 0o755) := by decide
example : translate (mk ["/var/opt/backups".toList]) (.rename "/a".toList "/b//c".toList)
    = .ok (.rename "/a".toList "/b//c".toList) := by decide

/-- T15.R  `RemoveAll` is transparent too when no hidden path is related to the argument (neither
at or below it nor one of its ancestors): on the link-free OS model behind `PrefixFS`, for an
existing entry `k ≠ /` whose subtree fits the walk's depth bound, `HiddenFS.RemoveAll` returns nil,
removes the whole subtree and touches nothing else — the result and effect of the underlying
`RemoveAll` (`Sim.removeAll_ok`, `Sim.removeAll_frame`).  With hidden paths below the argument the
difference is exactly the spared set of `Props.C11.removeAll_spares_hidden` /
`removeAll_removes_the_rest`. -/
theorem removeAll_transparent_linkfree_partial (bk kk : Key) (hbk : PKey bk) (hkk : PKey kk)
    (hne1 : bk ≠ []) (hne2 : kk ≠ []) (hd1 : ¬ bk <+: kk) (hd2 : ¬ kk <+: bk)
    (hks : List Key) (hp : ∀ h ∈ hks, PKey h) (k : Key) (hk : PKey k) (hne : k ≠ [])
    (m : MFS) (hg : OSGood bk kk m) (fuel : Nat)
    (hunrel : ∀ h ∈ hks, ¬ h <+: k ∧ ¬ k <+: h)
    (hex : osView bk kk .base m k ≠ none)
    (hht : ∀ j, k <+: j → osView bk kk .base m j ≠ none → j.length < k.length + fuel) :
    let res := hiddenRemoveAll (HiddenFS.mk (hks.map kp)) ((osCfg bk kk).side .base) fuel m (kp k)
    res.2 = .ok () ∧
    (∀ j, k <+: j → osView bk kk .base res.1 j = none) ∧
    (∀ j, ¬ k <+: j → osView bk kk .base res.1 j = osView bk kk .base m j) ∧
    osView bk kk .backup res.1 = osView bk kk .backup m := by
  intro res
  have hvis : ¬ ∃ h ∈ hks, h <+: k := fun ⟨h, hh, hpre⟩ => (hunrel h hh).1 hpre
  have hok := Props.C11.removeAll_succeeds bk kk hbk hkk hne1 hne2 hd1 hd2 hks hp k hk hne m hg fuel hvis hex hht
  have hsafe := Props.C11.removeAll_spares_hidden bk kk hbk hkk hne1 hne2 hd1 hd2 hks hp k hk hne m hg fuel
  have hrest := Props.C11.removeAll_removes_the_rest bk kk hbk hkk hne1 hne2 hd1 hd2 hks hp k hk hne m hg fuel hok
  refine ⟨hok, ?_, hsafe.2.2.1, hsafe.2.1⟩
  intro j hj
  apply hrest j hj
  · rintro ⟨h, hh, hpre⟩
    -- a hidden key at or above `j` (which is below `k`) would be related to `k`
    rcases List.prefix_or_prefix_of_prefix hpre hj with h1 | h1
    · exact (hunrel h hh).1 h1
    · exact (hunrel h hh).2 h1
  · rintro ⟨⟨h, hh, hpre, _⟩, _⟩
    exact (hunrel h hh).2 (hj.trans hpre)

end Props.C15
