import Lemmas.UStep
import Lemmas.UStepB
import Props.C01G
/-!
# C03 — BackupFS is transparent: names THROUGH FLAT SYMLINKS

The clause in parentheses of the property: "… as the same operation issued directly on the base
filesystem (with symlinked parent directories of the path resolved first …)".

Setting: that of `Props.C01.rollback_restores_through_flat_links_partial` — the OS model behind two
`PrefixFS` layers (`osCfg bk kk`), a well-formed disk WITH symlinks (`L.OSGoodL`), nothing tracked,
healthy filesystems (empty fault plan), every symlink of the backup tree at a place where the base has
one too (e.g. an empty backup directory); any history `ops` covered by C01's through-flat-links fragment
(`L.G.CoveredHist`) has been run, and `op` is the next operation, issued in `w := runOps cfg w0 ops`.

`Op.direct (osCfg bk kk).base w.fs op` gets the CALLER's name: the kernel (model: `namei`) resolves the
symlinked parents itself.  `Op.exec` resolves with `realPath` and issues the base call on the resolved
name.

* `transparent_through_flat_links_partial` — for every operation of `U.Op.CoveredU` (classes A: `Mkdir`,
  `Remove`, `Lchown`, `Symlink`; B: `Create`, `OpenFile` + writes, `Chmod`, `Chown`, `Chtimes`, `Stat`, `Lstat`,
  `Readlink`; C: `Rename`; D (part): `RemoveAll` of a name whose resolved key is not a directory; E (part):
  `MkdirAll` when the resolved key exists or its parent is a live directory — absolute names of at most 40
  components through any number of FLAT links; following operations only when the RESOLVED final component is
  not a symlink):
  **if the backup phase of the operation succeeds** (`Op.backupPhase`, Lemmas/UDef.lean: `realPath;
  tryBackup` — the part of the operation that runs before the base is touched) then
  (a) the operation through BackupFS succeeds iff the direct call does — with the ONE exception of C03T, an
      explicit disjunct: `RemoveAll` below a regular file, nil through BackupFS, ENOTDIR directly (the adopted
      reading; `removeAll_below_file_through_link_differs`) — with the same data (handles: same key, kind,
      flags — the NAME a handle reports is the resolved path, see `handle_name_differs`) and, on failure, the
      SAME error class;
  (b) the base views afterwards coincide at every key (`L.eraseV`: whole nodes; directory timestamps, a
      symlink's timestamp and mode bits erased, link targets as `Readlink` through the base reports them);
  **if the backup phase fails** with `e`, the operation fails with `e` and the base view is what it was.
  (This conditional form needs no assumption on the backup directory.)
* `transparent_through_flat_links_healthy_partial` — the UNCONDITIONAL statement (tier 2): backup directory
  empty at the start, history of operations of the finished classes (`U.HistB`), next operation `CoveredU` and
  `CoveredB` (the backup side admits the copy of a final symlink; `Remove`/`RemoveAll` not of the root;
  `OpenFile`-for-writing on a non-symlink): (a), (b) as above WITHOUT the premise, the error classes equal except
  that BackupFS reports `errDirInfoExpected` where the direct call reports ENOTDIR/ENOENT (a proper ancestor of
  the name is a regular file; EPERM for a `Symlink` that `PrefixFS` refuses).  Key lemma `U.sat_tryBackupTL`
  (Lemmas/UPrepB.lean): under `L.Inv` and the backup-side clauses `U.BInvL` (the `InvB` of C07, restated for the
  symlink development in Lemmas/UInvB.lean) `tryBackup` succeeds, or fails exactly because a proper ancestor
  is an untracked regular file — so "no finding inside the fragment" is itself a theorem here too.
  (`Props/C03UB.lean`: the same after ANY history of C01's fragment, using another work package's invariant.)
* `transparent_nonfollowing_…`, `transparent_following_…`, `transparent_rename_…`,
  `transparent_removeAll_nondirectory_…`, `transparent_mkdirAll_parent_exists_…`: the classes one by one.
* Witnesses of what the hypotheses exclude (kernel-checked on `Props.C16.flatDisk`, all three replayed on
  the Go code, see NOTES): `handle_name_differs`, `rename_same_directory_two_names_differs`,
  `symlink_relative_target_admission_differs`; `mkdirAll_dangling_parent_differs` (K-dangling-link-parent:
  a dangling link is flat).
-/
namespace Props.C03
open BFS BFS.BackupFS BFS.L BFS.F16 BFS.U Props.C16 Props.C01

/-- what the conclusion says about one step, spelled out -/
def TransparentStep (bk : Key) (w : World) (op : Op) (ph : Except Err Unit) (x : World × Except Err OpOut)
    (d : MFS × Except Err DOut) : Prop :=
  (∀ u, ph = .ok u →
    -- (a) same success / failure — but for `RemoveAll` below a regular file (the adopted reading)
    (((∃ a, x.2 = .ok a) ↔ (∃ b, d.2 = .ok b)) ∨
      (U.Op.isRA op ∧ (∃ a, x.2 = .ok a) ∧ ∃ e, d.2 = .error e ∧ e.isNotFound = true)) ∧
    -- same data, same error
    (∀ a b, x.2 = .ok a → d.2 = .ok b → DataAgree a.data b) ∧
    (∀ e1 e2, x.2 = .error e1 → d.2 = .error e2 → e1 = e2) ∧
    -- (b) same base view afterwards
    (∀ k, (x.1.fs.get (bk ++ k)).map (eraseV (kp bk)) = (d.1.get (bk ++ k)).map (eraseV (kp bk)))) ∧
  (∀ e, ph = .error e →
    x.2 = .error e ∧ ∀ k, (x.1.fs.get (bk ++ k)).map (eraseV (kp bk)) = (w.fs.get (bk ++ k)).map (eraseV (kp bk)))

theorem transparentStep_of {bk : Key} {w : World} {op : Op} {ph : Except Err Unit} {x : World × Except Err OpOut}
    {d : MFS × Except Err DOut} (h : TranspRA bk w ph x.1 x.2 d)
    (hra : ¬ U.Op.isRA op → TranspU bk w ph x.1 x.2 d) : TransparentStep bk w op ph x d := by
  cases ph with
  | ok u =>
    obtain ⟨hres, hueq⟩ := h
    refine ⟨fun _ _ => ?_, ?_⟩
    · rcases hres with hres | ⟨⟨a, ha⟩, e, he, hnf⟩
      · exact ⟨Or.inl hres.success_iff, fun a b ha hb => hres.same_data ha hb,
          fun e1 e2 h1 h2 => hres.same_error h1 h2, fun k => hueq.get _ (List.prefix_append _ _)⟩
      · by_cases hop : U.Op.isRA op
        · refine ⟨Or.inr ⟨hop, ⟨a, ha⟩, e, he, hnf⟩, ?_, ?_, fun k => hueq.get _ (List.prefix_append _ _)⟩
          · intro a' b _ hb; rw [he] at hb; cases hb
          · intro e1 e2 h1 _; rw [ha] at h1; cases h1
        · have h' := (hra hop).1
          exact ⟨Or.inl h'.success_iff, fun a b ha hb => h'.same_data ha hb,
            fun e1 e2 h1 h2 => h'.same_error h1 h2, fun k => hueq.get _ (List.prefix_append _ _)⟩
    · intro e he; cases he
  | error e =>
    obtain ⟨hres, hueq⟩ := h
    refine ⟨fun u hu => (by cases hu), ?_⟩
    intro e' he'
    cases he'
    exact ⟨hres, fun k => hueq.get _ (List.prefix_append _ _)⟩

/-- T03.U  BackupFS is transparent — names through FLAT symlinks, healthy filesystems (see the header). -/
theorem transparent_through_flat_links_partial (bk kk : Key) (hbk : PKey bk) (hkk : PKey kk)
    (hne1 : bk ≠ []) (hne2 : kk ≠ []) (hd1 : ¬ bk <+: kk) (hd2 : ¬ kk <+: bk)
    (w0 : World) (hg : OSGoodL bk kk w0.fs) (hinfos : w0.infos = []) (hnf : w0.faults = [])
    (hbl : ∀ k, (∃ t mt, w0.fs.get (kk ++ k) = some (.link t mt)) → ∃ t mt, w0.fs.get (bk ++ k) = some (.link t mt))
    (ops : List Op) (hcov : G.CoveredHist (osCfg bk kk) bk (osSimL bk kk hbk hkk hne1 hne2 hd1 hd2) w0 ops)
    (op : Op) (hop : U.Op.CoveredU bk (osSimL bk kk hbk hkk hne1 hne2 hd1 hd2) (runOps (osCfg bk kk) w0 ops) op) :
    let w := runOps (osCfg bk kk) w0 ops
    TransparentStep bk w op (Op.backupPhase (osCfg bk kk) op w).2 (Op.exec (osCfg bk kk) op w)
      (Op.direct (osCfg bk kk).base w.fs op) := by
  intro w
  have hr : Roots bk kk := ⟨hbk, hkk, hne1, hne2, hd1, hd2⟩
  have hk := G.history_keeps (hbk := hbk) (hkk := hkk) (hne1 := hne1) (hne2 := hne2) (hd1 := hd1) (hd2 := hd2)
    ops w0 (L.Inv.init (S := osSimL bk kk hbk hkk hne1 hne2 hd1 hd2) hg hinfos
      (fun k hl => Props.C01L.isLinkAt_osViewL.mpr (hbl k (Props.C01L.isLinkAt_osViewL.mp hl)))) hcov
  exact transparentStep_of (op_transpRA hr hk.inv (hk.faults.trans hnf) hop)
    (fun hnra => op_transpU hr hk.inv (hk.faults.trans hnf) hop hnra)

/-! ### tier 2: the backup copy succeeds on healthy filesystems — the unconditional statement -/

/-- what the unconditional conclusion says about one step -/
def TransparentStepB (bk : Key) (op : Op) (x : World × Except Err OpOut) (d : MFS × Except Err DOut) : Prop :=
  -- (a) same success / failure — but for `RemoveAll` below a regular file (the adopted reading)
  (((∃ a, x.2 = .ok a) ↔ (∃ b, d.2 = .ok b)) ∨
    (U.Op.isRA op ∧ (∃ a, x.2 = .ok a) ∧ ∃ e, d.2 = .error e ∧ e.isNotFound = true)) ∧
  -- same data
  (∀ a b, x.2 = .ok a → d.2 = .ok b → DataAgree a.data b) ∧
  -- same error, but for `errDirInfoExpected` where the direct call says ENOTDIR / ENOENT (a proper ancestor of the
  -- name is a regular file) or EPERM (`PrefixFS` refuses a relative `Symlink` target before the kernel sees it)
  (∀ e1 e2, x.2 = .error e1 → d.2 = .error e2 → e1 = e2 ∨ (e1 = .typeMismatch ∧ FailCls e2)) ∧
  -- (b) same base view afterwards
  (∀ k, (x.1.fs.get (bk ++ k)).map (eraseV (kp bk)) = (d.1.get (bk ++ k)).map (eraseV (kp bk)))

theorem transparentStepB_of {bk kk : Key} {hr : Roots bk kk} {r0 : Option Node} {w : World} {op : Op}
    (h1 : TransparentStep bk w op (Op.backupPhase (osCfg bk kk) op w).2 (Op.exec (osCfg bk kk) op w)
      (Op.direct (baseFS bk kk) w.fs op))
    (h2 : StepB hr r0 w op) :
    TransparentStepB bk op (Op.exec (osCfg bk kk) op w) (Op.direct (baseFS bk kk) w.fs op) := by
  cases hph : (Op.backupPhase (osCfg bk kk) op w).2 with
  | ok u =>
    obtain ⟨a, b, c, d⟩ := h1.1 u hph
    exact ⟨a, b, fun e1 e2 x y => Or.inl (c e1 e2 x y), d⟩
  | error e =>
    obtain ⟨hx, hv⟩ := h1.2 e hph
    obtain ⟨he, hd1, e', hd2, hcls⟩ := h2.fail e hph
    refine ⟨Or.inl ⟨?_, ?_⟩, ?_, ?_, ?_⟩
    · rintro ⟨a, ha⟩; rw [hx] at ha; cases ha
    · rintro ⟨b, hb⟩; rw [hd2] at hb; cases hb
    · intro a b ha _; rw [hx] at ha; cases ha
    · intro e1 e2 h1' h2'
      rw [hx] at h1'; cases h1'
      rw [hd2] at h2'; cases h2'
      exact Or.inr ⟨he, hcls⟩
    · intro k; rw [hv k, hd1]

/-- T03.U2  BackupFS is transparent — names through FLAT symlinks, healthy filesystems, backup directory empty
at the start: the UNCONDITIONAL statement.  The history consists of operations of the finished classes
(`U.HistB`: each covered by C01's through-flat-links fragment, by `CoveredU` and by `CoveredB`), so that the
backup-side clauses `U.BInvL` hold when `op` is issued; then the backup phase of `op` fails only where the
direct call fails too (`U.StepB.fail`, from `U.sat_tryBackupTL`). -/
theorem transparent_through_flat_links_healthy_partial (bk kk : Key) (hbk : PKey bk) (hkk : PKey kk)
    (hne1 : bk ≠ []) (hne2 : kk ≠ []) (hd1 : ¬ bk <+: kk) (hd2 : ¬ kk <+: bk)
    (w0 : World) (hg : OSGoodL bk kk w0.fs) (hinfos : w0.infos = []) (hnf : w0.faults = [])
    (hempty : ∀ k, k ≠ [] → w0.fs.get (kk ++ k) = none)
    (ops : List Op) (hcov : U.HistB bk kk ⟨hbk, hkk, hne1, hne2, hd1, hd2⟩ w0 ops)
    (op : Op) (hop : U.Op.CoveredU bk (osSimL bk kk hbk hkk hne1 hne2 hd1 hd2) (runOps (osCfg bk kk) w0 ops) op)
    (hopb : U.Op.CoveredB bk (osSimL bk kk hbk hkk hne1 hne2 hd1 hd2) (runOps (osCfg bk kk) w0 ops) op) :
    let w := runOps (osCfg bk kk) w0 ops
    TransparentStepB bk op (Op.exec (osCfg bk kk) op w) (Op.direct (osCfg bk kk).base w.fs op) := by
  intro w
  have hr : Roots bk kk := ⟨hbk, hkk, hne1, hne2, hd1, hd2⟩
  have hbl : BackupLinksOK (osSimL bk kk hbk hkk hne1 hne2 hd1 hd2) w0.fs := by
    intro k hl
    obtain ⟨t, mt, hget⟩ := Props.C01L.isLinkAt_osViewL.mp hl
    by_cases hk : k = []
    · subst hk
      obtain ⟨mt', hd⟩ := hg.kdir
      have hget' : w0.fs.get (kk ++ []) = some (.link t mt) := hget
      rw [List.append_nil, hd] at hget'
      cases hget'
    · have hget' : w0.fs.get (kk ++ k) = some (.link t mt) := hget
      rw [hempty k hk] at hget'
      cases hget'
  have hinv0 := L.Inv.init (S := osSimL bk kk hbk hkk hne1 hne2 hd1 hd2) hg hinfos hbl
  have hb0 : BInvL (osSimL bk kk hbk hkk hne1 hne2 hd1 hd2) _ w0 :=
    BInvL.init (S := osSimL bk kk hbk hkk hne1 hne2 hd1 hd2) hinfos hnf (by
      intro k hk
      show (w0.fs.get (kk ++ k)).map _ = none
      rw [hempty k hk]; rfl)
  obtain ⟨hinv, hb⟩ := history_keepsB hr ops w0 hinv0 hb0 hcov
  have h1 := transparentStep_of (op := op) (op_transpRA hr hinv hb.nofault hop)
    (fun hnra => op_transpU hr hinv hb.nofault hop hnra)
  exact transparentStepB_of h1 (op_stepB hr hinv hb hop hopb)

/-! ### the classes one by one -/

/-- A — non-following single-path mutators -/
def IsNonFollowing : Op → Prop
  | .mkdir _ _ | .remove _ | .lchown _ _ _ | .symlink _ _ => True
  | _ => False

/-- B — operations that follow a final symlink (here: the resolved final component is not one), and the
read-only operations -/
def IsFollowing : Op → Prop
  | .creat _ _ | .write _ _ _ _ | .chmod _ _ | .chown _ _ _ | .chtimes _ _ | .stat _ | .lstat _ | .readlink _ => True
  | _ => False

/-- E (part) — `MkdirAll` (covered when the resolved key exists or its parent is a live directory) -/
def IsMkdirAll : Op → Prop
  | .mkdirAll _ _ => True
  | _ => False

def IsRename : Op → Prop
  | .rename _ _ => True
  | _ => False

/-- D (part) — `RemoveAll` (covered when the resolved key is not a directory) -/
def IsRemoveAll : Op → Prop
  | .removeAll _ => True
  | _ => False

/-- the finished classes are exactly A, B, C, `RemoveAll` and `MkdirAll` -/
theorem coveredU_classes {cfg : Cfg} {bk : Key} {S : LSim cfg} {w : World} {op : Op} (h : U.Op.CoveredU bk S w op) :
    IsNonFollowing op ∨ IsFollowing op ∨ IsRename op ∨ IsRemoveAll op ∨ IsMkdirAll op := by
  cases op <;> first | exact absurd h id | exact Or.inl trivial | exact Or.inr (Or.inl trivial) |
    exact Or.inr (Or.inr (Or.inl trivial)) | exact Or.inr (Or.inr (Or.inr (Or.inl trivial))) |
    exact Or.inr (Or.inr (Or.inr (Or.inr trivial)))

theorem transparent_nonfollowing_through_flat_links_partial (bk kk : Key) (hbk : PKey bk) (hkk : PKey kk)
    (hne1 : bk ≠ []) (hne2 : kk ≠ []) (hd1 : ¬ bk <+: kk) (hd2 : ¬ kk <+: bk)
    (w0 : World) (hg : OSGoodL bk kk w0.fs) (hinfos : w0.infos = []) (hnf : w0.faults = [])
    (hbl : ∀ k, (∃ t mt, w0.fs.get (kk ++ k) = some (.link t mt)) → ∃ t mt, w0.fs.get (bk ++ k) = some (.link t mt))
    (ops : List Op) (hcov : G.CoveredHist (osCfg bk kk) bk (osSimL bk kk hbk hkk hne1 hne2 hd1 hd2) w0 ops)
    (op : Op) (_hcls : IsNonFollowing op)
    (hop : U.Op.CoveredU bk (osSimL bk kk hbk hkk hne1 hne2 hd1 hd2) (runOps (osCfg bk kk) w0 ops) op) :
    TransparentStep bk (runOps (osCfg bk kk) w0 ops) op
      (Op.backupPhase (osCfg bk kk) op (runOps (osCfg bk kk) w0 ops)).2
      (Op.exec (osCfg bk kk) op (runOps (osCfg bk kk) w0 ops))
      (Op.direct (osCfg bk kk).base (runOps (osCfg bk kk) w0 ops).fs op) :=
  transparent_through_flat_links_partial bk kk hbk hkk hne1 hne2 hd1 hd2 w0 hg hinfos hnf hbl ops hcov op hop

theorem transparent_following_through_flat_links_partial (bk kk : Key) (hbk : PKey bk) (hkk : PKey kk)
    (hne1 : bk ≠ []) (hne2 : kk ≠ []) (hd1 : ¬ bk <+: kk) (hd2 : ¬ kk <+: bk)
    (w0 : World) (hg : OSGoodL bk kk w0.fs) (hinfos : w0.infos = []) (hnf : w0.faults = [])
    (hbl : ∀ k, (∃ t mt, w0.fs.get (kk ++ k) = some (.link t mt)) → ∃ t mt, w0.fs.get (bk ++ k) = some (.link t mt))
    (ops : List Op) (hcov : G.CoveredHist (osCfg bk kk) bk (osSimL bk kk hbk hkk hne1 hne2 hd1 hd2) w0 ops)
    (op : Op) (_hcls : IsFollowing op)
    (hop : U.Op.CoveredU bk (osSimL bk kk hbk hkk hne1 hne2 hd1 hd2) (runOps (osCfg bk kk) w0 ops) op) :
    TransparentStep bk (runOps (osCfg bk kk) w0 ops) op
      (Op.backupPhase (osCfg bk kk) op (runOps (osCfg bk kk) w0 ops)).2
      (Op.exec (osCfg bk kk) op (runOps (osCfg bk kk) w0 ops))
      (Op.direct (osCfg bk kk).base (runOps (osCfg bk kk) w0 ops).fs op) :=
  transparent_through_flat_links_partial bk kk hbk hkk hne1 hne2 hd1 hd2 w0 hg hinfos hnf hbl ops hcov op hop

theorem transparent_rename_through_flat_links_partial (bk kk : Key) (hbk : PKey bk) (hkk : PKey kk)
    (hne1 : bk ≠ []) (hne2 : kk ≠ []) (hd1 : ¬ bk <+: kk) (hd2 : ¬ kk <+: bk)
    (w0 : World) (hg : OSGoodL bk kk w0.fs) (hinfos : w0.infos = []) (hnf : w0.faults = [])
    (hbl : ∀ k, (∃ t mt, w0.fs.get (kk ++ k) = some (.link t mt)) → ∃ t mt, w0.fs.get (bk ++ k) = some (.link t mt))
    (ops : List Op) (hcov : G.CoveredHist (osCfg bk kk) bk (osSimL bk kk hbk hkk hne1 hne2 hd1 hd2) w0 ops)
    (o n : Path)
    (hop : U.Op.CoveredU bk (osSimL bk kk hbk hkk hne1 hne2 hd1 hd2) (runOps (osCfg bk kk) w0 ops) (.rename o n)) :
    TransparentStep bk (runOps (osCfg bk kk) w0 ops) (.rename o n)
      (Op.backupPhase (osCfg bk kk) (.rename o n) (runOps (osCfg bk kk) w0 ops)).2
      (Op.exec (osCfg bk kk) (.rename o n) (runOps (osCfg bk kk) w0 ops))
      (Op.direct (osCfg bk kk).base (runOps (osCfg bk kk) w0 ops).fs (.rename o n)) :=
  transparent_through_flat_links_partial bk kk hbk hkk hne1 hne2 hd1 hd2 w0 hg hinfos hnf hbl ops hcov _ hop

theorem transparent_removeAll_nondirectory_through_flat_links_partial (bk kk : Key) (hbk : PKey bk) (hkk : PKey kk)
    (hne1 : bk ≠ []) (hne2 : kk ≠ []) (hd1 : ¬ bk <+: kk) (hd2 : ¬ kk <+: bk)
    (w0 : World) (hg : OSGoodL bk kk w0.fs) (hinfos : w0.infos = []) (hnf : w0.faults = [])
    (hbl : ∀ k, (∃ t mt, w0.fs.get (kk ++ k) = some (.link t mt)) → ∃ t mt, w0.fs.get (bk ++ k) = some (.link t mt))
    (ops : List Op) (hcov : G.CoveredHist (osCfg bk kk) bk (osSimL bk kk hbk hkk hne1 hne2 hd1 hd2) w0 ops)
    (p : Path)
    (hop : U.Op.CoveredU bk (osSimL bk kk hbk hkk hne1 hne2 hd1 hd2) (runOps (osCfg bk kk) w0 ops) (.removeAll p)) :
    TransparentStep bk (runOps (osCfg bk kk) w0 ops) (.removeAll p)
      (Op.backupPhase (osCfg bk kk) (.removeAll p) (runOps (osCfg bk kk) w0 ops)).2
      (Op.exec (osCfg bk kk) (.removeAll p) (runOps (osCfg bk kk) w0 ops))
      (Op.direct (osCfg bk kk).base (runOps (osCfg bk kk) w0 ops).fs (.removeAll p)) :=
  transparent_through_flat_links_partial bk kk hbk hkk hne1 hne2 hd1 hd2 w0 hg hinfos hnf hbl ops hcov _ hop

theorem transparent_mkdirAll_parent_exists_through_flat_links_partial (bk kk : Key) (hbk : PKey bk) (hkk : PKey kk)
    (hne1 : bk ≠ []) (hne2 : kk ≠ []) (hd1 : ¬ bk <+: kk) (hd2 : ¬ kk <+: bk)
    (w0 : World) (hg : OSGoodL bk kk w0.fs) (hinfos : w0.infos = []) (hnf : w0.faults = [])
    (hbl : ∀ k, (∃ t mt, w0.fs.get (kk ++ k) = some (.link t mt)) → ∃ t mt, w0.fs.get (bk ++ k) = some (.link t mt))
    (ops : List Op) (hcov : G.CoveredHist (osCfg bk kk) bk (osSimL bk kk hbk hkk hne1 hne2 hd1 hd2) w0 ops)
    (p : Path) (perm : Nat)
    (hop : U.Op.CoveredU bk (osSimL bk kk hbk hkk hne1 hne2 hd1 hd2) (runOps (osCfg bk kk) w0 ops) (.mkdirAll p perm)) :
    TransparentStep bk (runOps (osCfg bk kk) w0 ops) (.mkdirAll p perm)
      (Op.backupPhase (osCfg bk kk) (.mkdirAll p perm) (runOps (osCfg bk kk) w0 ops)).2
      (Op.exec (osCfg bk kk) (.mkdirAll p perm) (runOps (osCfg bk kk) w0 ops))
      (Op.direct (osCfg bk kk).base (runOps (osCfg bk kk) w0 ops).fs (.mkdirAll p perm)) :=
  transparent_through_flat_links_partial bk kk hbk hkk hne1 hne2 hd1 hd2 w0 hg hinfos hnf hbl ops hcov _ hop

/-! ## what the hypotheses exclude: kernel-checked witnesses on `Props.C16.flatDisk`

Base root `/b`, backup root `/k` (names below relative to the base root): directories `/real`, `/real/sub`,
`/d`, file `/real/sub/f`, links `/abs -> /real`, `/d/rel -> ../real/./sub`, `/d/up -> ../d/../real`,
`/real/fl -> sub/f`, `/dang -> real/nope` (dangling). -/

/-- the name a returned handle reports -/
def xName : Except Err OpOut → Option Path
  | .ok (.written h _) => some h.h.name
  | _ => none
def dName : Except Err DOut → Option Path
  | .ok (.written h _) => some h.name
  | _ => none
/-- `some none` = success, `some (some e)` = failure with `e` -/
def xOut : Except Err OpOut → Option Err
  | .ok _ => none
  | .error e => some e
def dOut : Except Err DOut → Option Err
  | .ok _ => none
  | .error e => some e

/-- `Create("/abs/sub/new")` through the directory link `/abs`: both succeed on the same entry, but the
handle through BackupFS reports the RESOLVED name (`File.Name()` = `/real/sub/new`), the direct one the
caller's.  This is why clause (a) compares handles by `U.hcore` (key, kind, flags). -/
theorem handle_name_differs :
    xName (Op.exec exCfg (.creat "/abs/sub/new".toList "hi") { fs := flatDisk }).2 = some "/real/sub/new".toList ∧
    dName (Op.direct exCfg.base flatDisk (.creat "/abs/sub/new".toList "hi")).2 = some "/abs/sub/new".toList :=
  ⟨by decide +kernel, by decide +kernel⟩

/-- **`Rename("/abs/sub", "/real/sub")`: two names of ONE directory.**  Directly: `os.Rename`'s pre-check
(`newname == oldname || !SameFile`) sees two different texts naming the same file and lets rename(2)
succeed as a no-op: nil.  Through BackupFS both names resolve to `/real/sub`, the texts are equal, and the
pre-check refuses: EEXIST.  Excluded by the last clause of `CoveredU` for `Rename`.  (Recorded by the harness as
K-rename-dir-onto-alias.) -/
theorem rename_same_directory_two_names_differs :
    Flat [['b']] flatDisk ∧
    xOut (Op.exec exCfg (.rename "/abs/sub".toList "/real/sub".toList) { fs := flatDisk }).2 = some .exist ∧
    dOut (Op.direct exCfg.base flatDisk (.rename "/abs/sub".toList "/real/sub".toList)).2 = none :=
  ⟨flatDisk_flat, by decide +kernel, by decide +kernel⟩

/-- **`Symlink("../../x", "/d/up/new")`, `/d/up -> /real` one level higher.**  `PrefixFS.Symlink` admits a
relative target iff it stays inside the prefix when applied LEXICALLY to the directory of the new name:
the caller's `/d/up` (two levels: admitted — and the link the kernel then creates in `/real` points out of
the base directory, the known K-prefix-lexical-links) for the direct call, the resolved `/real` (one
level: refused, EPERM) through BackupFS.  Excluded by `U.SymlinkAdm`. -/
theorem symlink_relative_target_admission_differs :
    xOut (Op.exec exCfg (.symlink "../../x".toList "/d/up/new".toList) { fs := flatDisk }).2 = some .perm ∧
    dOut (Op.direct exCfg.base flatDisk (.symlink "../../x".toList "/d/up/new".toList)).2 = none :=
  ⟨by decide +kernel, by decide +kernel⟩

/-- `MkdirAll("/dang/x")` below the dangling (but flat) link `/dang -> real/nope`: BackupFS creates
`/real/nope/x`, the direct call fails (K-dangling-link-parent).  Excluded by the last clause of `CoveredU` for
`MkdirAll`: the resolved parent `/real/nope` is not a live directory. -/
theorem mkdirAll_dangling_parent_differs :
    xOut (Op.exec exCfg (.mkdirAll "/dang/x".toList 0o755) { fs := flatDisk }).2 = none ∧
    dOut (Op.direct exCfg.base flatDisk (.mkdirAll "/dang/x".toList 0o755)).2 = some .exist :=
  ⟨by decide +kernel, by decide +kernel⟩

/-! ## non-vacuity: after the first four operations of C01G's example, one operation of each class -/

/-- the state after `Create("/abs/sub/new")`, `Chmod("/d/rel/f")`, `Remove("/abs/fl")`,
`MkdirAll("/d/rel/x/y")` — every one of them through a symlinked directory -/
def wU : World := runOps cfgG wG0 opsG1

theorem notLinkAt_of_isLinkB {bk kk : Key} {hbk : PKey bk} {hkk : PKey kk} {hne1 : bk ≠ []} {hne2 : kk ≠ []}
    {hd1 : ¬ bk <+: kk} {hd2 : ¬ kk <+: bk} {w : World} {k : Key}
    (h : isLinkB w.fs (bk ++ G.rk bk w k) = false) :
    G.NotLinkAt (osSimL bk kk hbk hkk hne1 hne2 hd1 hd2) w (G.rk bk w k) := by
  intro hl
  obtain ⟨t, mt, hget⟩ := Props.C01L.isLinkAt_osViewL.mp hl
  exact isLinkB_false_iff.mp h t mt hget

theorem linkOKAt_of_notLinkAt {cfg : Cfg} {S : LSim cfg} {w : World} {r : Key} (h : G.NotLinkAt S w r) :
    G.LinkOKAt S w r := fun t mt hv => absurd ⟨t, mt, hv⟩ h

set_option maxRecDepth 100000 in
/-- A: `Mkdir("/d/rel/x/z")` — through the relative link `/d/rel -> ../real/./sub` and the directory `x`
created in this transaction -/
theorem nonvacuous_mkdir : U.Op.CoveredU [['b']] osSimL_example wU (.mkdir "/d/rel/x/z".toList 0o700) := by
  have hK : PKey [['d'], "rel".toList, ['x'], ['z']] := by decide
  have hc : clean "/d/rel/x/z".toList = kp [['d'], "rel".toList, ['x'], ['z']] := by decide
  exact ⟨by decide, by decide +kernel, Props.C01L.covered_key hK hc
    ⟨by decide, linkOKAt_of_notLinkAt (notLinkAt_of_isLinkB (by decide +kernel))⟩⟩

set_option maxRecDepth 100000 in
/-- B: `Chown("/abs/sub/f", 5, 6)` — through the absolute link `/abs -> /real`; the file was `Chmod`-ed (and
backed up) earlier in the transaction -/
theorem nonvacuous_chown : U.Op.CoveredU [['b']] osSimL_example wU (.chown "/abs/sub/f".toList 5 6) := by
  have hK : PKey ["abs".toList, "sub".toList, ['f']] := by decide
  have hc : clean "/abs/sub/f".toList = kp ["abs".toList, "sub".toList, ['f']] := by decide
  exact ⟨by decide, by decide +kernel, Props.C01L.covered_key hK hc
    ⟨by decide, notLinkAt_of_isLinkB (by decide +kernel)⟩⟩

set_option maxRecDepth 100000 in
/-- C: `Rename("/abs/sub/f", "/d/rel/g")` — the two names go through two different links into the same
directory -/
theorem nonvacuous_rename :
    U.Op.CoveredU [['b']] osSimL_example wU (.rename "/abs/sub/f".toList "/d/rel/g".toList) := by
  have hKo : PKey ["abs".toList, "sub".toList, ['f']] := by decide
  have hco : clean "/abs/sub/f".toList = kp ["abs".toList, "sub".toList, ['f']] := by decide
  have hKn : PKey [['d'], "rel".toList, ['g']] := by decide
  have hcn : clean "/d/rel/g".toList = kp [['d'], "rel".toList, ['g']] := by decide
  refine ⟨by decide, by decide, by decide +kernel, ?_⟩
  intro ko kn hko hkn eo en
  have h1 := kp_inj hko hKo (eo.symm.trans hco)
  have h2 := kp_inj hkn hKn (en.symm.trans hcn)
  subst h1 h2
  have hro : G.rk [['b']] wU ["abs".toList, "sub".toList, ['f']] = ["real".toList, "sub".toList, ['f']] := by
    decide +kernel
  have hrn : G.rk [['b']] wU [['d'], "rel".toList, ['g']] = ["real".toList, "sub".toList, ['g']] := by
    decide +kernel
  refine ⟨by decide, by decide, linkOKAt_of_notLinkAt (notLinkAt_of_isLinkB (by decide +kernel)),
    linkOKAt_of_notLinkAt (notLinkAt_of_isLinkB (by decide +kernel)), ?_⟩
  rw [hro, hrn]
  intro h
  exact absurd h (by decide)

theorem linkOKAt_of_get {bk kk : Key} {hbk : PKey bk} {hkk : PKey kk} {hne1 : bk ≠ []} {hne2 : kk ≠ []}
    {hd1 : ¬ bk <+: kk} {hd2 : ¬ kk <+: bk} {w : World} {r : Key} {raw : Path} {m0 : Meta}
    (hget : w.fs.get (bk ++ r) = some (.link raw m0))
    (hok : osLinkOK bk kk .base r (PrefixFS.readlinkPost (kp bk) raw)) :
    G.LinkOKAt (osSimL bk kk hbk hkk hne1 hne2 hd1 hd2) w r := by
  intro t mt hv
  obtain ⟨raw', m0', h0, e1, _⟩ := osViewL_link hv
  have h0' : w.fs.get (bk ++ r) = some (.link raw' m0') := h0
  rw [hget] at h0'
  cases h0'
  rw [e1]
  exact hok

theorem not_isDirAt_of_isDirB {bk kk : Key} {w : World} {r : Key} (h : isDirB w.fs (bk ++ r) = false) :
    ¬ (osViewL bk kk .base w.fs).isDirAt r := by
  intro hd
  obtain ⟨mt, hget⟩ := osViewL_isDirAt hd
  have hget' : w.fs.get (bk ++ r) = some (.dir mt) := hget
  have : isDirB w.fs (bk ++ r) = true := isDirB_iff.mpr ⟨mt, hget'⟩
  rw [h] at this
  cases this

theorem not_isDirAt_rk {bk kk : Key} {hbk : PKey bk} {hkk : PKey kk} {hne1 : bk ≠ []} {hne2 : kk ≠ []}
    {hd1 : ¬ bk <+: kk} {hd2 : ¬ kk <+: bk} {w : World} {k : Key}
    (h : isDirB w.fs (bk ++ G.rk bk w k) = false) :
    ¬ ((osSimL bk kk hbk hkk hne1 hne2 hd1 hd2).view .base w.fs).isDirAt (G.rk bk w k) :=
  not_isDirAt_of_isDirB h

set_option maxRecDepth 100000 in
/-- D: `RemoveAll("/abs/sub/f")` — a regular file named through the link `/abs` — and `RemoveAll("/d/up/fl")` —
nothing there any more (`/real/fl` was removed earlier in the transaction), named through `/d/up` -/
theorem nonvacuous_removeAll : U.Op.CoveredU [['b']] osSimL_example wU (.removeAll "/abs/sub/f".toList) ∧
    U.Op.CoveredU [['b']] osSimL_example wU (.removeAll "/d/up/fl".toList) := by
  have hK1 : PKey ["abs".toList, "sub".toList, ['f']] := by decide
  have hc1 : clean "/abs/sub/f".toList = kp ["abs".toList, "sub".toList, ['f']] := by decide
  have hK2 : PKey [['d'], "up".toList, "fl".toList] := by decide
  have hc2 : clean "/d/up/fl".toList = kp [['d'], "up".toList, "fl".toList] := by decide
  exact ⟨⟨by decide, by decide +kernel, Props.C01L.covered_key hK1 hc1
      ⟨by decide, linkOKAt_of_notLinkAt (notLinkAt_of_isLinkB (by decide +kernel)), not_isDirAt_rk (by decide +kernel)⟩⟩,
    ⟨by decide, by decide +kernel, Props.C01L.covered_key hK2 hc2
      ⟨by decide, linkOKAt_of_notLinkAt (notLinkAt_of_isLinkB (by decide +kernel)), not_isDirAt_rk (by decide +kernel)⟩⟩⟩

theorem isDirAt_rk_dropLast {bk kk : Key} {hbk : PKey bk} {hkk : PKey kk} {hne1 : bk ≠ []} {hne2 : kk ≠ []}
    {hd1 : ¬ bk <+: kk} {hd2 : ¬ kk <+: bk} {w : World} {k : Key}
    (h : isDirB w.fs (bk ++ (G.rk bk w k).dropLast) = true) :
    ((osSimL bk kk hbk hkk hne1 hne2 hd1 hd2).view .base w.fs).isDirAt (G.rk bk w k).dropLast := by
  obtain ⟨mt, hget⟩ := isDirB_iff.mp h
  exact osViewL_isDirAt_of (s := .base) hget

set_option maxRecDepth 100000 in
/-- E: `MkdirAll("/d/rel/x/y/z")` — one new directory below `/real/sub/x/y` (created in this transaction), named
through the relative link `/d/rel` -/
theorem nonvacuous_mkdirAll : U.Op.CoveredU [['b']] osSimL_example wU (.mkdirAll "/d/rel/x/y/z".toList 0o750) := by
  have hK : PKey [['d'], "rel".toList, ['x'], ['y'], ['z']] := by decide
  have hc : clean "/d/rel/x/y/z".toList = kp [['d'], "rel".toList, ['x'], ['y'], ['z']] := by decide
  exact ⟨by decide, by decide +kernel, Props.C01L.covered_key hK hc
    ⟨by decide, notLinkAt_of_isLinkB (by decide +kernel), Or.inr (isDirAt_rk_dropLast (by decide +kernel))⟩⟩

/-- the adopted-reading exception through a link: `RemoveAll("/abs/sub/f/x")` below the regular file
`/real/sub/f`: nil through BackupFS, ENOTDIR directly -/
theorem removeAll_below_file_through_link_differs :
    xOut (Op.exec exCfg (.removeAll "/abs/sub/f/x".toList) { fs := flatDisk }).2 = none ∧
    dOut (Op.direct exCfg.base flatDisk (.removeAll "/abs/sub/f/x".toList)).2 = some .notDir :=
  ⟨by decide +kernel, by decide +kernel⟩

/-- non-vacuity: the hypotheses of `transparent_through_flat_links_partial` hold of the flat disk of
Props/C16F.lean, the history `opsG1` of Props/C01G.lean and one next operation of each class; and the
backup phase of each of them succeeds there (so the main clause, not the fallback, applies) -/
example : OSGoodL [['b']] [['k']] wG0.fs ∧ wG0.infos = [] ∧ wG0.faults = [] ∧
    (∀ k t mt, wG0.fs.get ([['k']] ++ k) ≠ some (.link t mt)) ∧
    G.CoveredHist cfgG [['b']] osSimL_example wG0 opsG1 ∧
    U.Op.CoveredU [['b']] osSimL_example wU (.mkdir "/d/rel/x/z".toList 0o700) ∧
    U.Op.CoveredU [['b']] osSimL_example wU (.chown "/abs/sub/f".toList 5 6) ∧
    U.Op.CoveredU [['b']] osSimL_example wU (.rename "/abs/sub/f".toList "/d/rel/g".toList) ∧
    U.Op.CoveredU [['b']] osSimL_example wU (.removeAll "/abs/sub/f".toList) ∧
    U.Op.CoveredU [['b']] osSimL_example wU (.removeAll "/d/up/fl".toList) ∧
    U.Op.CoveredU [['b']] osSimL_example wU (.mkdirAll "/d/rel/x/y/z".toList 0o750) :=
  ⟨flatDisk_good, rfl, rfl, wG0_backup_clean, tx1_covered, nonvacuous_mkdir, nonvacuous_chown, nonvacuous_rename,
    nonvacuous_removeAll.1, nonvacuous_removeAll.2, nonvacuous_mkdirAll⟩

def phOK : Except Err Unit → Bool
  | .ok _ => true
  | .error _ => false

example : phOK (Op.backupPhase cfgG (.mkdir "/d/rel/x/z".toList 0o700) wU).2 = true ∧
    phOK (Op.backupPhase cfgG (.chown "/abs/sub/f".toList 5 6) wU).2 = true ∧
    phOK (Op.backupPhase cfgG (.rename "/abs/sub/f".toList "/d/rel/g".toList) wU).2 = true ∧
    phOK (Op.backupPhase cfgG (.removeAll "/abs/sub/f".toList) wU).2 = true ∧
    phOK (Op.backupPhase cfgG (.mkdirAll "/d/rel/x/y/z".toList 0o750) wU).2 = true :=
  ⟨by decide +kernel, by decide +kernel, by decide +kernel, by decide +kernel, by decide +kernel⟩

/-! ## non-vacuity of the unconditional theorem (tier 2) -/

theorem backupLinkOK_of {cfg : Cfg} {S : LSim cfg} {bk : Key} {w : World} {k r : Key} {n : Option Node}
    (hr : G.rk bk w k = r) (hv : S.view .base w.fs r = n)
    (hn : ∀ t mt, n = some (.link t mt) → S.LinkOK .backup r t) :
    U.BackupLinkOK S w (G.rk bk w k) := by
  intro t mt h
  rw [hr] at h ⊢
  rw [hv] at h
  exact hn t mt h

theorem backupLinkOK_of_notLinkAt {cfg : Cfg} {S : LSim cfg} {w : World} {r : Key} (h : G.NotLinkAt S w r) :
    U.BackupLinkOK S w r := fun t mt hv => absurd ⟨t, mt, hv⟩ h

/-- a history of the finished classes: `Create("/abs/sub/new")`, `Chmod("/d/rel/f")`, `Remove("/abs/fl")` (the
symlink `/real/fl -> sub/f`, named through `/abs`: it is backed up as a symlink, not followed), `Mkdir("/d/rel/x")` -/
def opsB : List Op :=
  [.creat "/abs/sub/new".toList "hello", .chmod "/d/rel/f".toList 0o600, .remove "/abs/fl".toList,
   .mkdir "/d/rel/x".toList 0o755]

theorem hrEx : Roots [['b']] [['k']] := ⟨by decide, by decide, by decide, by decide, by decide, by decide⟩

set_option maxRecDepth 100000 in
theorem histB_example : U.HistB [['b']] [['k']] hrEx wG0 opsB := by
  have hK1 : PKey ["abs".toList, "sub".toList, "new".toList] := by decide
  have hc1 : clean "/abs/sub/new".toList = kp ["abs".toList, "sub".toList, "new".toList] := by decide
  have hK2 : PKey [['d'], "rel".toList, ['f']] := by decide
  have hc2 : clean "/d/rel/f".toList = kp [['d'], "rel".toList, ['f']] := by decide
  have hK3 : PKey ["abs".toList, "fl".toList] := by decide
  have hc3 : clean "/abs/fl".toList = kp ["abs".toList, "fl".toList] := by decide
  have hK4 : PKey [['d'], "rel".toList, ['x']] := by decide
  have hc4 : clean "/d/rel/x".toList = kp [['d'], "rel".toList, ['x']] := by decide
  refine ⟨⟨?_, ?_, trivial⟩, ⟨?_, ?_, trivial⟩, ⟨?_, ?_, ?_⟩, ⟨?_, ?_, ?_⟩, trivial⟩
  · exact ⟨by decide, flatDisk_flat, Props.C01L.covered_key hK1 hc1 (notLinkAt_of_isLinkB (by decide +kernel))⟩
  · exact ⟨by decide, flatDisk_flat, Props.C01L.covered_key hK1 hc1 ⟨by decide, notLinkAt_of_isLinkB (by decide +kernel)⟩⟩
  · exact ⟨by decide, by decide +kernel, Props.C01L.covered_key hK2 hc2 (notLinkAt_of_isLinkB (by decide +kernel))⟩
  · exact ⟨by decide, by decide +kernel, Props.C01L.covered_key hK2 hc2 ⟨by decide, notLinkAt_of_isLinkB (by decide +kernel)⟩⟩
  · refine ⟨by decide, by decide, by decide +kernel, Props.C01L.covered_key hK3 hc3
      (G.linkOKAt_of (r := ["real".toList, "fl".toList])
        (n := some (.link "sub/f".toList { exM with mode := 0o777, mtime := .fresh }))
        (by decide +kernel) (by decide +kernel) ?_)⟩
    intro t mt h
    cases h
    exact Or.inr (by decide +kernel)
  · refine ⟨by decide, by decide +kernel, Props.C01L.covered_key hK3 hc3 ⟨by decide,
      (G.linkOKAt_of (r := ["real".toList, "fl".toList])
        (n := some (.link "sub/f".toList { exM with mode := 0o777, mtime := .fresh }))
        (by decide +kernel) (by decide +kernel) ?_)⟩⟩
    intro t mt h
    cases h
    exact Or.inr (by decide +kernel)
  · refine ⟨by decide, Props.C01L.covered_key hK3 hc3
      (backupLinkOK_of (r := ["real".toList, "fl".toList])
        (n := some (.link "sub/f".toList { exM with mode := 0o777, mtime := .fresh }))
        (by decide +kernel) (by decide +kernel) ?_)⟩
    intro t mt h
    cases h
    exact Or.inr (by decide +kernel)
  · exact ⟨by decide, by decide +kernel, Props.C01L.covered_key hK4 hc4
      (linkOKAt_of_notLinkAt (notLinkAt_of_isLinkB (by decide +kernel)))⟩
  · exact ⟨by decide, by decide +kernel, Props.C01L.covered_key hK4 hc4
      ⟨by decide, linkOKAt_of_notLinkAt (notLinkAt_of_isLinkB (by decide +kernel))⟩⟩
  · exact Props.C01L.covered_key hK4 hc4 (backupLinkOK_of_notLinkAt (notLinkAt_of_isLinkB (by decide +kernel)))

/-- the state after `opsB` -/
def wB : World := runOps cfgG wG0 opsB

set_option maxRecDepth 100000 in
/-- the next operation: `Rename("/abs/sub/f", "/d/rel/x/g")` — into the directory created by the history, the
two names through two different links -/
theorem nonvacuous_rename_B :
    U.Op.CoveredU [['b']] osSimL_example wB (.rename "/abs/sub/f".toList "/d/rel/x/g".toList) ∧
    U.Op.CoveredB [['b']] osSimL_example wB (.rename "/abs/sub/f".toList "/d/rel/x/g".toList) := by
  have hKo : PKey ["abs".toList, "sub".toList, ['f']] := by decide
  have hco : clean "/abs/sub/f".toList = kp ["abs".toList, "sub".toList, ['f']] := by decide
  have hKn : PKey [['d'], "rel".toList, ['x'], ['g']] := by decide
  have hcn : clean "/d/rel/x/g".toList = kp [['d'], "rel".toList, ['x'], ['g']] := by decide
  have hro : G.rk [['b']] wB ["abs".toList, "sub".toList, ['f']] = ["real".toList, "sub".toList, ['f']] := by
    decide +kernel
  have hrn : G.rk [['b']] wB [['d'], "rel".toList, ['x'], ['g']] = ["real".toList, "sub".toList, ['x'], ['g']] := by
    decide +kernel
  have n1 : G.NotLinkAt osSimL_example wB (G.rk [['b']] wB ["abs".toList, "sub".toList, ['f']]) :=
    notLinkAt_of_isLinkB (by decide +kernel)
  have n2 : G.NotLinkAt osSimL_example wB (G.rk [['b']] wB [['d'], "rel".toList, ['x'], ['g']]) :=
    notLinkAt_of_isLinkB (by decide +kernel)
  constructor
  · refine ⟨by decide, by decide, by decide +kernel, ?_⟩
    intro ko kn hko hkn eo en
    have h1 := kp_inj hko hKo (eo.symm.trans hco)
    have h2 := kp_inj hkn hKn (en.symm.trans hcn)
    subst h1 h2
    refine ⟨by decide, by decide, linkOKAt_of_notLinkAt n1, linkOKAt_of_notLinkAt n2, ?_⟩
    rw [hro, hrn]
    intro h
    exact absurd h (by decide)
  · intro ko kn hko hkn eo en
    have h1 := kp_inj hko hKo (eo.symm.trans hco)
    have h2 := kp_inj hkn hKn (en.symm.trans hcn)
    subst h1 h2
    exact ⟨backupLinkOK_of_notLinkAt n1, backupLinkOK_of_notLinkAt n2⟩

theorem wG0_backup_empty : ∀ k, k ≠ [] → wG0.fs.get ([['k']] ++ k) = none := by
  intro k hk
  cases hget : wG0.fs.get ([['k']] ++ k) with
  | none => rfl
  | some n =>
    exfalso
    have hm := lookup_mem hget
    have hall : flatEntries.all (fun e => !(([['k']] : Key).isPrefixOf e.1) || e.1 == [['k']]) = true := by
      decide +kernel
    have := List.all_eq_true.mp hall _ hm
    have hp : ([['k']] : Key).isPrefixOf ([['k']] ++ k) = true :=
      List.isPrefixOf_iff_prefix.mpr (List.prefix_append _ _)
    simp only [hp, Bool.not_true, Bool.false_or, beq_iff_eq] at this
    apply hk
    have h2 := congrArg List.length this
    simp at h2
    exact h2

/-- the unconditional theorem applies: flat disk of Props/C16F.lean (empty backup directory `/k`), the history
`opsB`, the next operation above -/
example := transparent_through_flat_links_healthy_partial [['b']] [['k']] (by decide) (by decide) (by decide)
  (by decide) (by decide) (by decide) wG0 flatDisk_good rfl rfl wG0_backup_empty opsB histB_example
  (.rename "/abs/sub/f".toList "/d/rel/x/g".toList) nonvacuous_rename_B.1 nonvacuous_rename_B.2

end Props.C03
