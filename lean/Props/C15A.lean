import Lemmas.FlowCheck
/-!
# C15 — facts about the CURRENT Go sources (regenerated on every run), decided by the kernel

`Generated.flowFacts` is written by the harness (`vharness -stream astfacts`, go/ast) from /repo's
working tree before every build; the predicates are defined in `Lemmas/FlowCheck.lean`.  A change to
the sources that alters how names flow through the methods changes the facts, and these theorems no
longer build — whether or not a generated input happens to exhibit the difference.
-/
namespace Props.C15
open Flow Generated

/-- every HiddenFS method delegates exactly one call of its own name with its own parameters, never
re-bound (but for `filepath.FromSlash`, the identity on Linux) -/
theorem source_arguments_delegated_unchanged : checkedBeforeDelegation flowFacts methodParams = true := by decide +kernel

end Props.C15
