import Lemmas
/-!
# C14 — PrefixFS is a faithful, leak-free re-rooting

`pre` is the stored prefix (`PrefixFS.mk p = clean p`, never empty).  A name *stays inside* when
its cleaned form has no `..` component left (every absolute name does).
-/
namespace Props.C14
open BFS BFS.PrefixFS

/-- T14.1 for every name that stays inside, each method delegates exactly the same operation at
prefix + cleaned name; absolute link targets are re-rooted the same way, relative ones pass
verbatim (provided their effective target stays inside, which is what `Symlink` checks). -/
theorem reroot_exact (pre : Path) (hne : pre ≠ []) (c : Call)
    (hin : ∀ n ∈ c.accessPaths, StaysInside n)
    (hsym : ∀ o n, c = .symlink o n → isAbs o = false →
      Within pre (join (dir (join pre (clean n))) o)) :
    translate pre c = .ok (c.mapPaths (fun n => join pre (clean n))
      (fun o => if isAbs o then join pre (clean o) else o)) := by
  cases c
  all_goals try (
    simp only [Call.accessPaths, List.mem_singleton, forall_eq] at hin
    simp only [translate, Call.mapPaths, bind, Except.bind, pure, Except.pure,
      prefixPath_staysInside hne hin]
    done)
  · rename_i o n
    simp only [Call.accessPaths, List.mem_cons, List.not_mem_nil, or_false] at hin
    simp only [translate, Call.mapPaths, bind, Except.bind, pure, Except.pure,
      prefixPath_staysInside hne (hin o (Or.inl rfl)), prefixPath_staysInside hne (hin n (Or.inr rfl))]
  · rename_i o n
    simp only [Call.accessPaths, List.mem_singleton, forall_eq] at hin
    simp only [translate, Call.mapPaths, bind, Except.bind, pure, Except.pure,
      prefixPath_staysInside hne hin]
    by_cases hab : isAbs o = true
    · simp only [hab, if_true, prefixPath_staysInside hne (staysInside_of_abs hab)]
    · have hab' : isAbs o = false := by simpa using hab
      simp only [hab', Bool.false_eq_true, if_false]
      rw [relInside_of_within (hsym o n rfl hab')]

/-- the stored prefix is never empty -/
theorem mk_ne_nil (p : Path) : mk p ≠ [] := clean_ne_nil p

/-- T14.3a `Symlink` followed by `Readlink` returns the cleaned target that was given:
absolute targets, absolute prefix (the stored target is the re-rooted one). -/
theorem symlink_readlink_roundtrip_abs (pre o : Path) (hpre : isAbs pre = true) (ho : isAbs o = true) :
    readlinkPost pre (join pre (clean o)) = clean o := by
  have hne : pre ≠ [] := by intro e; rw [e] at hpre; cases hpre
  have hs := staysInside_of_abs ho
  unfold readlinkPost
  simp only [join_clean_is_clean _ _ hne, relInside_of_within (within_join_clean hne hs),
    cleanC_join_clean hne hs, List.drop_left]
  have hc := cleanC_canon o
  rw [join_root_remainder hc.ok hs]
  unfold clean
  congr 1
  rcases hco : cleanC o with ⟨r, cs⟩
  have : r = true := by
    have := cleanC_rooted o
    rw [hco] at this; simp at this; rw [this]; exact ho
  rw [this]

/-- T14.3b relative targets are stored verbatim and read back cleaned (absolute prefix). -/
theorem symlink_readlink_roundtrip_rel (pre o : Path) (hpre : isAbs pre = true) (ho : isAbs o = false) :
    readlinkPost pre o = clean o := by
  unfold readlinkPost
  cases hr : relInside pre (clean o) with
  | none => simp only [hr]
  | some r =>
    exfalso
    have hw := within_of_relInside hr
    unfold Within WithinC at hw
    rw [cleanC_clean] at hw
    have h1 := cleanC_rooted pre
    have h2 := cleanC_rooted o
    unfold isAbs at hpre ho
    rw [h1, h2, hpre, ho] at hw
    exact absurd hw.1 (by decide)

/-- T14.3c what `Readlink` returns never reveals an absolute prefix: it is either the re-rooted
remainder of a target inside the prefix, or a cleaned target that does not lie inside it. -/
theorem readlink_no_leak (pre linked : Path) :
    (∃ r, relInside pre (clean linked) = some r ∧ readlinkPost pre linked = join rootP r) ∨
    (¬ Within pre (clean linked) ∧ readlinkPost pre linked = clean linked) := by
  unfold readlinkPost
  cases hr : relInside pre (clean linked) with
  | none =>
    right
    refine ⟨?_, by simp only [hr]⟩
    intro hw
    rw [relInside_of_within hw] at hr
    cases hr
  | some r => left; exact ⟨r, rfl, by simp only [hr]⟩

/-! ## non-vacuity and the fixed defects as regression facts -/
example : readlinkPost "/r/app".toList "/r/app".toList = "/".toList := by decide          -- was ""
example : readlinkPost "/r/app".toList "/r/app2/x".toList = "/r/app2/x".toList := by decide  -- was "2/x"
example : StaysInside "a/../b".toList ∧ ¬ StaysInside "../b".toList := by decide
example : translate "/r/app".toList (.rename "/a//b".toList "c/../d".toList)
    = .ok (.rename "/r/app/a/b".toList "/r/app/d".toList) := by decide

end Props.C14
