import Lemmas.LTx
import Lemmas.LSimOS
/-!
# C01 (symlinks as leaves) — Rollback restores the base filesystem exactly

Main theorem (`rollback_restores_symlink_leaves_partial`): for the OS model behind two `PrefixFS`
layers (base root and backup root any two directories neither of which contains the other), every
well-formed disk whose base and backup subtrees may contain **symlinks (any target text)**, any
number of consecutive transactions, and in each every finite history of covered operations, after
Rollback every entry of the base below its root is what it was before the first operation: same set
of paths, types, contents, permission bits, owners and file modification times; and for a symlink:
it is a symlink with the same target text *as `Readlink` through the base `PrefixFS` reports it* and
the same owner (a symlink's mtime and mode bits cannot be restored and are erased from the view, like
directory mtimes: `L.eraseV`).

"Covered" (`L.Op.Covered`, judged in the state the operation is issued in) extends the link-free
fragment of `Props.C01.rollback_restores_linkfree_partial` to trees with symlinks as leaves that the
transaction never traverses, and to the `Symlink` operation:
* names are absolute; no proper ancestor of an operation's cleaned path is a symlink in the current
  base view (K-link-topology, K-dangling-link-parent);
* operations that follow a final symlink (Create, OpenFile with a flag other than `O_RDONLY`, Chmod,
  Chown, Chtimes, MkdirAll) are not applied to a path that currently is a symlink
  (K-through-final-symlink);
* `Symlink(old, new)`, and a `Rename` whose source currently is a symlink, are applied only when no
  tracked key lies strictly below the new path (K-link-over-tracked);
* an operation that is going to back up a symlink (its path — for `Rename` either path, for
  `RemoveAll` any entry at or below the path — currently is a symlink) requires that the base
  `PrefixFS` admits re-creating that symlink (`L.osLinkOK`: the target is absolute, or relative and
  does not climb out of the base root).  This excludes K-escaping-link *and a new variant found while
  proving this theorem*: a relative target such as `../k/c` that climbs out of the base root `/b` but,
  resolved from the same place below the backup root `/k`, lands inside the backup root is ACCEPTED by
  the backup `PrefixFS` when the link is backed up and REFUSED by the base `PrefixFS` when Rollback
  restores it — the link is lost (`escaping_link_backed_up_but_not_restored` below);
* Remove/RemoveAll not on the root; Rename's source is not a non-empty directory
  (K-rename-nonempty-dir); no ForceBackup.
Operations on symlinks themselves that do not follow them are in: Lstat, Readlink, Remove, RemoveAll
(a link is removed, never followed), Rename of a link, Lchown, Mkdir (fails with EEXIST), Symlink onto
an existing path (fails).

Start condition on the backup directory (`hbl`): every symlink below the backup root sits at a key
where the base holds a symlink too — in particular it holds when the backup subtree contains no
symlink (`rollback_restores_symlink_leaves_clean_backup_partial`).  Without it a pre-seeded symlink in
the backup directory redirects `copyDir`'s Chmod/Chown and `copyFile` to the link's target.  Rollback
re-establishes the condition, so it is needed only before the first transaction.
-/
namespace Props.C01L
open BFS BFS.BackupFS BFS.L

theorem isLinkAt_osViewL {bk kk : Key} {s : Side} {m : MFS} {k : Key} :
    isLinkAt (osViewL bk kk s m) k ↔ ∃ t mt, m.get (osRoot bk kk s ++ k) = some (.link t mt) := by
  unfold isLinkAt osViewL
  constructor
  · rintro ⟨t, mt, h⟩
    cases hg : m.get (osRoot bk kk s ++ k) with
    | none => rw [hg] at h; cases h
    | some n =>
      rw [hg] at h
      cases n with
      | link t' mt' => exact ⟨t', mt', rfl⟩
      | file c mt' => simp [eraseV] at h
      | dir mt' => simp [eraseV] at h
  · rintro ⟨t, mt, h⟩
    rw [h]
    exact ⟨_, _, rfl⟩

/-- T01L.main  Rollback restores the base exactly — trees with symlinks as leaves that the
transaction never traverses, the `Symlink` operation included, any number of transactions (see the
header for what "covered" excludes). -/
theorem rollback_restores_symlink_leaves_partial (bk kk : Key) (hbk : PKey bk) (hkk : PKey kk)
    (hne1 : bk ≠ []) (hne2 : kk ≠ []) (hd1 : ¬ bk <+: kk) (hd2 : ¬ kk <+: bk)
    (w : World) (hg : OSGoodL bk kk w.fs) (hinfos : w.infos = []) (hnf : w.faults = [])
    (hbl : ∀ k, (∃ t mt, w.fs.get (kk ++ k) = some (.link t mt)) → ∃ t mt, w.fs.get (bk ++ k) = some (.link t mt))
    (txs : List (List Op))
    (hcov : L.CoveredTxs (osCfg bk kk) (osSimL bk kk hbk hkk hne1 hne2 hd1 hd2) w txs) :
    ∀ k, k ≠ [] →
      ((txs.foldl (runTx (osCfg bk kk)) w).fs.get (bk ++ k)).map (eraseV (kp bk)) =
        (w.fs.get (bk ++ k)).map (eraseV (kp bk)) :=
  L.txs_restore (S := osSimL bk kk hbk hkk hne1 hne2 hd1 hd2) txs w hg hinfos hnf
    (fun k hl => isLinkAt_osViewL.mpr (hbl k (isLinkAt_osViewL.mp hl))) hcov

/-- the same when the backup subtree holds no symlink at the start (e.g. an empty backup directory) -/
theorem rollback_restores_symlink_leaves_clean_backup_partial (bk kk : Key) (hbk : PKey bk) (hkk : PKey kk)
    (hne1 : bk ≠ []) (hne2 : kk ≠ []) (hd1 : ¬ bk <+: kk) (hd2 : ¬ kk <+: bk)
    (w : World) (hg : OSGoodL bk kk w.fs) (hinfos : w.infos = []) (hnf : w.faults = [])
    (hbl : ∀ k t mt, w.fs.get (kk ++ k) ≠ some (.link t mt))
    (txs : List (List Op))
    (hcov : L.CoveredTxs (osCfg bk kk) (osSimL bk kk hbk hkk hne1 hne2 hd1 hd2) w txs) :
    ∀ k, k ≠ [] →
      ((txs.foldl (runTx (osCfg bk kk)) w).fs.get (bk ++ k)).map (eraseV (kp bk)) =
        (w.fs.get (bk ++ k)).map (eraseV (kp bk)) :=
  rollback_restores_symlink_leaves_partial bk kk hbk hkk hne1 hne2 hd1 hd2 w hg hinfos hnf
    (fun k ⟨t, mt, h⟩ => absurd h (hbl k t mt)) txs hcov

/-- T01L.inv  after any covered history — whatever failed, whatever the fault plan — the transaction
invariant (`L.Inv`) holds. -/
theorem invariant_after_history (bk kk : Key) (hbk : PKey bk) (hkk : PKey kk)
    (hne1 : bk ≠ []) (hne2 : kk ≠ []) (hd1 : ¬ bk <+: kk) (hd2 : ¬ kk <+: bk)
    (w : World) (hg : OSGoodL bk kk w.fs) (hinfos : w.infos = [])
    (hbl : ∀ k, (∃ t mt, w.fs.get (kk ++ k) = some (.link t mt)) → ∃ t mt, w.fs.get (bk ++ k) = some (.link t mt))
    (ops : List Op)
    (hcov : L.CoveredHist (osCfg bk kk) (osSimL bk kk hbk hkk hne1 hne2 hd1 hd2) w ops) :
    L.Inv (osSimL bk kk hbk hkk hne1 hne2 hd1 hd2) (osViewL bk kk .base w.fs) (runOps (osCfg bk kk) w ops) :=
  (L.history_keeps ops w (L.Inv.init (S := osSimL bk kk hbk hkk hne1 hne2 hd1 hd2) hg hinfos
    (fun k hl => isLinkAt_osViewL.mpr (hbl k (isLinkAt_osViewL.mp hl)))) hcov).inv

/-- T01L.faults  whatever the fault plan did to the operations of a covered history, once the
filesystems are healthy again Rollback restores the base. -/
theorem later_rollback_still_restores_symlink_leaves_partial (bk kk : Key) (hbk : PKey bk) (hkk : PKey kk)
    (hne1 : bk ≠ []) (hne2 : kk ≠ []) (hd1 : ¬ bk <+: kk) (hd2 : ¬ kk <+: bk)
    (w : World) (hg : OSGoodL bk kk w.fs) (hinfos : w.infos = [])
    (hbl : ∀ k, (∃ t mt, w.fs.get (kk ++ k) = some (.link t mt)) → ∃ t mt, w.fs.get (bk ++ k) = some (.link t mt))
    (ops : List Op)
    (hcov : L.CoveredHist (osCfg bk kk) (osSimL bk kk hbk hkk hne1 hne2 hd1 hd2) w ops) :
    ∀ k, k ≠ [] →
      ((rollback (osCfg bk kk) { runOps (osCfg bk kk) w ops with faults := [] }).1.fs.get (bk ++ k)).map (eraseV (kp bk)) =
        (w.fs.get (bk ++ k)).map (eraseV (kp bk)) :=
  L.tx_restores_after_faults (S := osSimL bk kk hbk hkk hne1 hne2 hd1 hd2) hg hinfos
    (fun k hl => isLinkAt_osViewL.mpr (hbl k (isLinkAt_osViewL.mp hl))) ops hcov

/-! ## The new finding as a checked fact -/

/-- `/b` (base root) holds the symlink `/b/f -> ../k/c`; `/k` is the backup root -/
def escDisk : MFS where
  get := fun k =>
    if k = [] then some (.dir exMeta)
    else if k = [['b']] then some (.dir exMeta)
    else if k = [['k']] then some (.dir exMeta)
    else if k = [['b'], ['f']] then some (.link "../k/c".toList { exMeta with mode := 0o777 })
    else none
  dom := [[], [['b']], [['k']], [['b'], ['f']]]
  umask := 0o022

set_option maxRecDepth 100000 in
/-- K-escaping-link, variant: a relative target that climbs out of the base root but lands inside the
backup root.  `Remove("/f")` backs the link up (the backup `PrefixFS` ACCEPTS `Symlink("../k/c","/f")`
because `/k/c` is inside `/k`), Rollback then fails (the base `PrefixFS` REFUSES the same call because
`/k/c` is outside `/b`), reports an error, leaves `/f` absent and finally deletes the backup copy too.
The history violates exactly one clause of `Op.Covered`: `LinkOK .base` of the link that is backed up. -/
theorem escaping_link_backed_up_but_not_restored :
    let cfg := osCfg [['b']] [['k']]
    let w1 := runOps cfg { fs := escDisk } [.remove "/f".toList]
    let r := rollback cfg w1
    (escDisk.get [['b'], ['f']]).isSome = true ∧
    w1.fs.get [['b'], ['f']] = none ∧ (w1.fs.get [['k'], ['f']]).isSome = true ∧
    r.2 = .ok true ∧ r.1.fs.get [['b'], ['f']] = none ∧ r.1.fs.get [['k'], ['f']] = none ∧
    osLinkOK [['b']] [['k']] .backup [['f']] "../k/c".toList ∧
    ¬ osLinkOK [['b']] [['k']] .base [['f']] "../k/c".toList := by
  refine ⟨by decide +kernel, by decide +kernel, by decide +kernel, by decide +kernel, by decide +kernel,
    by decide +kernel, Or.inr (by decide +kernel), ?_⟩
  rintro (h | h)
  · exact absurd h (by decide +kernel)
  · exact absurd h (by decide +kernel)

/-! ## Non-vacuity -/

theorem noLinkAnc_top {v : View} {n : Name} (hroot : v.isDirAt []) : NoLinkAnc v [n] := by
  intro a ha hne
  have ha' : a <+: [] ++ [n] := ha
  rcases prefix_snoc_iff.mp ha' with h | h
  · rw [List.prefix_nil.mp h]; exact isLinkAt_not_dir hroot
  · exact absurd h hne

theorem covered_key {p : Path} {K : Key} (hK : PKey K) (hp : clean p = kp K) {P : Key → Prop} (h : P K) :
    ∀ k, PKey k → clean p = kp k → P k := by
  intro k hk e
  have := kp_inj hk hK (e.symm.trans hp)
  subst this
  exact h

theorem lookup_none_of_not_mem {α} {l : List (Path × α)} {q : Path} (h : q ∉ l.map Prod.fst) : l.lookup q = none := by
  induction l with
  | nil => rfl
  | cons a l ih =>
    obtain ⟨p, x⟩ := a
    simp only [List.map_cons, List.mem_cons, not_or] at h
    have : (q == p) = false := by simpa using h.1
    simp only [List.lookup, this]
    exact ih h.2

theorem noneBelow_of {w : World} {K : Key} {l : List Path} (hl : w.infos.map Prod.fst = l)
    (h : ∀ p ∈ l, ∀ j, PKey j → p = kp j → K <+: j → j = K) : NoneBelow w K := by
  intro j hj ht hpre
  have hm : kp j ∈ w.infos.map Prod.fst := by
    apply Classical.byContradiction
    intro hn
    exact ht (lookup_none_of_not_mem hn)
  rw [hl] at hm
  exact h _ hm j hj rfl hpre

abbrev cfgE := osCfg [['b']] [['k']]
def wE0 : World := { fs := exDiskL }
def wE1 := Op.step cfgE wE0 (.lchown "/l".toList 5 6)
def wE2 := Op.step cfgE wE1 (.remove "/l".toList)
def wE3 := Op.step cfgE wE2 (.symlink "d".toList "/l".toList)
def wE4 := runTx cfgE wE0 [.lchown "/l".toList 5 6, .remove "/l".toList, .symlink "d".toList "/l".toList]
def wE5 := Op.step cfgE wE4 (.rename "/l".toList "/m".toList)

def rootE : Meta := { exMeta with mtime := .fresh }

set_option maxRecDepth 100000 in
/-- non-vacuity: the hypotheses hold of an ordinary disk with a symlink (`/b/l -> "f"`, see
`L.exDiskL`; backup root `/k` empty) and two transactions that change the owner of the symlink, remove
it, create another symlink in its place; then (after the first Rollback has put `/l -> f` back) rename
the symlink and try to `Mkdir` over it (names are relative to the base root). -/
example : OSGoodL [['b']] [['k']] wE0.fs ∧ wE0.infos = [] ∧ wE0.faults = [] ∧
    (∀ k t mt, wE0.fs.get ([['k']] ++ k) ≠ some (.link t mt)) ∧
    L.CoveredTxs cfgE osSimL_example wE0
      [[.lchown "/l".toList 5 6, .remove "/l".toList, .symlink "d".toList "/l".toList],
       [.rename "/l".toList "/m".toList, .mkdir "/m".toList 0o755]] := by
  have hKl : PKey [['l']] := by decide
  have hKm : PKey [['m']] := by decide
  have hcl : clean "/l".toList = kp [['l']] := by decide
  have hcm : clean "/m".toList = kp [['m']] := by decide
  have hokf : osSimL_example.LinkOK .base [['l']] ['f'] := Or.inr (by decide +kernel)
  have hokm : osSimL_example.LinkOK .base [['m']] ['f'] := Or.inr (by decide +kernel)
  refine ⟨osGoodL_example, rfl, rfl, ?_, ⟨?_, ?_, ?_, trivial⟩, ⟨?_, ?_, trivial⟩, trivial⟩
  · intro k t mt h
    rcases exDiskL_live h with ⟨e, _⟩ | ⟨e, _⟩ | ⟨_, e⟩ | ⟨e, _⟩ | ⟨e, _⟩ | ⟨e, _⟩
    · cases e
    · simp at e
    · cases e
    · simp at e
    · simp at e
    · simp at e
  · -- Lchown("/l"): the path is a symlink that the base admits
    refine ⟨by decide, covered_key hKl hcl ⟨noLinkAnc_top ⟨rootE, by decide +kernel⟩, ?_⟩⟩
    intro t mt hv
    have : osSimL_example.view .base wE0.fs [['l']] = some (.link ['f'] { exMeta with mode := 0o777, mtime := .fresh }) := by
      decide +kernel
    have hv' := this.symm.trans hv; cases hv'; exact hokf
  · -- Remove("/l")
    refine ⟨by decide, by decide, covered_key hKl hcl ⟨noLinkAnc_top ⟨rootE, by decide +kernel⟩, ?_⟩⟩
    intro t mt hv
    have : osSimL_example.view .base wE1.fs [['l']] = some (.link ['f'] { mode := 0o777, uid := 5, gid := 6, mtime := .fresh }) := by
      decide +kernel
    have hv' := this.symm.trans hv; cases hv'; exact hokf
  · -- Symlink("d", "/l"): nothing is there any more, and nothing tracked lies below
    refine ⟨by decide, covered_key hKl hcl ⟨⟨noLinkAnc_top ⟨rootE, by decide +kernel⟩, ?_⟩, ?_⟩⟩
    · intro t mt hv
      have : osSimL_example.view .base wE2.fs [['l']] = none := by decide +kernel
      have hv' := this.symm.trans hv; cases hv'
    · apply noneBelow_of (l := ["/".toList, "/l".toList]) (by decide +kernel)
      intro p hp j hj e hpre
      simp only [List.mem_cons, List.mem_nil_iff, or_false] at hp
      rcases hp with rfl | rfl
      · have : j = [] := kp_inj hj PKey.nil e.symm
        subst this
        simp at hpre
      · exact kp_inj hj hKl e.symm
  · -- second transaction: Rename("/l", "/m") of the restored symlink
    refine ⟨by decide, by decide, ?_⟩
    intro ko kn hko hkn eo en
    have h1 := kp_inj hko hKl (eo.symm.trans hcl)
    have h2 := kp_inj hkn hKm (en.symm.trans hcm)
    subst h1 h2
    have hvl : osSimL_example.view .base wE4.fs [['l']] = some (.link ['f'] { mode := 0o777, uid := 0, gid := 0, mtime := .fresh }) := by
      decide +kernel
    have hvm : osSimL_example.view .base wE4.fs [['m']] = none := by decide +kernel
    have hroot : (osSimL_example.view .base wE4.fs).isDirAt [] := ⟨rootE, by decide +kernel⟩
    refine ⟨⟨noLinkAnc_top hroot, ?_⟩, ⟨noLinkAnc_top hroot, ?_⟩, ?_, ?_⟩
    · intro t mt hv; have hv' := hvl.symm.trans hv; cases hv'; exact hokf
    · intro t mt hv; have hv' := hvm.symm.trans hv; cases hv'
    · rintro ⟨⟨mt, hd⟩, _⟩; have hd' := hvl.symm.trans hd; cases hd'
    · intro _
      apply noneBelow_of (l := []) (by decide +kernel)
      intro p hp; cases hp
  · -- Mkdir("/m") over the renamed symlink (fails with EEXIST after backing nothing up: `/m` is tracked)
    refine ⟨by decide, covered_key hKm hcm ⟨noLinkAnc_top ⟨rootE, by decide +kernel⟩, ?_⟩⟩
    intro t mt hv
    have : osSimL_example.view .base wE5.fs [['m']] = some (.link ['f'] { mode := 0o777, uid := 0, gid := 0, mtime := .fresh }) := by
      decide +kernel
    have hv' := this.symm.trans hv; cases hv'; exact hokm

end Props.C01L
