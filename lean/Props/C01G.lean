import Lemmas.GTx
import Lemmas.GEx
import Lemmas.GSub
import Props.C01L
import Props.C16F
/-!
# C01 (names through flat symlinks) — Rollback restores the base filesystem exactly

Main theorem (`rollback_restores_through_flat_links_partial`): the setting is that of
`Props.C01L.rollback_restores_symlink_leaves_partial` — the OS model behind two `PrefixFS` layers (base
root and backup root any two directories neither of which contains the other), every well-formed
disk with symlinks anywhere, healthy filesystems, any number of consecutive transactions, in each any
finite history of covered operations — but the names of the operations **may pass through symlinked
directories**, which is what BackupFS's resolver `realPath` exists for.  After Rollback every entry of
the base below its root is what it was before the first operation (`L.eraseV`: same set of paths,
types, contents, permission bits, owners, file modification times, link target texts).

"Covered" (`L.G.Op.Covered`, judged in the state the operation is issued in):
* names are absolute, in any spelling, of any length;
* the disk is `F16.Flat bk` in that state (every symlink at or below the base root has a target whose
  `..` are applied at real directories, that stays below the base root, and no component of which —
  the last included — is a symlink; Lemmas/F16Def.lean) — this is what makes `realPath` exact
  (`Props.C16.resolve_exact_flat_links_partial`); outside it: K-link-topology, K-dangling-link-parent;
* with `r = L.G.rk bk w k = F16.resK w.fs bk [] k` the key `realPath` returns for the cleaned name's
  key `k` (no proper ancestor of `r` is a symlink — a theorem, not a hypothesis), the RESOLVED key
  satisfies what `L.Op.Covered` demands of the cleaned name: it is not a symlink where the operation
  follows a final symlink (Create, OpenFile with a flag other than `O_RDONLY`, Chmod, Chown, Chtimes,
  MkdirAll); if it is a symlink that is going to be backed up, the base `PrefixFS` admits
  re-creating it (Mkdir, Remove, Lchown, Rename — both names, resolved independently —, Symlink,
  RemoveAll for every entry at or below `r`); no tracked key strictly below the resolved new name for
  Symlink and for Rename of a symlink; Remove/RemoveAll not on the root; no Rename of a non-empty
  directory; no ForceBackup;
* read-only operations (Stat, Lstat, Readlink, OpenFile with `O_RDONLY`) are unrestricted: they do
  not go through `realPath` and change nothing.
The bound of 40 components that `resolve_exact_flat_links_partial` needs for "names the same entry
as the kernel" is NOT needed here: Rollback restores whatever `realPath` returned.
-/
namespace Props.C01
open BFS BFS.BackupFS BFS.L BFS.F16 Props.C16 Props.C01L

/-- T01G.main  Rollback restores the base exactly — operations whose names pass through FLAT symlinks,
any number of transactions (see the header for what "covered" excludes). -/
theorem rollback_restores_through_flat_links_partial (bk kk : Key) (hbk : PKey bk) (hkk : PKey kk)
    (hne1 : bk ≠ []) (hne2 : kk ≠ []) (hd1 : ¬ bk <+: kk) (hd2 : ¬ kk <+: bk)
    (w : World) (hg : OSGoodL bk kk w.fs) (hinfos : w.infos = []) (hnf : w.faults = [])
    (hbl : ∀ k, (∃ t mt, w.fs.get (kk ++ k) = some (.link t mt)) → ∃ t mt, w.fs.get (bk ++ k) = some (.link t mt))
    (txs : List (List Op))
    (hcov : G.CoveredTxs (osCfg bk kk) bk (osSimL bk kk hbk hkk hne1 hne2 hd1 hd2) w txs) :
    ∀ k, k ≠ [] →
      ((txs.foldl (runTx (osCfg bk kk)) w).fs.get (bk ++ k)).map (eraseV (kp bk)) =
        (w.fs.get (bk ++ k)).map (eraseV (kp bk)) :=
  G.txs_restore (hbk := hbk) (hkk := hkk) (hne1 := hne1) (hne2 := hne2) (hd1 := hd1) (hd2 := hd2) txs w hg hinfos hnf
    (fun k hl => Props.C01L.isLinkAt_osViewL.mpr (hbl k (Props.C01L.isLinkAt_osViewL.mp hl))) hcov

/-- the same when the backup subtree holds no symlink at the start (e.g. an empty backup directory) -/
theorem rollback_restores_through_flat_links_clean_backup_partial (bk kk : Key) (hbk : PKey bk) (hkk : PKey kk)
    (hne1 : bk ≠ []) (hne2 : kk ≠ []) (hd1 : ¬ bk <+: kk) (hd2 : ¬ kk <+: bk)
    (w : World) (hg : OSGoodL bk kk w.fs) (hinfos : w.infos = []) (hnf : w.faults = [])
    (hbl : ∀ k t mt, w.fs.get (kk ++ k) ≠ some (.link t mt))
    (txs : List (List Op))
    (hcov : G.CoveredTxs (osCfg bk kk) bk (osSimL bk kk hbk hkk hne1 hne2 hd1 hd2) w txs) :
    ∀ k, k ≠ [] →
      ((txs.foldl (runTx (osCfg bk kk)) w).fs.get (bk ++ k)).map (eraseV (kp bk)) =
        (w.fs.get (bk ++ k)).map (eraseV (kp bk)) :=
  rollback_restores_through_flat_links_partial bk kk hbk hkk hne1 hne2 hd1 hd2 w hg hinfos hnf
    (fun k ⟨t, mt, h⟩ => absurd h (hbl k t mt)) txs hcov

/-- T01G.inv  after any covered history through flat links — whatever failed, whatever the fault plan —
the transaction invariant (`L.Inv`) holds. -/
theorem invariant_after_history_through_flat_links (bk kk : Key) (hbk : PKey bk) (hkk : PKey kk)
    (hne1 : bk ≠ []) (hne2 : kk ≠ []) (hd1 : ¬ bk <+: kk) (hd2 : ¬ kk <+: bk)
    (w : World) (hg : OSGoodL bk kk w.fs) (hinfos : w.infos = [])
    (hbl : ∀ k, (∃ t mt, w.fs.get (kk ++ k) = some (.link t mt)) → ∃ t mt, w.fs.get (bk ++ k) = some (.link t mt))
    (ops : List Op)
    (hcov : G.CoveredHist (osCfg bk kk) bk (osSimL bk kk hbk hkk hne1 hne2 hd1 hd2) w ops) :
    L.Inv (osSimL bk kk hbk hkk hne1 hne2 hd1 hd2) (osViewL bk kk .base w.fs) (runOps (osCfg bk kk) w ops) :=
  (G.history_keeps ops w (L.Inv.init (S := osSimL bk kk hbk hkk hne1 hne2 hd1 hd2) hg hinfos
    (fun k hl => Props.C01L.isLinkAt_osViewL.mpr (hbl k (Props.C01L.isLinkAt_osViewL.mp hl)))) hcov).inv

/-- T01G.faults  whatever the fault plan did to the operations of a covered history through flat links
(a planned fault makes a primitive return EIO; `realPath` then fails instead of mis-resolving), once
the filesystems are healthy again Rollback restores the base. -/
theorem later_rollback_still_restores_through_flat_links_partial (bk kk : Key) (hbk : PKey bk) (hkk : PKey kk)
    (hne1 : bk ≠ []) (hne2 : kk ≠ []) (hd1 : ¬ bk <+: kk) (hd2 : ¬ kk <+: bk)
    (w : World) (hg : OSGoodL bk kk w.fs) (hinfos : w.infos = [])
    (hbl : ∀ k, (∃ t mt, w.fs.get (kk ++ k) = some (.link t mt)) → ∃ t mt, w.fs.get (bk ++ k) = some (.link t mt))
    (ops : List Op)
    (hcov : G.CoveredHist (osCfg bk kk) bk (osSimL bk kk hbk hkk hne1 hne2 hd1 hd2) w ops) :
    ∀ k, k ≠ [] →
      ((rollback (osCfg bk kk) { runOps (osCfg bk kk) w ops with faults := [] }).1.fs.get (bk ++ k)).map (eraseV (kp bk)) =
        (w.fs.get (bk ++ k)).map (eraseV (kp bk)) :=
  G.tx_restores_after_faults (hbk := hbk) (hkk := hkk) (hne1 := hne1) (hne2 := hne2) (hd1 := hd1) (hd2 := hd2)
    hg hinfos (fun k hl => Props.C01L.isLinkAt_osViewL.mpr (hbl k (Props.C01L.isLinkAt_osViewL.mp hl))) ops hcov

/-- T01G.sub  the new fragment CONTAINS the symlink-leaves fragment on flat disks: when no proper
ancestor of the cleaned name is a symlink, `realPath` resolves the name to itself (`G.rk_id`), so
whatever `L.Op.Covered` covers in a state whose disk is `Flat`, `G.Op.Covered` covers too. -/
theorem through_flat_links_covers_symlink_leaves (bk kk : Key) (hbk : PKey bk) (hkk : PKey kk)
    (hne1 : bk ≠ []) (hne2 : kk ≠ []) (hd1 : ¬ bk <+: kk) (hd2 : ¬ kk <+: bk)
    (w : World) (hg : OSGoodL bk kk w.fs) (hflat : Flat bk w.fs) (op : Op)
    (hc : L.Op.Covered (osSimL bk kk hbk hkk hne1 hne2 hd1 hd2) w op) :
    G.Op.Covered bk (osSimL bk kk hbk hkk hne1 hne2 hd1 hd2) w op :=
  G.covered_of_L hg hflat hc

/-! ## Non-vacuity: two transactions on the flat disk of Props/C16F.lean

`flatDisk` (base root `/b`, backup root `/k`, names below relative to the base root): directories
`/real`, `/real/sub`, `/d`, the file `/real/sub/f`, the absolute directory link `/abs -> /real`, the
relative directory links `/d/rel -> ../real/./sub` and `/d/up -> ../d/../real`, the file link
`/real/fl -> sub/f`, the dangling link `/dang -> real/nope`.

Transaction 1: `Create("/abs/sub/new")` (through `/abs`), `Chmod("/d/rel/f")` (through `/d/rel`),
`Remove("/abs/fl")` (final link removed, not followed), `MkdirAll("/d/rel/x/y")` (two new directories
behind the link); Rollback.  Transaction 2: `Rename("/abs/sub/f", "/d/rel/g")` (the two names go
through two different links to the same directory), `Symlink("g", "/d/up/sub/lnk")` (a new link
created behind a link; the disk stays flat), `RemoveAll("/abs/sub")` (the walk below the resolved
directory removes the renamed file, the new link and the directory — `/d/rel` dangles afterwards,
the disk is still flat); Rollback. -/

abbrev cfgG := osCfg [['b']] [['k']]
def wG0 : World := { fs := flatDisk }
def opsG1 : List Op :=
  [.creat "/abs/sub/new".toList "hello", .chmod "/d/rel/f".toList 0o600, .remove "/abs/fl".toList,
   .mkdirAll "/d/rel/x/y".toList 0o755]
def opsG2 : List Op :=
  [.rename "/abs/sub/f".toList "/d/rel/g".toList, .symlink "g".toList "/d/up/sub/lnk".toList,
   .removeAll "/abs/sub".toList]
/-- after the first transaction (Rollback included) -/
def wT1 := runTx cfgG wG0 opsG1
def wH1 := Op.step cfgG wT1 (.rename "/abs/sub/f".toList "/d/rel/g".toList)
def wH2 := Op.step cfgG wH1 (.symlink "g".toList "/d/up/sub/lnk".toList)

theorem wG0_backup_clean : ∀ k t mt, wG0.fs.get ([['k']] ++ k) ≠ some (.link t mt) :=
  G.listDisk_no_links_below (kk := [['k']]) (l := flatEntries) (by decide +kernel)

set_option maxRecDepth 100000 in
theorem tx1_covered : G.CoveredHist cfgG [['b']] osSimL_example wG0 opsG1 := by
  have hK1 : PKey ["abs".toList, "sub".toList, "new".toList] := by decide
  have hc1 : clean "/abs/sub/new".toList = kp ["abs".toList, "sub".toList, "new".toList] := by decide
  have hK2 : PKey [['d'], "rel".toList, ['f']] := by decide
  have hc2 : clean "/d/rel/f".toList = kp [['d'], "rel".toList, ['f']] := by decide
  have hK3 : PKey ["abs".toList, "fl".toList] := by decide
  have hc3 : clean "/abs/fl".toList = kp ["abs".toList, "fl".toList] := by decide
  have hK4 : PKey [['d'], "rel".toList, ['x'], ['y']] := by decide
  have hc4 : clean "/d/rel/x/y".toList = kp [['d'], "rel".toList, ['x'], ['y']] := by decide
  refine ⟨?_, ?_, ?_, ?_, trivial⟩
  · -- Create("/abs/sub/new") through the absolute directory link /abs -> /real: resolved /real/sub/new, absent
    exact ⟨by decide, flatDisk_flat, covered_key hK1 hc1
      (G.notLinkAt_of (r := ["real".toList, "sub".toList, "new".toList]) (n := none)
        (by decide +kernel) (by decide +kernel) (by intro t mt h; cases h))⟩
  · -- Chmod("/d/rel/f") through the relative link /d/rel -> ../real/./sub: resolved /real/sub/f, a file
    exact ⟨by decide, by decide +kernel, covered_key hK2 hc2
      (G.notLinkAt_of (r := ["real".toList, "sub".toList, ['f']]) (n := some (.file "x" exM))
        (by decide +kernel) (by decide +kernel) (by intro t mt h; cases h))⟩
  · -- Remove("/abs/fl"): resolved /real/fl, a symlink ("sub/f") that is removed, not followed
    refine ⟨by decide, by decide, by decide +kernel, covered_key hK3 hc3
      (G.linkOKAt_of (r := ["real".toList, "fl".toList])
        (n := some (.link "sub/f".toList { exM with mode := 0o777, mtime := .fresh }))
        (by decide +kernel) (by decide +kernel) ?_)⟩
    intro t mt h
    cases h
    exact Or.inr (by decide +kernel)
  · -- MkdirAll("/d/rel/x/y"): resolved /real/sub/x/y (lexical tail below the link target), absent
    exact ⟨by decide, by decide +kernel, covered_key hK4 hc4
      (G.notLinkAt_of (r := ["real".toList, "sub".toList, ['x'], ['y']]) (n := none)
        (by decide +kernel) (by decide +kernel) (by intro t mt h; cases h))⟩

set_option maxRecDepth 100000 in
theorem tx2_prefix_covered : G.CoveredHist cfgG [['b']] osSimL_example wT1
    [.rename "/abs/sub/f".toList "/d/rel/g".toList, .symlink "g".toList "/d/up/sub/lnk".toList] := by
  have hKo : PKey ["abs".toList, "sub".toList, ['f']] := by decide
  have hco : clean "/abs/sub/f".toList = kp ["abs".toList, "sub".toList, ['f']] := by decide
  have hKn : PKey [['d'], "rel".toList, ['g']] := by decide
  have hcn : clean "/d/rel/g".toList = kp [['d'], "rel".toList, ['g']] := by decide
  have hKl : PKey [['d'], "up".toList, "sub".toList, "lnk".toList] := by decide
  have hcl : clean "/d/up/sub/lnk".toList = kp [['d'], "up".toList, "sub".toList, "lnk".toList] := by decide
  refine ⟨?_, ?_, trivial⟩
  · -- Rename("/abs/sub/f", "/d/rel/g"): resolved /real/sub/f (a file) and /real/sub/g (absent)
    refine ⟨by decide, by decide, by decide +kernel, ?_⟩
    intro ko kn hko hkn eo en
    have h1 := kp_inj hko hKo (eo.symm.trans hco)
    have h2 := kp_inj hkn hKn (en.symm.trans hcn)
    subst h1 h2
    have hro : G.rk [['b']] wT1 ["abs".toList, "sub".toList, ['f']] = ["real".toList, "sub".toList, ['f']] := by
      decide +kernel
    have hrn : G.rk [['b']] wT1 [['d'], "rel".toList, ['g']] = ["real".toList, "sub".toList, ['g']] := by
      decide +kernel
    have hvo : osSimL_example.view .base wT1.fs ["real".toList, "sub".toList, ['f']] = some (.file "x" exM) := by
      decide +kernel
    have hvn : osSimL_example.view .base wT1.fs ["real".toList, "sub".toList, ['g']] = none := by decide +kernel
    refine ⟨G.linkOKAt_of hro hvo (by intro t mt h; cases h), G.linkOKAt_of hrn hvn (by intro t mt h; cases h), ?_, ?_⟩
    · rw [hro]; rintro ⟨⟨mt, hd⟩, _⟩; rw [hvo] at hd; cases hd
    · rw [hro]; rintro ⟨t, mt, hl⟩; rw [hvo] at hl; cases hl
  · -- Symlink("g", "/d/up/sub/lnk"): resolved /real/sub/lnk, absent, nothing tracked below
    have hrl : G.rk [['b']] wH1 [['d'], "up".toList, "sub".toList, "lnk".toList] =
        ["real".toList, "sub".toList, "lnk".toList] := by decide +kernel
    have hvl : osSimL_example.view .base wH1.fs ["real".toList, "sub".toList, "lnk".toList] = none := by
      decide +kernel
    refine ⟨by decide, by decide +kernel, covered_key hKl hcl ⟨G.linkOKAt_of hrl hvl (by intro t mt h; cases h), ?_⟩⟩
    have hnb : NoneBelow wH1 ["real".toList, "sub".toList, "lnk".toList] := G.noneBelow_of_keys
      (ks := [["real".toList, "sub".toList, ['g']], [], ["real".toList], ["real".toList, "sub".toList],
        ["real".toList, "sub".toList, ['f']]]) (by decide +kernel) (by decide) (by decide)
    rw [← hrl] at hnb
    exact hnb

theorem runOps_two (cfg : Cfg) (w : World) (a b : Op) :
    runOps cfg w [a, b] = Op.step cfg (Op.step cfg w a) b := rfl

/-- the first transaction leaves a state from which the next one can start (by the theorem itself) -/
theorem tx1_after : OSGoodL [['b']] [['k']] wT1.fs ∧ wT1.infos = [] ∧ wT1.faults = [] ∧
    BackupLinksOK osSimL_example wT1.fs := by
  have hbl : BackupLinksOK osSimL_example wG0.fs := by
    intro k hl
    obtain ⟨t, mt, h⟩ := Props.C01L.isLinkAt_osViewL.mp hl
    exact absurd h (wG0_backup_clean k t mt)
  have h := G.tx_restores (bk := [['b']]) (kk := [['k']]) (hbk := by decide) (hkk := by decide) (hne1 := by decide)
    (hne2 := by decide) (hd1 := by decide) (hd2 := by decide) (w := wG0) flatDisk_good rfl rfl hbl opsG1 tx1_covered
  exact ⟨h.1, h.2.1, h.2.2.1, h.2.2.2.1⟩

/-- the disk is well-formed when `RemoveAll` is issued (by the invariant theorem) -/
theorem wH2_good : OSGoodL [['b']] [['k']] wH2.fs := by
  obtain ⟨g1, i1, _, b1⟩ := tx1_after
  have hinv : L.Inv osSimL_example (osSimL_example.view .base wT1.fs) wT1 :=
    L.Inv.init (S := osSimL_example) g1 i1 b1
  have hk := G.history_keeps (bk := [['b']]) (kk := [['k']]) (hbk := by decide) (hkk := by decide) (hne1 := by decide)
    (hne2 := by decide) (hd1 := by decide) (hd2 := by decide) _ wT1 hinv tx2_prefix_covered
  have hgood := hk.inv.good
  rw [runOps_two] at hgood
  exact hgood

set_option maxRecDepth 100000 in
theorem tx2_covered : G.CoveredHist cfgG [['b']] osSimL_example wT1 opsG2 := by
  obtain ⟨h1, h2, _⟩ := tx2_prefix_covered
  refine ⟨h1, h2, ?_, trivial⟩
  -- RemoveAll("/abs/sub"): resolved /real/sub; the walk meets the link /real/sub/lnk -> g (re-creatable)
  have hKs : PKey ["abs".toList, "sub".toList] := by decide
  have hcs : clean "/abs/sub".toList = kp ["abs".toList, "sub".toList] := by decide
  have hrs : G.rk [['b']] wH2 ["abs".toList, "sub".toList] = ["real".toList, "sub".toList] := by decide +kernel
  have hlok : LOK osSimL_example ["real".toList, "sub".toList] wH2 :=
    G.lok_of_lokB wH2_good (by decide +kernel)
  rw [← hrs] at hlok
  exact ⟨by decide, by decide, by decide +kernel, covered_key hKs hcs hlok⟩

/-- non-vacuity: the hypotheses of `rollback_restores_through_flat_links_clean_backup_partial` hold of
the flat disk of Props/C16F.lean and the two transactions above, every mutating operation of which
names its object through a symlinked directory. -/
example : OSGoodL [['b']] [['k']] wG0.fs ∧ wG0.infos = [] ∧ wG0.faults = [] ∧
    (∀ k t mt, wG0.fs.get ([['k']] ++ k) ≠ some (.link t mt)) ∧
    G.CoveredTxs cfgG [['b']] osSimL_example wG0 [opsG1, opsG2] :=
  ⟨flatDisk_good, rfl, rfl, wG0_backup_clean, tx1_covered, tx2_covered, trivial⟩

/-- the names really go through links: `realPath` rewrites them (first clause), because proper
ancestors of the cleaned names are symlinks on the disk — so none of the seven mutating operations
is covered by `L.Op.Covered` -/
example : G.rk [['b']] wG0 ["abs".toList, "sub".toList, "new".toList] = ["real".toList, "sub".toList, "new".toList] ∧
    (∃ t mt, wG0.fs.get [['b'], "abs".toList] = some (.link t mt)) ∧
    (∃ t mt, wG0.fs.get [['b'], ['d'], "rel".toList] = some (.link t mt)) ∧
    (∃ t mt, wG0.fs.get [['b'], ['d'], "up".toList] = some (.link t mt)) :=
  ⟨by decide +kernel, ⟨"/b/real".toList, exM, by decide +kernel⟩,
   ⟨"../real/./sub".toList, exM, by decide +kernel⟩, ⟨"../d/../real".toList, exM, by decide +kernel⟩⟩

end Props.C01
