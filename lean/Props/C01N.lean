import Props.C04N
import Props.C04L
import Props.C07N
import Props.C12N
import Props.C10N
/-!
# C01 in the documented (README, `NewWithFS`) layering — re-exports

The end-to-end statements of C01 ("after Rollback every entry of the base is what it was before the first
operation") for the nested layering live in the files of the properties whose machinery they were proved with
(`Props.C04`, `Props.C07`, `Props.C12`, `Props.C10`).  This file restates them in the namespace `Props.C01`, so
that the audit of C01 lists them; every proof is the one-line reference.
-/
namespace Props.C01
open BFS BFS.BackupFS Conc

/-- C01, nested layering, link-free trees, any number of transactions (= `Props.C04.rollback_restores_nested_linkfree_partial`) -/
theorem rollback_restores_nested_linkfree_partial (bk hk dd : Key) (hr : N.NRoots bk hk dd)
    (w : World) (hg : N.NGood bk hk dd w.fs) (hinfos : w.infos = []) (hnf : w.faults = [])
    (txs : List (List Op))
    (hcov : N.CoveredTxs (N.nestedCfg bk hk) (N.nSim bk hk dd hr) w txs) :
    ∀ k, k ≠ [] → ¬ hk <+: k →
      ((txs.foldl (runTx (N.nestedCfg bk hk)) w).fs.get (bk ++ k)).map eraseMt =
        (w.fs.get (bk ++ k)).map eraseMt :=
  Props.C04.rollback_restores_nested_linkfree_partial bk hk dd hr.pb hr.ph hr.pd hr.nb hr.nh hr.nd hr.d1 hr.d2
    w hg.1 hg.2 hinfos hnf txs hcov

/-- C01 + C07, nested layering: EVERY key below the base root — outside, at or below the backup location — is what
it was (location empty at the start) -/
theorem whole_tree_as_before_nested_linkfree_partial (bk hk dd : Key) (hr : N.NRoots bk hk dd)
    (w : World) (hg : N.NGood bk hk dd w.fs) (hinfos : w.infos = []) (hnf : w.faults = [])
    (hempty : ∀ k, k ≠ [] → w.fs.get (bk ++ hk ++ k) = none)
    (txs : List (List Op))
    (hcov : N.CoveredTxs (N.nestedCfg bk hk) (N.nSim bk hk dd hr) w txs) :
    ∀ k, k ≠ [] → ((txs.foldl (runTx (N.nestedCfg bk hk)) w).fs.get (bk ++ k)).map eraseMt =
      (w.fs.get (bk ++ k)).map eraseMt :=
  Props.C07.whole_tree_as_before_nested_linkfree_partial bk hk dd hr w hg hinfos hnf hempty txs hcov

/-- C01, nested layering, symlinks as leaves (= `Props.C04.rollback_restores_nested_symlink_leaves_partial`) -/
theorem rollback_restores_nested_symlink_leaves_partial (bk hk dd : Key) (hr : N.NRoots bk hk dd)
    (w : World) (hg : L.OSGoodL bk dd w.fs) (hloc : ∃ mt, w.fs.get (bk ++ hk) = some (.dir mt))
    (hinfos : w.infos = []) (hnf : w.faults = [])
    (hbl : Props.C04.BackupLinksBelowBase bk hk w.fs)
    (txs : List (List Op))
    (hcov : NL.CoveredTxs (N.nestedCfg bk hk) (NL.nlSim bk hk dd hr) w txs) :
    ∀ k, k ≠ [] → ¬ hk <+: k →
      ((txs.foldl (runTx (N.nestedCfg bk hk)) w).fs.get (bk ++ k)).map (L.eraseV (kp bk)) =
        (w.fs.get (bk ++ k)).map (L.eraseV (kp bk)) :=
  Props.C04.rollback_restores_nested_symlink_leaves_partial bk hk dd hr w hg hloc hinfos hnf hbl txs hcov

/-- C01 across restarts, nested layering, several transactions (= `Props.C12.rollback_after_restart_restores_txs_nested_linkfree_partial`) -/
theorem rollback_after_restart_restores_txs_nested_linkfree_partial (bk hk dd : Key) (hr : N.NRoots bk hk dd)
    (w : World) (hg : N.NGood bk hk dd w.fs) (hinfos : w.infos = []) (hnf : w.faults = [])
    (hown : OwnersSmall w.fs = true) (txs : List (List Step))
    (hargs : ∀ tx ∈ txs, ∀ op ∈ opsOf tx, J12.OpSmall op)
    (hcov : N.CoveredTxs (N.nestedCfg bk hk) (N.nSim bk hk dd hr) w (txs.map opsOf)) :
    ∀ k, k ≠ [] → ¬ hk <+: k →
      ((runTxsR (N.nestedCfg bk hk) w txs).fs.get (bk ++ k)).map eraseMt = (w.fs.get (bk ++ k)).map eraseMt :=
  Props.C12.rollback_after_restart_restores_txs_nested_linkfree_partial bk hk dd hr w hg hinfos hnf hown txs hargs hcov

/-- C01 under concurrency, nested layering (= `Props.C10.concurrent_rollback_restores_nested_linkfree_partial`) -/
theorem concurrent_rollback_restores_nested_linkfree_partial (bk hk dd : Key) (hr : N.NRoots bk hk dd)
    (w0 : World) (hg : N.NGood bk hk dd w0.fs) (hinfos : w0.infos = []) (hnf : w0.faults = [])
    (opOf : Nat → Op) (sched : List Nat) (c : Config World)
    (h : exec (fun t => Props.C10.opThread (N.nestedCfg bk hk) (opOf t)) sched (init w0) = some c)
    (hfree : c.owner = none)
    (hcov : N.CoveredHist (N.nestedCfg bk hk) (N.nSim bk hk dd hr) w0 (c.order.map opOf)) :
    ∀ k, k ≠ [] → ¬ hk <+: k →
      ((rollback (N.nestedCfg bk hk) c.st).1.fs.get (bk ++ k)).map eraseMt =
        (w0.fs.get (bk ++ k)).map eraseMt :=
  Props.C10.concurrent_rollback_restores_nested_linkfree_partial bk hk dd hr.pb hr.ph hr.pd hr.nb hr.nh hr.nd hr.d1 hr.d2
    w0 hg.1 hg.2 hinfos hnf opOf sched c h hfree hcov

end Props.C01
