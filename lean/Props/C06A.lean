import Lemmas.FlowCheck
/-!
# C06 — facts about the CURRENT Go sources (regenerated on every run), decided by the kernel

`Generated.flowFacts` is written by the harness (`vharness -stream astfacts`, go/ast) from /repo's
working tree before every build; the predicates are defined in `Lemmas/FlowCheck.lean`.  A change to
the sources that alters how names flow through the methods changes the facts, and these theorems no
longer build — whether or not a generated input happens to exhibit the difference.
-/
namespace Props.C06
open Flow Generated

/-- every HiddenFS method tests each name with `isHidden` before its single base call (RemoveAll:
`isHidden`/`isParentOfHidden` before every direct `Remove`) -/
theorem source_checked_before_delegation : checkedBeforeDelegation flowFacts methodParams = true := by decide +kernel

end Props.C06
