import Lemmas.LPOS
import Lemmas.LPInv
import Props.C13
import Props.C01L
/-!
# C13 on disks WITH SYMLINKS — Rollback stays within the transaction's footprint

`Props/C13.lean` proves the state-level footprint of `Rollback` for link-free disks.  This file
proves the same statements for the OS model behind two `PrefixFS` layers on disks that contain
symlinks ANYWHERE (`L.OSGoodL`: any tree of plain names; link targets are arbitrary texts) — again
for every world (no transaction invariant: the two trees may have been changed arbitrarily by other
actors since the operations ran), every tracked map (keys tracked as files, directories, SYMLINKS or
"did not exist") and every fault plan, whatever Rollback returns.

The delicate point is FOLLOWING.  In the OS model `Chmod`, `Chown`, `Chtimes`, `OpenFile`, `MkdirAll`
follow a symlink at the final component; `Lstat`, `Readlink`, `Remove`, `RemoveAll`, `Symlink`,
`Lchown`, `Mkdir` do not; every call follows symlinks in the directory part of its path.

* A symlink AT a tracked path (put there by another actor, or by the transaction) is harmless — this
  is a theorem, no hypothesis: `restoreFile` and `tryRestoreDirPaths` see with `Lstat` that what sits
  there is not a regular file / directory and take it away with `Remove` BEFORE they issue a following
  call; when that `Remove` is refused the act stops; `restoreSymlink` issues non-following calls only;
  `Remove` of a tracked-absent key and the clean-up of the backup use `Remove`.  So the target of such
  a symlink is never touched (`symlink_at_tracked_file_target_untouched`, and the kernel-evaluated run
  `symlink_at_tracked_path_run`).
* A symlink ABOVE a tracked path is not: every call for that path goes THROUGH it and acts elsewhere.
  Hence the two hypotheses `BaseLinkFree` (no proper ancestor of a tracked key is a symlink in the
  base) and `BackupLinkFree` (no proper ancestor of a key tracked with an original is a symlink in
  the backup), both decidable, both about the state when Rollback starts.  Both are FORCED:
  `symlinked_ancestor_in_base_breaks_footprint` and `symlinked_ancestor_in_backup_breaks_footprint`
  (kernel-checked) show a never-named file deleted by Rollback when one of them is dropped.

The entries are compared through `L.osViewL bk kk s m j = (m.get (root s ++ j)).map (L.eraseV _)`:
the node with directory timestamps erased; for a symlink, the text `Readlink` reports and the owner.
Regular files are compared byte for byte with all metadata.
-/
namespace Props.C13
open BFS BFS.BackupFS

/-! ### the two hypotheses, on the disk -/

/-- a symlink sits at key `K` of the disk -/
def linkOn (m : MFS) (K : Key) : Bool :=
  match m.get K with
  | some (.link _ _) => true
  | _ => false

/-- no PROPER ancestor of `k` (the key `k` itself is not looked at) is a symlink on the disk below
`root`: for every `n < length k` the prefix of length `n` is not a symlink -/
def NoLinkAbove (root : Key) (m : MFS) (k : Key) : Prop :=
  ∀ n, n < k.length → linkOn m (root ++ k.take n) = false

instance (root : Key) (m : MFS) (k : Key) : Decidable (NoLinkAbove root m k) := by
  unfold NoLinkAbove; infer_instance

/-- no proper ancestor of a tracked path is a symlink in the base tree (`comps` turns the tracked
path into its key) -/
def BaseLinkFree (bk : Key) (w : World) : Prop :=
  ∀ e ∈ w.infos, NoLinkAbove bk w.fs (comps e.1)

/-- no proper ancestor of a path tracked with an original is a symlink in the backup tree -/
def BackupLinkFree (kk : Key) (w : World) : Prop :=
  ∀ e ∈ w.infos, e.2.isSome = true → NoLinkAbove kk w.fs (comps e.1)

instance (bk : Key) (w : World) : Decidable (BaseLinkFree bk w) := by
  unfold BaseLinkFree; infer_instance

instance (kk : Key) (w : World) : Decidable (BackupLinkFree kk w) := by
  unfold BackupLinkFree; infer_instance

theorem noLinkAnc_of_above {bk kk : Key} {s : Side} {m : MFS} {k : Key}
    (h : NoLinkAbove (osRoot bk kk s) m k) : L.NoLinkAnc (L.osViewL bk kk s m) k := by
  intro a ha hne hl
  obtain ⟨raw, mt, hget⟩ := L.osViewL_isLinkAt hl
  have hlen : a.length < k.length := by
    rcases Nat.lt_or_ge a.length k.length with h1 | h1
    · exact h1
    · exact absurd (ha.eq_of_length (Nat.le_antisymm ha.length_le h1)) hne
  have := h a.length hlen
  rw [← List.prefix_iff_eq_take.mp ha] at this
  simp [linkOn, hget] at this

/-- a statement about every tracked key, checked on the list of tracked paths -/
theorem tracked_forall {infos : List (Path × Option Info)} {P : Key → Option Info → Prop}
    (h : ∀ e ∈ infos, P (comps e.1) e.2) : ∀ k oi, (kp k, oi) ∈ infos → PKey k → P k oi := by
  intro k oi hm hk
  have := h _ hm
  simp only [comps_kp hk] at this
  exact this

theorem keys_of_check {infos : List (Path × Option Info)}
    (h : ∀ e ∈ infos, PKey (comps e.1) ∧ e.1 = kp (comps e.1)) :
    ∀ p oi, (p, oi) ∈ infos → ∃ k, PKey k ∧ p = kp k :=
  fun p _ hm => ⟨comps p, (h _ hm).1, (h _ hm).2⟩

theorem isFileAt_backupL_iff {bk kk : Key} {m : MFS} {k : Key} :
    (L.osViewL bk kk .backup m).isFileAt k ↔ CopyIsFile kk m k := by
  constructor
  · intro h
    exact L.osViewL_isFileAt h
  · rintro ⟨c, mt, h⟩
    refine ⟨c, mt, ?_⟩
    rw [L.osViewL_eq]
    show (m.get (kk ++ k)).map _ = _
    rw [h]; rfl

/-! ### the theorems -/

/-- T13.3L (main) Rollback changes the base only inside the footprint of the tracked map, regular
files and symlinks only inside the narrower file footprint, and the backup only at keys tracked with
an original — any well-formed disk WITH SYMLINKS, any fault plan.

`Touches vb k oi j` (`vb` the backup view when Rollback starts) is the footprint of the link-free
theorem: `j = k`; or `k` is tracked as a directory and `j` is one of its prefixes (`MkdirAll`); or `k`
is tracked as a regular FILE, the backup holds no regular file at `k`, and `j` lies below `k` (the
one `RemoveAll` left in `restoreFile`).  A key tracked as a SYMLINK contributes itself only.
The last clause says where symlinks can come from: a symlink of the base after Rollback was a
symlink before, or sits at a key tracked as a symlink whose backup entry is a symlink. -/
theorem rollback_leaves_unrelated_entries_alone_with_links_partial (bk kk : Key) (hbk : PKey bk) (hkk : PKey kk)
    (hne1 : bk ≠ []) (hne2 : kk ≠ []) (hd1 : ¬ bk <+: kk) (hd2 : ¬ kk <+: bk)
    (w : World) (hg : L.OSGoodL bk kk w.fs)
    (hkeys : ∀ p oi, (p, oi) ∈ w.infos → ∃ k, PKey k ∧ p = kp k)
    (hroot : (kp [], none) ∉ w.infos)
    (hbase : BaseLinkFree bk w) (hbackup : BackupLinkFree kk w) :
    let w' := (rollback (osCfg bk kk) w).1
    let vb := L.osViewL bk kk .backup w.fs
    L.OSGoodL bk kk w'.fs ∧
    (∀ j, (∀ k oi, (kp k, oi) ∈ w.infos → PKey k → k ≠ [] → ¬ Touches vb k oi j) →
      L.osViewL bk kk .base w'.fs j = L.osViewL bk kk .base w.fs j) ∧
    (∀ j c mt, w.fs.get (bk ++ j) = some (.file c mt) →
      (∀ k oi, (kp k, oi) ∈ w.infos → PKey k → k ≠ [] → ¬ TouchesFile vb k oi j) →
      w'.fs.get (bk ++ j) = some (.file c mt)) ∧
    (∀ j t mt, w.fs.get (bk ++ j) = some (.link t mt) →
      (∀ k oi, (kp k, oi) ∈ w.infos → PKey k → k ≠ [] → ¬ TouchesFile vb k oi j) →
      L.osViewL bk kk .base w'.fs j = L.osViewL bk kk .base w.fs j) ∧
    (∀ j, (j = [] ∨ ∀ i, (kp j, some i) ∉ w.infos) →
      L.osViewL bk kk .backup w'.fs j = L.osViewL bk kk .backup w.fs j) ∧
    (∀ j, linkOn w'.fs (bk ++ j) = true → linkOn w.fs (bk ++ j) = true ∨
      (∃ i, (kp j, some i) ∈ w.infos ∧ i.kind = .link ∧ linkOn w.fs (kk ++ j) = true)) := by
  have hB : L.BaseAncOK (L.osViewL bk kk .base w.fs) w.infos := by
    intro k oi ⟨hk, _, hm⟩
    apply noLinkAnc_of_above
    have := hbase _ hm
    simp only [comps_kp hk] at this
    exact this
  have hK : L.BackupAncOK (L.osViewL bk kk .backup w.fs) w.infos := by
    intro k i ⟨hk, _, hm⟩
    apply noLinkAnc_of_above
    have := hbackup _ hm rfl
    simp only [comps_kp hk] at this
    exact this
  obtain ⟨g, hb, hf, hk⟩ :=
    L.rollback_frame_entries (L.osSimL bk kk hbk hkk hne1 hne2 hd1 hd2)
      (L.osSimL_readlinkStrict bk kk hbk hkk hne1 hne2 hd1 hd2) (w := w) hg hkeys hroot hB hK
  obtain ⟨_, _, _, _, _, hl⟩ :=
    L.rollback_frame (L.osSimL bk kk hbk hkk hne1 hne2 hd1 hd2)
      (L.osSimL_readlinkStrict bk kk hbk hkk hne1 hne2 hd1 hd2) (w := w) hg hkeys hroot hB hK
  refine ⟨g, fun j hj => hb j hj, ?_, ?_, fun j hj => hk j hj, ?_⟩
  · intro j c mt hget hj
    have hv : L.osViewL bk kk .base w.fs j = some (.file c mt) := by
      rw [L.osViewL_eq]
      show (w.fs.get (bk ++ j)).map _ = _
      rw [hget]; rfl
    have := hf j hj (Or.inl ⟨c, mt, hv⟩)
    have hv' : L.osViewL bk kk .base (rollback (osCfg bk kk) w).1.fs j = some (.file c mt) := this.trans hv
    obtain ⟨c', mt', h0⟩ := L.osViewL_isFileAt ⟨c, mt, hv'⟩
    have e : L.osViewL bk kk .base (rollback (osCfg bk kk) w).1.fs j = some (.file c' mt') := by
      rw [L.osViewL_eq, h0]; rfl
    rw [hv'] at e
    cases e
    exact h0
  · intro j t mt hget hj
    exact hf j hj (Or.inr (L.osViewL_isLinkAt_of (s := .base) hget))
  · intro j hon
    have hla : L.isLinkAt (L.osViewL bk kk .base (rollback (osCfg bk kk) w).1.fs) j := by
      unfold linkOn at hon
      split at hon
      · rename_i t mt hget
        exact L.osViewL_isLinkAt_of (s := .base) hget
      · cases hon
    rcases hl j hla with h0 | ⟨⟨i, ⟨_, _, hm⟩, hkind⟩, hbl⟩
    · left
      obtain ⟨raw, mt, hget⟩ := L.osViewL_isLinkAt h0
      have hget' : w.fs.get (bk ++ j) = some (.link raw mt) := hget
      simp [linkOn, hget']
    · right
      obtain ⟨raw, mt, hget⟩ := L.osViewL_isLinkAt hbl
      have hget' : w.fs.get (kk ++ j) = some (.link raw mt) := hget
      exact ⟨i, hm, hkind, by simp [linkOn, hget']⟩

/-- T13.4L "entries with fresh names that other actors created inside pre-existing directories
survive" — files, directories and SYMLINKS alike, also inside directories the transaction created
and inside a directory that took the place of a removed original: an entry `j` of the base such
that no operation named `j` or anything below it is left as it is, provided every key ABOVE `j` that
is tracked as a regular file still has a regular file as its backup copy. -/
theorem foreign_entry_survives_with_links_partial (bk kk : Key) (hbk : PKey bk) (hkk : PKey kk)
    (hne1 : bk ≠ []) (hne2 : kk ≠ []) (hd1 : ¬ bk <+: kk) (hd2 : ¬ kk <+: bk)
    (w : World) (hg : L.OSGoodL bk kk w.fs)
    (hkeys : ∀ p oi, (p, oi) ∈ w.infos → ∃ k, PKey k ∧ p = kp k)
    (hroot : (kp [], none) ∉ w.infos)
    (hbase : BaseLinkFree bk w) (hbackup : BackupLinkFree kk w)
    (j : Key)
    (hfresh : ∀ k oi, (kp k, oi) ∈ w.infos → PKey k → ¬ j <+: k)
    (hcopy : ∀ k i, (kp k, some i) ∈ w.infos → PKey k → i.kind = .file → k <+: j → CopyIsFile kk w.fs k) :
    L.osViewL bk kk .base (rollback (osCfg bk kk) w).1.fs j = L.osViewL bk kk .base w.fs j := by
  refine (rollback_leaves_unrelated_entries_alone_with_links_partial bk kk hbk hkk hne1 hne2 hd1 hd2 w hg hkeys hroot
    hbase hbackup).2.1 j ?_
  intro k oi hm hk _ ht
  rcases ht with rfl | ⟨i, rfl, hkind, hnf, hpre⟩ | ⟨_, _, _, hpre⟩
  · exact hfresh _ oi hm hk (List.prefix_refl _)
  · exact hnf (isFileAt_backupL_iff.mpr (hcopy k i hm hk hkind hpre))
  · exact hfresh k oi hm hk hpre

/-- T13.5L "files never named by an operation keep whatever content they have": a regular file whose
key is not tracked keeps its content, mode, owner and modification time — wherever it lies, in
particular when it is the TARGET OF A SYMLINK that sits at a tracked path or anywhere else. -/
theorem unnamed_file_keeps_content_with_links_partial (bk kk : Key) (hbk : PKey bk) (hkk : PKey kk)
    (hne1 : bk ≠ []) (hne2 : kk ≠ []) (hd1 : ¬ bk <+: kk) (hd2 : ¬ kk <+: bk)
    (w : World) (hg : L.OSGoodL bk kk w.fs)
    (hkeys : ∀ p oi, (p, oi) ∈ w.infos → ∃ k, PKey k ∧ p = kp k)
    (hroot : (kp [], none) ∉ w.infos)
    (hbase : BaseLinkFree bk w) (hbackup : BackupLinkFree kk w)
    (j : Key) (c : String) (mt : Meta) (hfile : w.fs.get (bk ++ j) = some (.file c mt))
    (hunnamed : ∀ oi, (kp j, oi) ∉ w.infos)
    (hcopy : ∀ k i, (kp k, some i) ∈ w.infos → PKey k → i.kind = .file → k <+: j → CopyIsFile kk w.fs k) :
    (rollback (osCfg bk kk) w).1.fs.get (bk ++ j) = some (.file c mt) := by
  refine (rollback_leaves_unrelated_entries_alone_with_links_partial bk kk hbk hkk hne1 hne2 hd1 hd2 w hg hkeys hroot
    hbase hbackup).2.2.1 j c mt hfile ?_
  intro k oi hm hk _ ht
  rcases ht with rfl | ⟨i, rfl, hkind, hnf, hpre⟩
  · exact hunnamed oi hm
  · exact hnf (isFileAt_backupL_iff.mpr (hcopy k i hm hk hkind hpre))

/-- T13.5L' a SYMLINK whose key is not tracked keeps its target (the text `Readlink` reports) and
its owner -/
theorem unnamed_link_keeps_target_with_links_partial (bk kk : Key) (hbk : PKey bk) (hkk : PKey kk)
    (hne1 : bk ≠ []) (hne2 : kk ≠ []) (hd1 : ¬ bk <+: kk) (hd2 : ¬ kk <+: bk)
    (w : World) (hg : L.OSGoodL bk kk w.fs)
    (hkeys : ∀ p oi, (p, oi) ∈ w.infos → ∃ k, PKey k ∧ p = kp k)
    (hroot : (kp [], none) ∉ w.infos)
    (hbase : BaseLinkFree bk w) (hbackup : BackupLinkFree kk w)
    (j : Key) (t : Path) (mt : Meta) (hlink : w.fs.get (bk ++ j) = some (.link t mt))
    (hunnamed : ∀ oi, (kp j, oi) ∉ w.infos)
    (hcopy : ∀ k i, (kp k, some i) ∈ w.infos → PKey k → i.kind = .file → k <+: j → CopyIsFile kk w.fs k) :
    L.osViewL bk kk .base (rollback (osCfg bk kk) w).1.fs j = L.osViewL bk kk .base w.fs j := by
  refine (rollback_leaves_unrelated_entries_alone_with_links_partial bk kk hbk hkk hne1 hne2 hd1 hd2 w hg hkeys hroot
    hbase hbackup).2.2.2.1 j t mt hlink ?_
  intro k oi hm hk _ ht
  rcases ht with rfl | ⟨i, rfl, hkind, hnf, hpre⟩
  · exact hunnamed oi hm
  · exact hnf (isFileAt_backupL_iff.mpr (hcopy k i hm hk hkind hpre))

/-- T13.5L'' the footprint when nobody tampered with the backup copies of regular files: the base
changes at `j` only if `j` is tracked or is an ancestor of a key tracked as a directory; a regular
file or symlink changes only if its own key is tracked.  No exception is left. -/
theorem rollback_changes_named_entries_only_with_links_partial (bk kk : Key) (hbk : PKey bk) (hkk : PKey kk)
    (hne1 : bk ≠ []) (hne2 : kk ≠ []) (hd1 : ¬ bk <+: kk) (hd2 : ¬ kk <+: bk)
    (w : World) (hg : L.OSGoodL bk kk w.fs)
    (hkeys : ∀ p oi, (p, oi) ∈ w.infos → ∃ k, PKey k ∧ p = kp k)
    (hroot : (kp [], none) ∉ w.infos)
    (hbase : BaseLinkFree bk w) (hbackup : BackupLinkFree kk w)
    (hcopies : ∀ k i, (kp k, some i) ∈ w.infos → PKey k → k ≠ [] → i.kind = .file → CopyIsFile kk w.fs k) :
    let w' := (rollback (osCfg bk kk) w).1
    (∀ j, (∀ k oi, (kp k, oi) ∈ w.infos → PKey k → k ≠ [] →
        j ≠ k ∧ ∀ i, oi = some i → i.kind = .dir → ¬ j <+: k) →
      L.osViewL bk kk .base w'.fs j = L.osViewL bk kk .base w.fs j) ∧
    (∀ j c mt, w.fs.get (bk ++ j) = some (.file c mt) → (∀ oi, (kp j, oi) ∉ w.infos) →
      w'.fs.get (bk ++ j) = some (.file c mt)) ∧
    (∀ j t mt, w.fs.get (bk ++ j) = some (.link t mt) → (∀ oi, (kp j, oi) ∉ w.infos) →
      L.osViewL bk kk .base w'.fs j = L.osViewL bk kk .base w.fs j) := by
  obtain ⟨_, hb, hf, hl, _⟩ :=
    rollback_leaves_unrelated_entries_alone_with_links_partial bk kk hbk hkk hne1 hne2 hd1 hd2 w hg hkeys hroot hbase hbackup
  refine ⟨?_, ?_, ?_⟩
  · intro j hj
    apply hb j
    intro k oi hm hk hne ht
    obtain ⟨h1, h2⟩ := hj k oi hm hk hne
    rcases ht with e | ⟨i, rfl, hkind, hnf, _⟩ | ⟨i, rfl, hkind, hpre⟩
    · exact h1 e
    · exact hnf (isFileAt_backupL_iff.mpr (hcopies k i hm hk hne hkind))
    · exact h2 i rfl hkind hpre
  · intro j c mt hfile hun
    apply hf j c mt hfile
    intro k oi hm hk hne ht
    rcases ht with rfl | ⟨i, rfl, hkind, hnf, _⟩
    · exact hun oi hm
    · exact hnf (isFileAt_backupL_iff.mpr (hcopies k i hm hk hne hkind))
  · intro j t mt hlink hun
    apply hl j t mt hlink
    intro k oi hm hk hne ht
    rcases ht with rfl | ⟨i, rfl, hkind, hnf, _⟩
    · exact hun oi hm
    · exact hnf (isFileAt_backupL_iff.mpr (hcopies k i hm hk hne hkind))

/-- T13.6L "in the backup filesystem Rollback removes only what BackupFS put there": a backup entry
(file, directory or symlink) whose key is not tracked with an original — in particular foreign
content inside backup directories — is left in place. -/
theorem foreign_backup_content_survives_with_links_partial (bk kk : Key) (hbk : PKey bk) (hkk : PKey kk)
    (hne1 : bk ≠ []) (hne2 : kk ≠ []) (hd1 : ¬ bk <+: kk) (hd2 : ¬ kk <+: bk)
    (w : World) (hg : L.OSGoodL bk kk w.fs)
    (hkeys : ∀ p oi, (p, oi) ∈ w.infos → ∃ k, PKey k ∧ p = kp k)
    (hroot : (kp [], none) ∉ w.infos)
    (hbase : BaseLinkFree bk w) (hbackup : BackupLinkFree kk w)
    (j : Key) (huntracked : ∀ i, (kp j, some i) ∉ w.infos) :
    L.osViewL bk kk .backup (rollback (osCfg bk kk) w).1.fs j = L.osViewL bk kk .backup w.fs j :=
  (rollback_leaves_unrelated_entries_alone_with_links_partial bk kk hbk hkk hne1 hne2 hd1 hd2 w hg hkeys hroot
    hbase hbackup).2.2.2.2.1 j (Or.inr huntracked)

/-- T13.7L **a symlink sitting at the path of a tracked regular file is not followed**: whatever
regular file `j` the symlink at the tracked path `p` points to — or any other untracked regular file
— is byte for byte what it was, with all its metadata, after Rollback.  (Stated for the situation
asked about; it is `unnamed_file_keeps_content_with_links_partial` with the symlink mentioned: nothing in the
proof depends on where the symlink points, because no call that follows is issued while it is there.) -/
theorem symlink_at_tracked_file_target_untouched (bk kk : Key) (hbk : PKey bk) (hkk : PKey kk)
    (hne1 : bk ≠ []) (hne2 : kk ≠ []) (hd1 : ¬ bk <+: kk) (hd2 : ¬ kk <+: bk)
    (w : World) (hg : L.OSGoodL bk kk w.fs)
    (hkeys : ∀ p oi, (p, oi) ∈ w.infos → ∃ k, PKey k ∧ p = kp k)
    (hroot : (kp [], none) ∉ w.infos)
    (hbase : BaseLinkFree bk w) (hbackup : BackupLinkFree kk w)
    (p : Key) (i : Info) (_htracked : (kp p, some i) ∈ w.infos) (_hkind : i.kind = .file ∨ i.kind = .dir)
    (raw : Path) (lmt : Meta) (_hlink : w.fs.get (bk ++ p) = some (.link raw lmt))
    (j : Key) (c : String) (mt : Meta) (htarget : w.fs.get (bk ++ j) = some (.file c mt))
    (hunnamed : ∀ oi, (kp j, oi) ∉ w.infos)
    (hcopy : ∀ k i, (kp k, some i) ∈ w.infos → PKey k → i.kind = .file → k <+: j → CopyIsFile kk w.fs k) :
    (rollback (osCfg bk kk) w).1.fs.get (bk ++ j) = some (.file c mt) :=
  unnamed_file_keeps_content_with_links_partial bk kk hbk hkk hne1 hne2 hd1 hd2 w hg hkeys hroot hbase hbackup
    j c mt htarget hunnamed hcopy

/-! ### concrete disks: a finite table of entries -/

/-- the disk holding exactly the listed entries -/
def diskOf (l : List (Key × Node)) : MFS :=
  { get := fun k => l.lookup k, dom := l.map Prod.fst, umask := 0o022 }

def dirOn (m : MFS) (K : Key) : Bool :=
  match m.get K with
  | some (.dir _) => true
  | _ => false

theorem dirOn_iff {m : MFS} {K : Key} (h : dirOn m K = true) : ∃ mt, m.get K = some (.dir mt) := by
  unfold dirOn at h
  split at h
  · rename_i mt hget; exact ⟨mt, hget⟩
  · cases h

/-- the decidable well-formedness check of a table: the root and the two roots are directories, every
entry has a key of plain names, 12 mode bits and a directory as its parent -/
def GoodList (bk kk : Key) (l : List (Key × Node)) : Prop :=
  dirOn (diskOf l) [] = true ∧ dirOn (diskOf l) bk = true ∧ dirOn (diskOf l) kk = true ∧
  ∀ e ∈ l, PKey e.1 ∧ e.2.meta.mode < 4096 ∧ (e.1 ≠ [] → dirOn (diskOf l) e.1.dropLast = true)

instance (bk kk : Key) (l : List (Key × Node)) : Decidable (GoodList bk kk l) := by
  unfold GoodList; infer_instance

theorem mem_of_lookup {l : List (Key × Node)} {k : Key} {v : Node} (h : l.lookup k = some v) : (k, v) ∈ l := by
  induction l with
  | nil => simp at h
  | cons a l ih =>
    obtain ⟨a1, a2⟩ := a
    simp only [List.lookup_cons] at h
    split at h
    · rename_i heq
      have : k = a1 := by simpa using heq
      cases h; subst this; simp
    · exact List.mem_cons_of_mem _ (ih h)

theorem osGoodL_diskOf {bk kk : Key} {l : List (Key × Node)} (h : GoodList bk kk l) :
    L.OSGoodL bk kk (diskOf l) := by
  obtain ⟨h0, hb, hk, hall⟩ := h
  refine ⟨dirOn_iff h0, ?_, ?_, ?_, ?_, dirOn_iff hb, dirOn_iff hk⟩
  · intro k n hget
    exact (hall _ (mem_of_lookup hget)).1
  · intro k n hget
    exact List.mem_map.mpr ⟨(k, n), mem_of_lookup hget, rfl⟩
  · intro k n hget
    exact (hall _ (mem_of_lookup hget)).2.1
  · intro k n hget hne
    exact dirOn_iff ((hall _ (mem_of_lookup hget)).2.2 hne)

/-! ### non-vacuity: a disk with symlinks in all the places the theorems talk about -/

def lnkMeta : Meta := { exMeta with mode := 0o777 }
def m644 : Meta := { exMeta with mode := 0o644 }
def exLinkInfo : Info := { name := [], size := 1, kind := .link, perm := 0o777, mtime := .old 0, uid := 0, gid := 0 }

/-- base root `/b`, backup root `/k`.  When Rollback starts:
* `/d` — a pre-existing directory (tracked with its original), holding a FOREIGN FILE `/d/x` and a
  FOREIGN SYMLINK `/d/fl -> x` that another actor put there;
* `/f` — tracked as a regular file (copy `/k/f`), but A SYMLINK `/f -> d/x` SITS AT ITS PATH now:
  another actor replaced the file by a link to the foreign file;
* `/l` — tracked as a symlink (copy `/k/l -> f`); the transaction replaced it by a regular file;
* `/k/d/y` — a foreign file inside a backup directory. -/
def lkDisk : MFS := diskOf [
  ([], .dir exMeta), ([['b']], .dir exMeta), ([['k']], .dir exMeta),
  ([['b'], ['d']], .dir exMeta),
  ([['b'], ['d'], ['x']], foreignNode),
  ([['b'], ['d'], ['f', 'l']], .link "x".toList lnkMeta),
  ([['b'], ['f']], .link "d/x".toList lnkMeta),
  ([['b'], ['l']], .file "new" m644),
  ([['k'], ['d']], .dir exMeta),
  ([['k'], ['d'], ['y']], foreignNode),
  ([['k'], ['f']], .file "orig" m644),
  ([['k'], ['l']], .link "f".toList lnkMeta)]

/-- `/`, `/d` tracked as directories, `/f` as a regular file, `/l` as a symlink; one `Chtimes` is
planned to fail, to show that the fault plan is arbitrary -/
def lkWorld : World :=
  { fs := lkDisk,
    infos := [(kp [], some exDirInfo), (kp [['d']], some exDirInfo), (kp [['f']], some exFileInfo),
      (kp [['l']], some exLinkInfo)],
    faults := [{ sig := { side := .base, method := "chtimes", args := [kp [['f']], "0".toList, "0".toList] }, occ := 0 }] }

theorem osGoodL_lkDisk : L.OSGoodL [['b']] [['k']] lkDisk := osGoodL_diskOf (by decide)

def fileOn (m : MFS) (K : Key) : Bool :=
  match m.get K with
  | some (.file _ _) => true
  | _ => false

theorem copyIsFile_of_fileOn {kk : Key} {m : MFS} {k : Key} (h : fileOn m (kk ++ k) = true) : CopyIsFile kk m k := by
  unfold fileOn at h
  split at h
  · rename_i c mt hget; exact ⟨c, mt, hget⟩
  · cases h

/-- the condition "every key above `j` tracked as a regular file has a regular file as its backup
copy", checked on the list of tracked paths -/
theorem copies_of_check {infos : List (Path × Option Info)} {kk : Key} {m : MFS} {j : Key}
    (h : ∀ e ∈ infos, e.2.map Info.kind = some .file → comps e.1 <+: j → fileOn m (kk ++ comps e.1) = true) :
    ∀ k i, (kp k, some i) ∈ infos → PKey k → i.kind = .file → k <+: j → CopyIsFile kk m k := by
  intro k i hm hk hkind hpre
  have := h _ hm (by simp [hkind])
  simp only [comps_kp hk] at this
  exact copyIsFile_of_fileOn (this hpre)

theorem untracked_of_check {infos : List (Path × Option Info)} {p : Path} (h : ∀ e ∈ infos, e.1 ≠ p) :
    ∀ oi, (p, oi) ∉ infos := fun _ hm => h _ hm rfl

/-- **the hypotheses of all the theorems above hold of `lkWorld`** (all by `decide`): a tracked file
with a symlink sitting at its path, a tracked symlink, a foreign file and a foreign symlink in a
pre-existing directory, foreign content in a backup directory -/
theorem lkWorld_hypotheses :
    L.OSGoodL [['b']] [['k']] lkWorld.fs ∧
    (∀ p oi, (p, oi) ∈ lkWorld.infos → ∃ k, PKey k ∧ p = kp k) ∧
    (kp [], none) ∉ lkWorld.infos ∧
    BaseLinkFree [['b']] lkWorld ∧ BackupLinkFree [['k']] lkWorld ∧
    -- a symlink sits at the path of the tracked regular file `/f`, pointing at the foreign file
    (kp [['f']], some exFileInfo) ∈ lkWorld.infos ∧ exFileInfo.kind = .file ∧
    lkWorld.fs.get ([['b']] ++ [['f']]) = some (.link "d/x".toList lnkMeta) ∧
    -- `/l` is tracked as a symlink
    (kp [['l']], some exLinkInfo) ∈ lkWorld.infos ∧ exLinkInfo.kind = .link ∧
    -- the foreign file `/d/x`: untracked, nothing below it is tracked, backup copies above it intact
    lkWorld.fs.get ([['b']] ++ [['d'], ['x']]) = some foreignNode ∧
    (∀ oi, (kp [['d'], ['x']], oi) ∉ lkWorld.infos) ∧
    (∀ k oi, (kp k, oi) ∈ lkWorld.infos → PKey k → ¬ [['d'], ['x']] <+: k) ∧
    (∀ k i, (kp k, some i) ∈ lkWorld.infos → PKey k → i.kind = .file → k <+: [['d'], ['x']] →
      CopyIsFile [['k']] lkWorld.fs k) ∧
    -- the foreign symlink `/d/fl`
    lkWorld.fs.get ([['b']] ++ [['d'], ['f', 'l']]) = some (.link "x".toList lnkMeta) ∧
    (∀ oi, (kp [['d'], ['f', 'l']], oi) ∉ lkWorld.infos) ∧
    (∀ k i, (kp k, some i) ∈ lkWorld.infos → PKey k → i.kind = .file → k <+: [['d'], ['f', 'l']] →
      CopyIsFile [['k']] lkWorld.fs k) ∧
    -- the foreign backup entry `/d/y`
    (∀ i, (kp [['d'], ['y']], some i) ∉ lkWorld.infos) :=
  ⟨osGoodL_lkDisk, keys_of_check (by decide), by decide, by decide, by decide,
    by decide, rfl, by decide, by decide, rfl, by decide,
    untracked_of_check (by decide), tracked_forall (P := fun k _ => ¬ [['d'], ['x']] <+: k) (by decide),
    copies_of_check (by decide), by decide, untracked_of_check (by decide), copies_of_check (by decide),
    fun i => untracked_of_check (p := kp [['d'], ['y']]) (by decide) (some i)⟩

/-- what the theorems give for `lkWorld` -/
def LkSurvives (w : World) : Prop :=
  let w' := (rollback (osCfg [['b']] [['k']]) w).1
  -- the target of the symlink sitting at the tracked file's path: byte for byte, all metadata
  w'.fs.get [['b'], ['d'], ['x']] = some foreignNode ∧
  -- the foreign symlink: same `Readlink` text, same owner
  L.osViewL [['b']] [['k']] .base w'.fs [['d'], ['f', 'l']] = L.osViewL [['b']] [['k']] .base w.fs [['d'], ['f', 'l']] ∧
  -- the foreign entry in the backup directory
  L.osViewL [['b']] [['k']] .backup w'.fs [['d'], ['y']] = L.osViewL [['b']] [['k']] .backup w.fs [['d'], ['y']]

/-- (the world is kept a variable so that no defeq check ever runs the model on a closed term) -/
theorem lkSurvives_of_eq (w : World) (hw : w = lkWorld) : LkSurvives w := by
  obtain ⟨hg, hkeys, hroot, hB, hK, hft, hfk, hfl, _, _, hx, hxun, _, hxcopy, hl, hlun, hlcopy, hy⟩ := lkWorld_hypotheses
  rw [← hw] at hg hkeys hroot hB hK hft hfl hx hxun hxcopy hl hlun hlcopy hy
  refine ⟨?_, ?_, ?_⟩
  · exact symlink_at_tracked_file_target_untouched [['b']] [['k']] (by decide) (by decide) (by decide) (by decide)
      (by decide) (by decide) w hg hkeys hroot hB hK [['f']] exFileInfo hft (Or.inl hfk) _ _ hfl
      [['d'], ['x']] _ _ hx hxun hxcopy
  · exact unnamed_link_keeps_target_with_links_partial [['b']] [['k']] (by decide) (by decide) (by decide) (by decide)
      (by decide) (by decide) w hg hkeys hroot hB hK [['d'], ['f', 'l']] _ _ hl hlun hlcopy
  · exact foreign_backup_content_survives_with_links_partial [['b']] [['k']] (by decide) (by decide) (by decide) (by decide)
      (by decide) (by decide) w hg hkeys hroot hB hK [['d'], ['y']] hy

/-- T13.4L/5L/6L/7L applied: with a symlink sitting at the path of the tracked file `/f` and pointing
at the foreign file `/d/x`, whatever the fault plan does (here it refuses a `Chtimes`), `/d/x` is
byte for byte what the other actor wrote after Rollback; the foreign symlink and the foreign backup
entry are untouched too -/
theorem symlink_at_tracked_path_target_untouched_any_plan : LkSurvives lkWorld :=
  lkSurvives_of_eq lkWorld rfl

/-! ### the same scenario, run in the kernel -/

/-- the entries of `m` at the listed keys -/
def entriesAt (m : MFS) (ks : List Key) : List (Option Node) := ks.map m.get

set_option maxRecDepth 100000 in
/-- **A symlink sits at the path of a tracked regular file at Rollback time — evaluated** (`decide`):
Rollback issues `Lstat /f` (a symlink, not a regular file), `Remove /f` (the LINK goes), then
`OpenFile /f` with `O_CREATE|O_TRUNC` creates a fresh regular file and receives the content of the
backup copy.  The link's target `/d/x` keeps content, mode, owner and time; the foreign symlink
`/d/fl` and the foreign backup entry `/k/d/y` stay; `/l` is a symlink to `f` again; the copies `/k/f`,
`/k/l` are removed; `Remove /k/d` fails (not empty) and Rollback reports it (`.ok true`).  (The planned
`Chtimes` fault fires: the restored file keeps a fresh timestamp.) -/
theorem symlink_at_tracked_path_run :
    let r := rollback (osCfg [['b']] [['k']]) lkWorld
    (entriesAt r.1.fs [[['b'], ['d'], ['x']], [['b'], ['d'], ['f', 'l']], [['b'], ['f']], [['b'], ['l']],
        [['k'], ['d'], ['y']], [['k'], ['f']], [['k'], ['l']]], r.2) =
      ([some foreignNode, some (.link "x".toList lnkMeta), some (.file "orig" { m644 with mtime := .fresh }),
        some (.link "f".toList { lnkMeta with mtime := .fresh }), some foreignNode, none, none], .ok true) := by
  decide +kernel

/-- the same world with the `Remove` of the symlink at `/f` refused by the fault plan -/
def lkWorldR : World :=
  { lkWorld with faults := [{ sig := { side := .base, method := "remove", args := [kp [['f']]] }, occ := 0 }] }

set_option maxRecDepth 100000 in
/-- **…and when that `Remove` is refused the act stops**: no `OpenFile`/`Chown`/`Chmod`/`Chtimes` is
issued while the symlink is there — `/f` is still the symlink, its target `/d/x` is untouched, Rollback
reports the error -/
theorem symlink_at_tracked_path_run_remove_refused :
    let r := rollback (osCfg [['b']] [['k']]) lkWorldR
    (entriesAt r.1.fs [[['b'], ['d'], ['x']], [['b'], ['f']]], r.2) =
      ([some foreignNode, some (.link "d/x".toList lnkMeta)], .ok true) := by
  decide +kernel

/-! ### the two hypotheses are forced -/

/-- `j` is neither above nor below any tracked key other than the root -/
def UnrelatedToTracked (infos : List (Path × Option Info)) (j : Key) : Prop :=
  ∀ e ∈ infos, comps e.1 ≠ [] → ¬ comps e.1 <+: j ∧ ¬ j <+: comps e.1

instance (infos : List (Path × Option Info)) (j : Key) : Decidable (UnrelatedToTracked infos j) := by
  unfold UnrelatedToTracked; infer_instance

theorem not_touches_of_unrelated {infos : List (Path × Option Info)} {j : Key} (h : UnrelatedToTracked infos j)
    (vb : View) : ∀ k oi, (kp k, oi) ∈ infos → PKey k → k ≠ [] → ¬ Touches vb k oi j := by
  intro k oi hm hk hne ht
  have := h _ hm
  simp only [comps_kp hk] at this
  obtain ⟨h1, h2⟩ := this hne
  rcases ht.related with r | r
  · exact h1 r
  · exact h2 r

/-- base: a directory `/t` with a foreign file `/t/x`; the pre-existing directory `/a` — in which the
transaction created `/a/x` (tracked as "did not exist") — has been REPLACED BY A SYMLINK `/a -> t` by
another actor.  The backup holds the directory copy `/k/a`. -/
def cxaDisk : MFS := diskOf [
  ([], .dir exMeta), ([['b']], .dir exMeta), ([['k']], .dir exMeta),
  ([['b'], ['t']], .dir exMeta),
  ([['b'], ['t'], ['x']], foreignNode),
  ([['b'], ['a']], .link "t".toList lnkMeta),
  ([['k'], ['a']], .dir exMeta)]

def cxaWorld : World :=
  { fs := cxaDisk,
    infos := [(kp [], some exDirInfo), (kp [['a']], some exDirInfo), (kp [['a'], ['x']], none)] }

set_option maxRecDepth 100000 in
/-- **`BaseLinkFree` cannot be dropped** (kernel-checked): every other hypothesis of
`rollback_leaves_unrelated_entries_alone_with_links_partial` holds of `cxaWorld` and the key `/t/x` is unrelated
to every tracked key, yet Rollback DELETES the never-named file `/t/x` — `Lstat /a/x` and `Remove /a/x`
go through the symlink `/a` — and returns nil. -/
theorem symlinked_ancestor_in_base_breaks_footprint :
    L.OSGoodL [['b']] [['k']] cxaWorld.fs ∧
    (∀ p oi, (p, oi) ∈ cxaWorld.infos → ∃ k, PKey k ∧ p = kp k) ∧
    (kp [], none) ∉ cxaWorld.infos ∧
    BackupLinkFree [['k']] cxaWorld ∧
    ¬ BaseLinkFree [['b']] cxaWorld ∧
    (∀ vb k oi, (kp k, oi) ∈ cxaWorld.infos → PKey k → k ≠ [] → ¬ Touches vb k oi [['t'], ['x']]) ∧
    cxaWorld.fs.get ([['b']] ++ [['t'], ['x']]) = some foreignNode ∧
    (let r := rollback (osCfg [['b']] [['k']]) cxaWorld
     (r.1.fs.get ([['b']] ++ [['t'], ['x']]), r.2) = (none, .ok false)) :=
  ⟨osGoodL_diskOf (by decide), keys_of_check (by decide), by decide, by decide, by decide,
    fun vb => not_touches_of_unrelated (by decide) vb, by decide, by decide +kernel⟩

/-- base: the tracked file `/d/f` (changed by the transaction) and a never-named file `/e/f`; in the
BACKUP another actor replaced the directory copy `/k/d` BY A SYMLINK to the base directory `/b/e`. -/
def cxbDisk : MFS := diskOf [
  ([], .dir exMeta), ([['b']], .dir exMeta), ([['k']], .dir exMeta),
  ([['b'], ['e']], .dir exMeta),
  ([['b'], ['e'], ['f']], foreignNode),
  ([['b'], ['d']], .dir exMeta),
  ([['b'], ['d'], ['f']], .file "changed" m644),
  ([['k'], ['d']], .link "/b/e".toList lnkMeta)]

def cxbWorld : World :=
  { fs := cxbDisk,
    infos := [(kp [], some exDirInfo), (kp [['d']], some exDirInfo), (kp [['d'], ['f']], some exFileInfo)] }

set_option maxRecDepth 100000 in
/-- **`BackupLinkFree` cannot be dropped** (kernel-checked): every other hypothesis holds of `cxbWorld`
and the key `/e/f` is unrelated to every tracked key, yet Rollback DELETES the never-named base file
`/e/f` — the clean-up `Lstat /d/f`, `Remove /d/f` on the backup go through the symlink `/k/d` into the
base — after having "restored" `/d/f` from it, and returns nil. -/
theorem symlinked_ancestor_in_backup_breaks_footprint :
    L.OSGoodL [['b']] [['k']] cxbWorld.fs ∧
    (∀ p oi, (p, oi) ∈ cxbWorld.infos → ∃ k, PKey k ∧ p = kp k) ∧
    (kp [], none) ∉ cxbWorld.infos ∧
    BaseLinkFree [['b']] cxbWorld ∧
    ¬ BackupLinkFree [['k']] cxbWorld ∧
    (∀ vb k oi, (kp k, oi) ∈ cxbWorld.infos → PKey k → k ≠ [] → ¬ Touches vb k oi [['e'], ['f']]) ∧
    cxbWorld.fs.get ([['b']] ++ [['e'], ['f']]) = some foreignNode ∧
    (let r := rollback (osCfg [['b']] [['k']]) cxbWorld
     (entriesAt r.1.fs [[['b'], ['e'], ['f']], [['b'], ['d'], ['f']]], r.2) =
       ([none, some (.file "foreign" m644)], .ok false)) :=
  ⟨osGoodL_diskOf (by decide), keys_of_check (by decide), by decide, by decide, by decide,
    fun vb => not_touches_of_unrelated (by decide) vb, by decide, by decide +kernel⟩

/-! ### the hypotheses hold after every covered history

The theorems above assume nothing about how the world came about.  This section shows that the worlds
BackupFS itself produces satisfy their hypotheses: after ANY covered history of the symlink-leaves
fragment of C01 (`Props/C01L.lean`), run under ANY fault plan, `BaseLinkFree` and `BackupLinkFree` hold
(they are clauses/consequences of the transaction invariant `L.Inv`), and every backup copy of a
tracked regular file is a regular file.  So, composed: Rollback run under any fault plan of its own
after such a history changes nothing outside the named entries — C01L says what a Rollback on healthy
filesystems restores, this says what a FAILING Rollback cannot damage. -/

theorem above_of_noLinkAnc {bk kk : Key} {s : Side} {m : MFS} {k : Key}
    (h : L.NoLinkAnc (L.osViewL bk kk s m) k) : NoLinkAbove (osRoot bk kk s) m k := by
  intro n hn
  cases hon : linkOn m (osRoot bk kk s ++ k.take n) with
  | false => rfl
  | true =>
    exfalso
    unfold linkOn at hon
    split at hon
    · rename_i t mt hget
      refine h (k.take n) (List.take_prefix n k) ?_ (L.osViewL_isLinkAt_of hget)
      intro e
      have := congrArg List.length e
      simp only [List.length_take] at this
      omega
    · cases hon

/-- T13.8L after any covered history (symlinks as leaves, the `Symlink` operation included), under
any fault plan, the world satisfies every hypothesis of the footprint theorems — with any fault plan
`f` put in place for Rollback -/
theorem footprint_hypotheses_after_history (bk kk : Key) (hbk : PKey bk) (hkk : PKey kk)
    (hne1 : bk ≠ []) (hne2 : kk ≠ []) (hd1 : ¬ bk <+: kk) (hd2 : ¬ kk <+: bk)
    (w : World) (hg : L.OSGoodL bk kk w.fs) (hinfos : w.infos = [])
    (hbl : ∀ k, (∃ t mt, w.fs.get (kk ++ k) = some (.link t mt)) → ∃ t mt, w.fs.get (bk ++ k) = some (.link t mt))
    (ops : List Op)
    (hcov : L.CoveredHist (osCfg bk kk) (L.osSimL bk kk hbk hkk hne1 hne2 hd1 hd2) w ops)
    (f : List Fault) :
    let w1 : World := { runOps (osCfg bk kk) w ops with faults := f }
    L.OSGoodL bk kk w1.fs ∧
    (∀ p oi, (p, oi) ∈ w1.infos → ∃ k, PKey k ∧ p = kp k) ∧
    (kp [], none) ∉ w1.infos ∧
    BaseLinkFree bk w1 ∧ BackupLinkFree kk w1 ∧
    (∀ k i, (kp k, some i) ∈ w1.infos → PKey k → k ≠ [] → i.kind = .file → CopyIsFile kk w1.fs k) := by
  have hinv := (Props.C01L.invariant_after_history bk kk hbk hkk hne1 hne2 hd1 hd2 w hg hinfos hbl ops hcov).with_faults f
  obtain ⟨hkeys, hroot, hB, hK, hC⟩ := hinv.footprint_hyps
  refine ⟨hinv.good, hkeys, hroot, ?_, ?_, ?_⟩
  · intro e hm
    obtain ⟨p, oi⟩ := e
    obtain ⟨k, hk, rfl⟩ := hkeys p oi hm
    simp only [comps_kp hk]
    by_cases hne : k = []
    · subst hne; intro n hn; cases hn
    · exact above_of_noLinkAnc (s := .base) (hB k oi ⟨hk, hne, hm⟩)
  · intro e hm hs
    obtain ⟨p, oi⟩ := e
    obtain ⟨k, hk, rfl⟩ := hkeys p oi hm
    simp only [comps_kp hk]
    by_cases hne : k = []
    · subst hne; intro n hn; cases hn
    · cases oi with
      | none => cases hs
      | some i => exact above_of_noLinkAnc (s := .backup) (hK k i ⟨hk, hne, hm⟩)
  · intro k i hm hk hne hkind
    exact isFileAt_backupL_iff.mp (hC k i ⟨hk, hne, hm⟩ hkind)

/-- T13.9L composed: after any covered history, a Rollback that runs under ANY fault plan — whatever
it manages to restore, whatever it returns — leaves every entry that is not tracked and not an
ancestor of a tracked directory as it is, and every never-named regular file byte for byte -/
theorem failing_rollback_after_history_changes_named_entries_only_symlink_leaves
    (bk kk : Key) (hbk : PKey bk) (hkk : PKey kk)
    (hne1 : bk ≠ []) (hne2 : kk ≠ []) (hd1 : ¬ bk <+: kk) (hd2 : ¬ kk <+: bk)
    (w : World) (hg : L.OSGoodL bk kk w.fs) (hinfos : w.infos = [])
    (hbl : ∀ k, (∃ t mt, w.fs.get (kk ++ k) = some (.link t mt)) → ∃ t mt, w.fs.get (bk ++ k) = some (.link t mt))
    (ops : List Op)
    (hcov : L.CoveredHist (osCfg bk kk) (L.osSimL bk kk hbk hkk hne1 hne2 hd1 hd2) w ops)
    (f : List Fault) :
    let w1 : World := { runOps (osCfg bk kk) w ops with faults := f }
    let w' := (rollback (osCfg bk kk) w1).1
    (∀ j, (∀ k oi, (kp k, oi) ∈ w1.infos → PKey k → k ≠ [] →
        j ≠ k ∧ ∀ i, oi = some i → i.kind = .dir → ¬ j <+: k) →
      L.osViewL bk kk .base w'.fs j = L.osViewL bk kk .base w1.fs j) ∧
    (∀ j c mt, w1.fs.get (bk ++ j) = some (.file c mt) → (∀ oi, (kp j, oi) ∉ w1.infos) →
      w'.fs.get (bk ++ j) = some (.file c mt)) ∧
    (∀ j t mt, w1.fs.get (bk ++ j) = some (.link t mt) → (∀ oi, (kp j, oi) ∉ w1.infos) →
      L.osViewL bk kk .base w'.fs j = L.osViewL bk kk .base w1.fs j) := by
  obtain ⟨hg1, hkeys, hroot, hB, hK, hC⟩ :=
    footprint_hypotheses_after_history bk kk hbk hkk hne1 hne2 hd1 hd2 w hg hinfos hbl ops hcov f
  exact rollback_changes_named_entries_only_with_links_partial bk kk hbk hkk hne1 hne2 hd1 hd2 _ hg1 hkeys hroot hB hK hC

end Props.C13
