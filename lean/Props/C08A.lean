import Lemmas.FlowCheck
/-!
# C08 — facts about the CURRENT Go sources (regenerated on every run), decided by the kernel

`Generated.flowFacts` is written by the harness (`vharness -stream astfacts`, go/ast) from /repo's
working tree before every build; the predicates are defined in `Lemmas/FlowCheck.lean`.  A change to
the sources that alters how names flow through the methods changes the facts, and these theorems no
longer build — whether or not a generated input happens to exhibit the difference.
-/
namespace Props.C08
open Flow Generated

/-- the base call of every mutator comes after `tryBackup` of the very name it is given (so an error
return of `tryBackup` — the early `return err` between them is part of the model — leaves the base
call unissued) -/
theorem source_backup_precedes_base_mutation : backupBeforeMutation flowFacts methodParams = true := by decide +kernel

/-- while a backup is taken, every helper that writes (`copyDir`, `copyFile`, `copySymlink`) is pointed at
`fsys.backup`; nothing in `tryBackup`/`backupDirs`/`backupRequired` restores or chowns on the base -/
theorem source_backup_helpers_write_backup_only : backupHelpersWriteBackupOnly flowFacts = true := by decide +kernel

end Props.C08
