import Props.C07L
import Props.C02
import Props.C02X
import Lemmas.LXGTx
/-!
# C02 (symlinks as leaves, names through flat symlinks) — the backup copies are EXACT, are never
# overwritten, and the backup holds nothing else

The second half of C02 for the fragments of `Props.C01L.rollback_restores_symlink_leaves_partial`
(`L.CoveredHist`: trees with **symlinks (any target text) as leaves**, the `Symlink` operation) and of
`Props.C01.rollback_restores_through_flat_links_partial` (`L.G.CoveredHist`: names THROUGH flat symlinks):
the OS model behind two `PrefixFS` layers, any finite history of covered operations.

**Every fault plan** (crash plans included; start condition on the backup directory as in C01L: every
symlink below the backup root sits at a key where the base holds a symlink too — e.g. an empty backup):

* `backup_copies_exact_…_partial` (+ `backup_file_/dir_/link_copies_exact_…`): every non-root key tracked
  with a `FileInfo` holds, at the same path of the backup tree, EXACTLY the node the base tree held when
  the transaction began — regular files: the very same node (content, all twelve mode bits, uid, gid,
  mtime); directories: mode bits, uid, gid (timestamps exempt, as in C01); **symlinks**: a symlink whose
  target text *as `Readlink` through the backup `PrefixFS` reports it* equals the text `Readlink` through
  the base `PrefixFS` reported for the original, with the same uid and gid (`Lchown`).  (A link's own mode
  and timestamp cannot be set and are erased from both views: `L.eraseV`.)
* `original_intact_or_exactly_copied_…_partial`: the literal per-entry disjunction — every entry that
  existed when the transaction began is still shown by the base, or is tracked with a `FileInfo`
  describing it exactly AND exactly copied at the same path of the backup.
* `copy_never_overwritten_…_partial`: once tracked with a `FileInfo`, the backup node at that path is the
  same at every later state of the history.
* `backup_copies_exact_at_every_crash_point_…_partial`: the first statement for `crashPlan n`, every `n`.

**Healthy filesystems** (`faults = []`, backup root empty at the start):

* `backup_holds_only_exact_copies_…_partial`: everything below the backup root is such an exact copy of a
  tracked original (files, directories, symlinks) — never content created during the transaction.  The
  fault-free hypothesis is forced as in the link-free case (`Props.C02.failed_copy_leaves_inexact_orphan`).

How: the invariant `L.InvX` (Lemmas/LXInv.lean: `L.Inv` + "the backup view at a key tracked with an info IS
the original view there"), preserved by every copy helper, mutator and the `RemoveAll` walk under every
fault plan (Lemmas/LXTrack.lean, LXOps.lean, LXGOps.lean, LXGTx.lean): a key is recorded only after its
copy helper returned ok, and `copyFile`/`copyDir`/`copySymlink` leave the original at the target whenever
they return ok, whatever sat there before; for the healthy statement `L.InvB` (Lemmas/LB*.lean,
`Props.C07.backup_invariant_after_history_…`).

**Unclean target texts (K-unclean-link-target).**  "Exact" for a symlink is modulo what `PrefixFS.Readlink`
does to the stored text: the L development never assumes stored target texts to be clean (`L.OSGoodL`
allows any text); its views hold the REPORTED text (`L.eraseV`: `PrefixFS.readlinkPost`, which cleans and,
for absolute targets, strips the prefix), and that is what `copySymlink` hands to `Symlink`.  Exactness
of the STORED text is false: `unclean_link_copy_not_raw_exact` (kernel-checked).
-/
namespace Props.C02
open BFS BFS.BackupFS BFS.L

private theorem mapV_file {pre : Path} {x : Option Node} {c : String} {mt : Meta}
    (h : x.map (eraseV pre) = some (.file c mt)) : x = some (.file c mt) := by
  cases x with
  | none => cases h
  | some n =>
    simp only [Option.map_some, Option.some.injEq] at h
    rw [eraseV_file.mp h]

private theorem mapV_dir {pre : Path} {x : Option Node} {md : Meta}
    (h : x.map (eraseV pre) = some (.dir md)) :
    ∃ md', x = some (.dir md') ∧ md'.mode = md.mode ∧ md'.uid = md.uid ∧ md'.gid = md.gid := by
  cases x with
  | none => cases h
  | some n =>
    simp only [Option.map_some, Option.some.injEq] at h
    obtain ⟨m0, rfl, hmd⟩ := eraseV_dir h
    exact ⟨m0, rfl, by rw [hmd], by rw [hmd], by rw [hmd]⟩

private theorem mapV_link {pre : Path} {x : Option Node} {t : Path} {md : Meta}
    (h : x.map (eraseV pre) = some (.link t md)) :
    ∃ raw md', x = some (.link raw md') ∧ PrefixFS.readlinkPost pre raw = t ∧ md'.uid = md.uid ∧ md'.gid = md.gid := by
  cases x with
  | none => cases h
  | some n =>
    simp only [Option.map_some, Option.some.injEq] at h
    obtain ⟨raw, m0, rfl, ht, hmd⟩ := eraseV_link h
    exact ⟨raw, m0, rfl, ht.symm, by rw [hmd], by rw [hmd]⟩

private theorem coveredHist_appendL {cfg : Cfg} {S : LSim cfg} : ∀ (ops₁ ops₂ : List Op) (w : World),
    L.CoveredHist cfg S w (ops₁ ++ ops₂) → L.CoveredHist cfg S w ops₁ ∧ L.CoveredHist cfg S (runOps cfg w ops₁) ops₂
  | [], _, _, h => ⟨trivial, h⟩
  | op :: rest, ops₂, w, h => by
    obtain ⟨h1, h2⟩ := coveredHist_appendL rest ops₂ (op.step cfg w) h.2
    exact ⟨⟨h.1, h1⟩, h2⟩

private theorem coveredHist_appendG {cfg : Cfg} {bk : Key} {S : LSim cfg} : ∀ (ops₁ ops₂ : List Op) (w : World),
    G.CoveredHist cfg bk S w (ops₁ ++ ops₂) →
      G.CoveredHist cfg bk S w ops₁ ∧ G.CoveredHist cfg bk S (runOps cfg w ops₁) ops₂
  | [], _, _, h => ⟨trivial, h⟩
  | op :: rest, ops₂, w, h => by
    obtain ⟨h1, h2⟩ := coveredHist_appendG rest ops₂ (op.step cfg w) h.2
    exact ⟨⟨h.1, h1⟩, h2⟩

section
variable (bk kk : Key) (hbk : PKey bk) (hkk : PKey kk)
  (hne1 : bk ≠ []) (hne2 : kk ≠ []) (hd1 : ¬ bk <+: kk) (hd2 : ¬ kk <+: bk)

/-! ### what the invariants say, read on the disk (shared by both fragments) -/

section
variable {bk kk hbk hkk hne1 hne2 hd1 hd2}
variable {w0 w : World}

private theorem exact_of_x
    (hX : L.XInv (osSimL bk kk hbk hkk hne1 hne2 hd1 hd2) (osViewL bk kk .base w0.fs) w) :
    ∀ k i, PKey k → k ≠ [] → w.infos.lookup (kp k) = some (some i) →
      (w.fs.get (kk ++ k)).map (eraseV (kp kk)) = (w0.fs.get (bk ++ k)).map (eraseV (kp bk)) :=
  fun k i hpk hk hts => hX.exact k i hpk hk hts

private theorem file_of_x (hg : OSGoodL bk kk w0.fs)
    (hX : L.XInv (osSimL bk kk hbk hkk hne1 hne2 hd1 hd2) (osViewL bk kk .base w0.fs) w) :
    ∀ k i c mt, k ≠ [] → w.infos.lookup (kp k) = some (some i) → w0.fs.get (bk ++ k) = some (.file c mt) →
      w.fs.get (kk ++ k) = some (.file c mt) := by
  intro k i c mt hk hts horig
  have hpk : PKey k := (hg.pkey _ _ horig).right
  have h := exact_of_x hX k i hpk hk hts
  rw [horig] at h
  exact mapV_file h

private theorem dir_of_x (hg : OSGoodL bk kk w0.fs)
    (hX : L.XInv (osSimL bk kk hbk hkk hne1 hne2 hd1 hd2) (osViewL bk kk .base w0.fs) w) :
    ∀ k i mt, k ≠ [] → w.infos.lookup (kp k) = some (some i) → w0.fs.get (bk ++ k) = some (.dir mt) →
      ∃ mt', w.fs.get (kk ++ k) = some (.dir mt') ∧ mt'.mode = mt.mode ∧ mt'.uid = mt.uid ∧ mt'.gid = mt.gid := by
  intro k i mt hk hts horig
  have hpk : PKey k := (hg.pkey _ _ horig).right
  have h := exact_of_x hX k i hpk hk hts
  rw [horig] at h
  obtain ⟨md', h1, h2, h3, h4⟩ := mapV_dir h
  exact ⟨md', h1, h2, h3, h4⟩

private theorem link_of_x (hg : OSGoodL bk kk w0.fs)
    (hX : L.XInv (osSimL bk kk hbk hkk hne1 hne2 hd1 hd2) (osViewL bk kk .base w0.fs) w) :
    ∀ k i raw mt, k ≠ [] → w.infos.lookup (kp k) = some (some i) → w0.fs.get (bk ++ k) = some (.link raw mt) →
      ∃ raw' mt', w.fs.get (kk ++ k) = some (.link raw' mt') ∧
        PrefixFS.readlinkPost (kp kk) raw' = PrefixFS.readlinkPost (kp bk) raw ∧
        mt'.uid = mt.uid ∧ mt'.gid = mt.gid := by
  intro k i raw mt hk hts horig
  have hpk : PKey k := (hg.pkey _ _ horig).right
  have h := exact_of_x hX k i hpk hk hts
  rw [horig] at h
  have h' : (w.fs.get (kk ++ k)).map (eraseV (kp kk)) =
      some (.link (PrefixFS.readlinkPost (kp bk) raw) { mt with mtime := .fresh, mode := 0o777 }) := h
  obtain ⟨raw', mt', h1, h2, h3, h4⟩ := mapV_link h'
  exact ⟨raw', mt', h1, h2, h3, h4⟩

private theorem disjunction_of_x (hg : OSGoodL bk kk w0.fs)
    (hI : L.Inv (osSimL bk kk hbk hkk hne1 hne2 hd1 hd2) (osViewL bk kk .base w0.fs) w)
    (hX : L.XInv (osSimL bk kk hbk hkk hne1 hne2 hd1 hd2) (osViewL bk kk .base w0.fs) w) :
    ∀ k, k ≠ [] → ∀ node, w0.fs.get (bk ++ k) = some node →
      (w.fs.get (bk ++ k)).map (eraseV (kp bk)) = some (eraseV (kp bk) node) ∨
      ((∃ i, w.infos.lookup (kp k) = some (some i) ∧ InfoForL i (eraseV (kp bk) node)) ∧
        (w.fs.get (kk ++ k)).map (eraseV (kp kk)) = some (eraseV (kp bk) node)) := by
  intro k hk node horig
  have hv : osViewL bk kk .base w0.fs k = some (eraseV (kp bk) node) := by
    show (w0.fs.get (bk ++ k)).map (eraseV (kp bk)) = _
    rw [horig]; rfl
  have hpk : PKey k := (hg.pkey _ _ horig).right
  rcases tracked_cases w k with hu | htn | ⟨i, hts⟩
  · left
    exact (hI.frame k hpk hu).trans hv
  · have := hI.absent k hpk htn
    rw [hv] at this; cases this
  · right
    obtain ⟨n, hn, hfor, _⟩ := hI.saved k i hpk hts
    rw [hv] at hn; cases hn
    exact ⟨⟨i, hts, hfor⟩, (hX.exact k i hpk hk hts).trans hv⟩

private theorem only_of_invB
    (hB : L.InvB (osSimL bk kk hbk hkk hne1 hne2 hd1 hd2) (osViewL bk kk .base w0.fs) (osViewL bk kk .backup w0.fs []) w) :
    ∀ j, j ≠ [] → w.fs.get (kk ++ j) ≠ none →
      ∃ i node, w.infos.lookup (kp j) = some (some i) ∧
        w0.fs.get (bk ++ j) = some node ∧ InfoForL i (eraseV (kp bk) node) ∧
        (w.fs.get (kk ++ j)).map (eraseV (kp kk)) = some (eraseV (kp bk) node) := by
  intro j hj hp
  have hp' : osViewL bk kk .backup w.fs j ≠ none := by
    show (w.fs.get (kk ++ j)).map (eraseV (kp kk)) ≠ none
    intro e; exact hp (Option.map_eq_none_iff.mp e)
  obtain ⟨i, hts⟩ := hB.b.bonly j hj hp'
  have hpk : PKey j := (osSimL bk kk hbk hkk hne1 hne2 hd1 hd2).pkey hB.inv.good hp'
  obtain ⟨n, hn, hfor, _⟩ := hB.inv.saved j i hpk hts
  have hn' : (w0.fs.get (bk ++ j)).map (eraseV (kp bk)) = some n := hn
  have hex := hB.b.bexact j i hpk hj hts
  cases hraw : w0.fs.get (bk ++ j) with
  | none => rw [hraw] at hn'; cases hn'
  | some node =>
    rw [hraw] at hn'
    simp only [Option.map_some, Option.some.injEq] at hn'
    refine ⟨i, node, hts, rfl, hn' ▸ hfor, ?_⟩
    have : (w.fs.get (kk ++ j)).map (eraseV (kp kk)) = (w0.fs.get (bk ++ j)).map (eraseV (kp bk)) := hex
    rw [this, hraw]; rfl

end

/-! ### symlinks as leaves (`L.CoveredHist`) -/

/-- the exactness invariant `L.InvX` after any covered history, under any fault plan -/
theorem exactness_invariant_after_history_symlink_leaves
    (w0 : World) (hg : OSGoodL bk kk w0.fs) (hinfos : w0.infos = [])
    (hbl : ∀ k, (∃ t mt, w0.fs.get (kk ++ k) = some (.link t mt)) → ∃ t mt, w0.fs.get (bk ++ k) = some (.link t mt))
    (ops : List Op) (hcov : L.CoveredHist (osCfg bk kk) (osSimL bk kk hbk hkk hne1 hne2 hd1 hd2) w0 ops) :
    L.KeptX (osSimL bk kk hbk hkk hne1 hne2 hd1 hd2) (osViewL bk kk .base w0.fs) w0 (runOps (osCfg bk kk) w0 ops) :=
  L.history_keepsX (osMkdirAllUnit bk kk) ops w0 (L.InvX.init (S := (osSimL bk kk hbk hkk hne1 hne2 hd1 hd2)) hg hinfos
    (fun k hl => Props.C01L.isLinkAt_osViewL.mpr (hbl k (Props.C01L.isLinkAt_osViewL.mp hl)))) hcov

/-- **Exact copies, uniform form — EVERY fault plan.**  At every non-root key tracked with a `FileInfo`
the backup tree — seen through the backup `PrefixFS` — shows the node the base tree — seen through the
base `PrefixFS` — showed when the transaction began (`L.eraseV`: directory timestamps, a link's mode and
timestamp erased; a link's target text as `Readlink` reports it). -/
theorem backup_copies_exact_symlink_leaves_partial
    (w0 : World) (hg : OSGoodL bk kk w0.fs) (hinfos : w0.infos = [])
    (hbl : ∀ k, (∃ t mt, w0.fs.get (kk ++ k) = some (.link t mt)) → ∃ t mt, w0.fs.get (bk ++ k) = some (.link t mt))
    (ops : List Op) (hcov : L.CoveredHist (osCfg bk kk) (osSimL bk kk hbk hkk hne1 hne2 hd1 hd2) w0 ops) :
    ∀ k i, PKey k → k ≠ [] → (runOps (osCfg bk kk) w0 ops).infos.lookup (kp k) = some (some i) →
      ((runOps (osCfg bk kk) w0 ops).fs.get (kk ++ k)).map (eraseV (kp kk)) =
        (w0.fs.get (bk ++ k)).map (eraseV (kp bk)) :=
  exact_of_x (exactness_invariant_after_history_symlink_leaves bk kk hbk hkk hne1 hne2 hd1 hd2 w0 hg hinfos hbl ops hcov).inv.x

/-- regular files: the very same node — content, all twelve mode bits, uid, gid, mtime -/
theorem backup_file_copies_exact_symlink_leaves_partial
    (w0 : World) (hg : OSGoodL bk kk w0.fs) (hinfos : w0.infos = [])
    (hbl : ∀ k, (∃ t mt, w0.fs.get (kk ++ k) = some (.link t mt)) → ∃ t mt, w0.fs.get (bk ++ k) = some (.link t mt))
    (ops : List Op) (hcov : L.CoveredHist (osCfg bk kk) (osSimL bk kk hbk hkk hne1 hne2 hd1 hd2) w0 ops) :
    ∀ k i c mt, k ≠ [] → (runOps (osCfg bk kk) w0 ops).infos.lookup (kp k) = some (some i) →
      w0.fs.get (bk ++ k) = some (.file c mt) →
      (runOps (osCfg bk kk) w0 ops).fs.get (kk ++ k) = some (.file c mt) :=
  file_of_x hg (exactness_invariant_after_history_symlink_leaves bk kk hbk hkk hne1 hne2 hd1 hd2 w0 hg hinfos hbl ops hcov).inv.x

/-- directories: a directory with the same twelve mode bits, uid and gid (timestamps exempt) -/
theorem backup_dir_copies_exact_symlink_leaves_partial
    (w0 : World) (hg : OSGoodL bk kk w0.fs) (hinfos : w0.infos = [])
    (hbl : ∀ k, (∃ t mt, w0.fs.get (kk ++ k) = some (.link t mt)) → ∃ t mt, w0.fs.get (bk ++ k) = some (.link t mt))
    (ops : List Op) (hcov : L.CoveredHist (osCfg bk kk) (osSimL bk kk hbk hkk hne1 hne2 hd1 hd2) w0 ops) :
    ∀ k i mt, k ≠ [] → (runOps (osCfg bk kk) w0 ops).infos.lookup (kp k) = some (some i) →
      w0.fs.get (bk ++ k) = some (.dir mt) →
      ∃ mt', (runOps (osCfg bk kk) w0 ops).fs.get (kk ++ k) = some (.dir mt') ∧
        mt'.mode = mt.mode ∧ mt'.uid = mt.uid ∧ mt'.gid = mt.gid :=
  dir_of_x hg (exactness_invariant_after_history_symlink_leaves bk kk hbk hkk hne1 hne2 hd1 hd2 w0 hg hinfos hbl ops hcov).inv.x

/-- **symlinks**: the backup holds a symlink at the same path whose target text, as `Readlink` through the
backup `PrefixFS` reports it, is the text `Readlink` through the base `PrefixFS` reported for the
original; same uid and gid -/
theorem backup_link_copies_exact_symlink_leaves_partial
    (w0 : World) (hg : OSGoodL bk kk w0.fs) (hinfos : w0.infos = [])
    (hbl : ∀ k, (∃ t mt, w0.fs.get (kk ++ k) = some (.link t mt)) → ∃ t mt, w0.fs.get (bk ++ k) = some (.link t mt))
    (ops : List Op) (hcov : L.CoveredHist (osCfg bk kk) (osSimL bk kk hbk hkk hne1 hne2 hd1 hd2) w0 ops) :
    ∀ k i raw mt, k ≠ [] → (runOps (osCfg bk kk) w0 ops).infos.lookup (kp k) = some (some i) →
      w0.fs.get (bk ++ k) = some (.link raw mt) →
      ∃ raw' mt', (runOps (osCfg bk kk) w0 ops).fs.get (kk ++ k) = some (.link raw' mt') ∧
        PrefixFS.readlinkPost (kp kk) raw' = PrefixFS.readlinkPost (kp bk) raw ∧
        mt'.uid = mt.uid ∧ mt'.gid = mt.gid :=
  link_of_x hg (exactness_invariant_after_history_symlink_leaves bk kk hbk hkk hne1 hne2 hd1 hd2 w0 hg hinfos hbl ops hcov).inv.x

/-- **The per-entry disjunction — EVERY fault plan.**  Every entry below the base root that existed when
the transaction began is still shown by the base, or is tracked with a `FileInfo` describing it exactly
(type, mode bits, owner, file mtime) and EXACTLY copied at the same path of the backup (files,
directories, symlinks). -/
theorem original_intact_or_exactly_copied_symlink_leaves_partial
    (w0 : World) (hg : OSGoodL bk kk w0.fs) (hinfos : w0.infos = [])
    (hbl : ∀ k, (∃ t mt, w0.fs.get (kk ++ k) = some (.link t mt)) → ∃ t mt, w0.fs.get (bk ++ k) = some (.link t mt))
    (ops : List Op) (hcov : L.CoveredHist (osCfg bk kk) (osSimL bk kk hbk hkk hne1 hne2 hd1 hd2) w0 ops) :
    ∀ k, k ≠ [] → ∀ node, w0.fs.get (bk ++ k) = some node →
      ((runOps (osCfg bk kk) w0 ops).fs.get (bk ++ k)).map (eraseV (kp bk)) = some (eraseV (kp bk) node) ∨
      ((∃ i, (runOps (osCfg bk kk) w0 ops).infos.lookup (kp k) = some (some i) ∧ InfoForL i (eraseV (kp bk) node)) ∧
        ((runOps (osCfg bk kk) w0 ops).fs.get (kk ++ k)).map (eraseV (kp kk)) = some (eraseV (kp bk) node)) :=
  have h := exactness_invariant_after_history_symlink_leaves bk kk hbk hkk hne1 hne2 hd1 hd2 w0 hg hinfos hbl ops hcov
  disjunction_of_x hg h.inv.inv h.inv.x

/-- the copies are exact at every crash point: let the process die after any number `n` of the primitive
calls of the history — in the middle of a copy, between `Symlink` and `Lchown` — every key tracked with a
`FileInfo` has its exact copy in the backup (a copy is recorded only after its helper returned) -/
theorem backup_copies_exact_at_every_crash_point_symlink_leaves_partial
    (w0 : World) (hg : OSGoodL bk kk w0.fs) (hinfos : w0.infos = [])
    (hbl : ∀ k, (∃ t mt, w0.fs.get (kk ++ k) = some (.link t mt)) → ∃ t mt, w0.fs.get (bk ++ k) = some (.link t mt))
    (n : Nat) (_hplan : w0.faults = crashPlan n)
    (ops : List Op) (hcov : L.CoveredHist (osCfg bk kk) (osSimL bk kk hbk hkk hne1 hne2 hd1 hd2) w0 ops) :
    ∀ k i node, k ≠ [] → (runOps (osCfg bk kk) w0 ops).infos.lookup (kp k) = some (some i) →
      w0.fs.get (bk ++ k) = some node →
      ((runOps (osCfg bk kk) w0 ops).fs.get (kk ++ k)).map (eraseV (kp kk)) = some (eraseV (kp bk) node) := by
  intro k i node hk hts horig
  have hpk : PKey k := (hg.pkey _ _ horig).right
  have h := backup_copies_exact_symlink_leaves_partial bk kk hbk hkk hne1 hne2 hd1 hd2 w0 hg hinfos hbl ops hcov k i hpk hk hts
  rw [h, horig]; rfl

/-- **A copy once taken is never overwritten — EVERY fault plan.**  Split any covered history at any point:
if after `ops₁` the key `k ≠ []` is tracked with a `FileInfo`, then after `ops₁ ++ ops₂` it still is — with
the same `FileInfo` —, and the backup node at that path is the same as after `ops₁` — namely the original. -/
theorem copy_never_overwritten_symlink_leaves_partial
    (w0 : World) (hg : OSGoodL bk kk w0.fs) (hinfos : w0.infos = [])
    (hbl : ∀ k, (∃ t mt, w0.fs.get (kk ++ k) = some (.link t mt)) → ∃ t mt, w0.fs.get (bk ++ k) = some (.link t mt))
    (ops₁ ops₂ : List Op) (hcov : L.CoveredHist (osCfg bk kk) (osSimL bk kk hbk hkk hne1 hne2 hd1 hd2) w0 (ops₁ ++ ops₂)) :
    ∀ k i, PKey k → k ≠ [] → (runOps (osCfg bk kk) w0 ops₁).infos.lookup (kp k) = some (some i) →
      (runOps (osCfg bk kk) w0 (ops₁ ++ ops₂)).infos.lookup (kp k) = some (some i) ∧
      ((runOps (osCfg bk kk) w0 (ops₁ ++ ops₂)).fs.get (kk ++ k)).map (eraseV (kp kk)) =
        ((runOps (osCfg bk kk) w0 ops₁).fs.get (kk ++ k)).map (eraseV (kp kk)) ∧
      ((runOps (osCfg bk kk) w0 ops₁).fs.get (kk ++ k)).map (eraseV (kp kk)) =
        (w0.fs.get (bk ++ k)).map (eraseV (kp bk)) := by
  intro k i hpk hk hts
  obtain ⟨hc1, hc2⟩ := coveredHist_appendL ops₁ ops₂ w0 hcov
  have h1 := exactness_invariant_after_history_symlink_leaves bk kk hbk hkk hne1 hne2 hd1 hd2 w0 hg hinfos hbl ops₁ hc1
  have h2 := L.history_keepsX (osMkdirAllUnit bk kk) ops₂ _ h1.inv hc2
  rw [runOps_append]
  have hex1 := exact_of_x h1.inv.x k i hpk hk hts
  have hts' := h2.mono _ _ hts
  have hex2 := exact_of_x h2.inv.x k i hpk hk hts'
  exact ⟨hts', hex2.trans hex1.symm, hex1⟩

/-- **The backup holds nothing else — healthy filesystems.**  Everything below the backup root sits at the
path of an original that is tracked with a `FileInfo` describing it exactly, and IS that original (as seen
through the respective `PrefixFS`): only copies of originals and of their parent directories — files,
directories, symlinks —, never content created during the transaction. -/
theorem backup_holds_only_exact_copies_symlink_leaves_partial
    (w0 : World) (hg : OSGoodL bk kk w0.fs) (hinfos : w0.infos = []) (hnf : w0.faults = [])
    (hempty : ∀ k, k ≠ [] → w0.fs.get (kk ++ k) = none) (ops : List Op)
    (hcov : L.CoveredHist (osCfg bk kk) (osSimL bk kk hbk hkk hne1 hne2 hd1 hd2) w0 ops) :
    ∀ j, j ≠ [] → (runOps (osCfg bk kk) w0 ops).fs.get (kk ++ j) ≠ none →
      ∃ i node, (runOps (osCfg bk kk) w0 ops).infos.lookup (kp j) = some (some i) ∧
        w0.fs.get (bk ++ j) = some node ∧ InfoForL i (eraseV (kp bk) node) ∧
        ((runOps (osCfg bk kk) w0 ops).fs.get (kk ++ j)).map (eraseV (kp kk)) = some (eraseV (kp bk) node) :=
  only_of_invB (Props.C07.backup_invariant_after_history_symlink_leaves bk kk hbk hkk hne1 hne2 hd1 hd2 w0 hg hinfos hnf
    hempty ops hcov)

/-! ### names through FLAT symlinks (`L.G.CoveredHist`) -/

/-- the exactness invariant `L.InvX` after any covered history, under any fault plan -/
theorem exactness_invariant_after_history_through_flat_links
    (w0 : World) (hg : OSGoodL bk kk w0.fs) (hinfos : w0.infos = [])
    (hbl : ∀ k, (∃ t mt, w0.fs.get (kk ++ k) = some (.link t mt)) → ∃ t mt, w0.fs.get (bk ++ k) = some (.link t mt))
    (ops : List Op) (hcov : G.CoveredHist (osCfg bk kk) bk (osSimL bk kk hbk hkk hne1 hne2 hd1 hd2) w0 ops) :
    L.KeptX (osSimL bk kk hbk hkk hne1 hne2 hd1 hd2) (osViewL bk kk .base w0.fs) w0 (runOps (osCfg bk kk) w0 ops) :=
  G.history_keepsX (hbk := hbk) (hkk := hkk) (hne1 := hne1) (hne2 := hne2) (hd1 := hd1) (hd2 := hd2) ops w0 (L.InvX.init (S := (osSimL bk kk hbk hkk hne1 hne2 hd1 hd2)) hg hinfos
    (fun k hl => Props.C01L.isLinkAt_osViewL.mpr (hbl k (Props.C01L.isLinkAt_osViewL.mp hl)))) hcov

/-- **Exact copies, uniform form — EVERY fault plan.**  At every non-root key tracked with a `FileInfo`
the backup tree — seen through the backup `PrefixFS` — shows the node the base tree — seen through the
base `PrefixFS` — showed when the transaction began (`L.eraseV`: directory timestamps, a link's mode and
timestamp erased; a link's target text as `Readlink` reports it). -/
theorem backup_copies_exact_through_flat_links_partial
    (w0 : World) (hg : OSGoodL bk kk w0.fs) (hinfos : w0.infos = [])
    (hbl : ∀ k, (∃ t mt, w0.fs.get (kk ++ k) = some (.link t mt)) → ∃ t mt, w0.fs.get (bk ++ k) = some (.link t mt))
    (ops : List Op) (hcov : G.CoveredHist (osCfg bk kk) bk (osSimL bk kk hbk hkk hne1 hne2 hd1 hd2) w0 ops) :
    ∀ k i, PKey k → k ≠ [] → (runOps (osCfg bk kk) w0 ops).infos.lookup (kp k) = some (some i) →
      ((runOps (osCfg bk kk) w0 ops).fs.get (kk ++ k)).map (eraseV (kp kk)) =
        (w0.fs.get (bk ++ k)).map (eraseV (kp bk)) :=
  exact_of_x (exactness_invariant_after_history_through_flat_links bk kk hbk hkk hne1 hne2 hd1 hd2 w0 hg hinfos hbl ops hcov).inv.x

/-- regular files: the very same node — content, all twelve mode bits, uid, gid, mtime -/
theorem backup_file_copies_exact_through_flat_links_partial
    (w0 : World) (hg : OSGoodL bk kk w0.fs) (hinfos : w0.infos = [])
    (hbl : ∀ k, (∃ t mt, w0.fs.get (kk ++ k) = some (.link t mt)) → ∃ t mt, w0.fs.get (bk ++ k) = some (.link t mt))
    (ops : List Op) (hcov : G.CoveredHist (osCfg bk kk) bk (osSimL bk kk hbk hkk hne1 hne2 hd1 hd2) w0 ops) :
    ∀ k i c mt, k ≠ [] → (runOps (osCfg bk kk) w0 ops).infos.lookup (kp k) = some (some i) →
      w0.fs.get (bk ++ k) = some (.file c mt) →
      (runOps (osCfg bk kk) w0 ops).fs.get (kk ++ k) = some (.file c mt) :=
  file_of_x hg (exactness_invariant_after_history_through_flat_links bk kk hbk hkk hne1 hne2 hd1 hd2 w0 hg hinfos hbl ops hcov).inv.x

/-- directories: a directory with the same twelve mode bits, uid and gid (timestamps exempt) -/
theorem backup_dir_copies_exact_through_flat_links_partial
    (w0 : World) (hg : OSGoodL bk kk w0.fs) (hinfos : w0.infos = [])
    (hbl : ∀ k, (∃ t mt, w0.fs.get (kk ++ k) = some (.link t mt)) → ∃ t mt, w0.fs.get (bk ++ k) = some (.link t mt))
    (ops : List Op) (hcov : G.CoveredHist (osCfg bk kk) bk (osSimL bk kk hbk hkk hne1 hne2 hd1 hd2) w0 ops) :
    ∀ k i mt, k ≠ [] → (runOps (osCfg bk kk) w0 ops).infos.lookup (kp k) = some (some i) →
      w0.fs.get (bk ++ k) = some (.dir mt) →
      ∃ mt', (runOps (osCfg bk kk) w0 ops).fs.get (kk ++ k) = some (.dir mt') ∧
        mt'.mode = mt.mode ∧ mt'.uid = mt.uid ∧ mt'.gid = mt.gid :=
  dir_of_x hg (exactness_invariant_after_history_through_flat_links bk kk hbk hkk hne1 hne2 hd1 hd2 w0 hg hinfos hbl ops hcov).inv.x

/-- **symlinks**: the backup holds a symlink at the same path whose target text, as `Readlink` through the
backup `PrefixFS` reports it, is the text `Readlink` through the base `PrefixFS` reported for the
original; same uid and gid -/
theorem backup_link_copies_exact_through_flat_links_partial
    (w0 : World) (hg : OSGoodL bk kk w0.fs) (hinfos : w0.infos = [])
    (hbl : ∀ k, (∃ t mt, w0.fs.get (kk ++ k) = some (.link t mt)) → ∃ t mt, w0.fs.get (bk ++ k) = some (.link t mt))
    (ops : List Op) (hcov : G.CoveredHist (osCfg bk kk) bk (osSimL bk kk hbk hkk hne1 hne2 hd1 hd2) w0 ops) :
    ∀ k i raw mt, k ≠ [] → (runOps (osCfg bk kk) w0 ops).infos.lookup (kp k) = some (some i) →
      w0.fs.get (bk ++ k) = some (.link raw mt) →
      ∃ raw' mt', (runOps (osCfg bk kk) w0 ops).fs.get (kk ++ k) = some (.link raw' mt') ∧
        PrefixFS.readlinkPost (kp kk) raw' = PrefixFS.readlinkPost (kp bk) raw ∧
        mt'.uid = mt.uid ∧ mt'.gid = mt.gid :=
  link_of_x hg (exactness_invariant_after_history_through_flat_links bk kk hbk hkk hne1 hne2 hd1 hd2 w0 hg hinfos hbl ops hcov).inv.x

/-- **The per-entry disjunction — EVERY fault plan.**  Every entry below the base root that existed when
the transaction began is still shown by the base, or is tracked with a `FileInfo` describing it exactly
(type, mode bits, owner, file mtime) and EXACTLY copied at the same path of the backup (files,
directories, symlinks). -/
theorem original_intact_or_exactly_copied_through_flat_links_partial
    (w0 : World) (hg : OSGoodL bk kk w0.fs) (hinfos : w0.infos = [])
    (hbl : ∀ k, (∃ t mt, w0.fs.get (kk ++ k) = some (.link t mt)) → ∃ t mt, w0.fs.get (bk ++ k) = some (.link t mt))
    (ops : List Op) (hcov : G.CoveredHist (osCfg bk kk) bk (osSimL bk kk hbk hkk hne1 hne2 hd1 hd2) w0 ops) :
    ∀ k, k ≠ [] → ∀ node, w0.fs.get (bk ++ k) = some node →
      ((runOps (osCfg bk kk) w0 ops).fs.get (bk ++ k)).map (eraseV (kp bk)) = some (eraseV (kp bk) node) ∨
      ((∃ i, (runOps (osCfg bk kk) w0 ops).infos.lookup (kp k) = some (some i) ∧ InfoForL i (eraseV (kp bk) node)) ∧
        ((runOps (osCfg bk kk) w0 ops).fs.get (kk ++ k)).map (eraseV (kp kk)) = some (eraseV (kp bk) node)) :=
  have h := exactness_invariant_after_history_through_flat_links bk kk hbk hkk hne1 hne2 hd1 hd2 w0 hg hinfos hbl ops hcov
  disjunction_of_x hg h.inv.inv h.inv.x

/-- the copies are exact at every crash point: let the process die after any number `n` of the primitive
calls of the history — in the middle of a copy, between `Symlink` and `Lchown` — every key tracked with a
`FileInfo` has its exact copy in the backup (a copy is recorded only after its helper returned) -/
theorem backup_copies_exact_at_every_crash_point_through_flat_links_partial
    (w0 : World) (hg : OSGoodL bk kk w0.fs) (hinfos : w0.infos = [])
    (hbl : ∀ k, (∃ t mt, w0.fs.get (kk ++ k) = some (.link t mt)) → ∃ t mt, w0.fs.get (bk ++ k) = some (.link t mt))
    (n : Nat) (_hplan : w0.faults = crashPlan n)
    (ops : List Op) (hcov : G.CoveredHist (osCfg bk kk) bk (osSimL bk kk hbk hkk hne1 hne2 hd1 hd2) w0 ops) :
    ∀ k i node, k ≠ [] → (runOps (osCfg bk kk) w0 ops).infos.lookup (kp k) = some (some i) →
      w0.fs.get (bk ++ k) = some node →
      ((runOps (osCfg bk kk) w0 ops).fs.get (kk ++ k)).map (eraseV (kp kk)) = some (eraseV (kp bk) node) := by
  intro k i node hk hts horig
  have hpk : PKey k := (hg.pkey _ _ horig).right
  have h := backup_copies_exact_through_flat_links_partial bk kk hbk hkk hne1 hne2 hd1 hd2 w0 hg hinfos hbl ops hcov k i hpk hk hts
  rw [h, horig]; rfl

/-- **A copy once taken is never overwritten — EVERY fault plan.**  Split any covered history at any point:
if after `ops₁` the key `k ≠ []` is tracked with a `FileInfo`, then after `ops₁ ++ ops₂` it still is — with
the same `FileInfo` —, and the backup node at that path is the same as after `ops₁` — namely the original. -/
theorem copy_never_overwritten_through_flat_links_partial
    (w0 : World) (hg : OSGoodL bk kk w0.fs) (hinfos : w0.infos = [])
    (hbl : ∀ k, (∃ t mt, w0.fs.get (kk ++ k) = some (.link t mt)) → ∃ t mt, w0.fs.get (bk ++ k) = some (.link t mt))
    (ops₁ ops₂ : List Op) (hcov : G.CoveredHist (osCfg bk kk) bk (osSimL bk kk hbk hkk hne1 hne2 hd1 hd2) w0 (ops₁ ++ ops₂)) :
    ∀ k i, PKey k → k ≠ [] → (runOps (osCfg bk kk) w0 ops₁).infos.lookup (kp k) = some (some i) →
      (runOps (osCfg bk kk) w0 (ops₁ ++ ops₂)).infos.lookup (kp k) = some (some i) ∧
      ((runOps (osCfg bk kk) w0 (ops₁ ++ ops₂)).fs.get (kk ++ k)).map (eraseV (kp kk)) =
        ((runOps (osCfg bk kk) w0 ops₁).fs.get (kk ++ k)).map (eraseV (kp kk)) ∧
      ((runOps (osCfg bk kk) w0 ops₁).fs.get (kk ++ k)).map (eraseV (kp kk)) =
        (w0.fs.get (bk ++ k)).map (eraseV (kp bk)) := by
  intro k i hpk hk hts
  obtain ⟨hc1, hc2⟩ := coveredHist_appendG ops₁ ops₂ w0 hcov
  have h1 := exactness_invariant_after_history_through_flat_links bk kk hbk hkk hne1 hne2 hd1 hd2 w0 hg hinfos hbl ops₁ hc1
  have h2 := G.history_keepsX (hbk := hbk) (hkk := hkk) (hne1 := hne1) (hne2 := hne2) (hd1 := hd1) (hd2 := hd2) ops₂ _ h1.inv hc2
  rw [runOps_append]
  have hex1 := exact_of_x h1.inv.x k i hpk hk hts
  have hts' := h2.mono _ _ hts
  have hex2 := exact_of_x h2.inv.x k i hpk hk hts'
  exact ⟨hts', hex2.trans hex1.symm, hex1⟩

/-- **The backup holds nothing else — healthy filesystems.**  Everything below the backup root sits at the
path of an original that is tracked with a `FileInfo` describing it exactly, and IS that original (as seen
through the respective `PrefixFS`): only copies of originals and of their parent directories — files,
directories, symlinks —, never content created during the transaction. -/
theorem backup_holds_only_exact_copies_through_flat_links_partial
    (w0 : World) (hg : OSGoodL bk kk w0.fs) (hinfos : w0.infos = []) (hnf : w0.faults = [])
    (hempty : ∀ k, k ≠ [] → w0.fs.get (kk ++ k) = none) (ops : List Op)
    (hcov : G.CoveredHist (osCfg bk kk) bk (osSimL bk kk hbk hkk hne1 hne2 hd1 hd2) w0 ops) :
    ∀ j, j ≠ [] → (runOps (osCfg bk kk) w0 ops).fs.get (kk ++ j) ≠ none →
      ∃ i node, (runOps (osCfg bk kk) w0 ops).infos.lookup (kp j) = some (some i) ∧
        w0.fs.get (bk ++ j) = some node ∧ InfoForL i (eraseV (kp bk) node) ∧
        ((runOps (osCfg bk kk) w0 ops).fs.get (kk ++ j)).map (eraseV (kp kk)) = some (eraseV (kp bk) node) :=
  only_of_invB (Props.C07.backup_invariant_after_history_through_flat_links bk kk hbk hkk hne1 hne2 hd1 hd2 w0 hg hinfos hnf
    hempty ops hcov)

end

/-! ### non-vacuity, and the witness for "exact modulo `Readlink`" -/

/-- the example of `Props/C07L.lean` (`/b/l -> "f"` a link to a file, `/b/m -> "d"` a link to a directory,
backup root `/k` empty): after `Remove("/l")`, `Remove("/m")` both links are gone from the base, tracked
with a `FileInfo`, and the backup holds exact copies of them (by evaluation of the model) — the hypotheses of
the theorems above are those of the non-vacuity example of `Props/C07L.lean`. -/
example :
    (Props.C07.wB2.infos.lookup "/l".toList).isSome = true ∧ (Props.C07.wB2.infos.lookup "/m".toList).isSome = true ∧
    Props.C07.wB2.fs.get [['b'], ['l']] = none ∧ Props.C07.wB2.fs.get [['b'], ['m']] = none ∧
    (Props.C07.wB2.fs.get [['k'], ['l']]).map (eraseV (kp [['k']])) =
      (Props.C07.exDiskLB.get [['b'], ['l']]).map (eraseV (kp [['b']])) ∧
    (Props.C07.wB2.fs.get [['k'], ['m']]).map (eraseV (kp [['k']])) =
      (Props.C07.exDiskLB.get [['b'], ['m']]).map (eraseV (kp [['b']])) ∧
    Props.C07.wB2.fs.get [['k'], ['m']] = some (.link ['d'] { mode := 0o777, uid := 0, gid := 0, mtime := .fresh }) := by
  decide +kernel

/-- `/b/u -> "./f"`: a symlink whose stored target text is not in cleaned form -/
def uncleanDisk : MFS where
  get := fun k =>
    if k = [] then some (.dir exMeta)
    else if k = [['b']] then some (.dir exMeta)
    else if k = [['k']] then some (.dir exMeta)
    else if k = [['b'], ['f']] then some (.file "hello" { exMeta with mode := 0o644 })
    else if k = [['b'], ['u']] then some (.link "./f".toList { exMeta with mode := 0o777 })
    else none
  dom := [[], [['b']], [['k']], [['b'], ['f']], [['b'], ['u']]]
  umask := 0o022

/-- **K-unclean-link-target, as a checked fact about the copies.**  `Remove("/u")` backs the link up; the
copy is exact in the sense of the theorems above (the text `Readlink` reports is `f` through either
`PrefixFS`), but the STORED text of the copy is the cleaned `f`, not the original `./f` — and that is what
Rollback (which succeeds) puts back.  So exactness of stored target texts is false for unclean texts; the
theorems state exactness of the reported text, which is what `L.eraseV` compares. -/
theorem unclean_link_copy_not_raw_exact :
    let cfg := osCfg [['b']] [['k']]
    let w1 := runOps cfg { fs := uncleanDisk } [.remove "/u".toList]
    uncleanDisk.get [['b'], ['u']] = some (.link "./f".toList { exMeta with mode := 0o777 }) ∧
    (w1.infos.lookup "/u".toList).isSome = true ∧
    w1.fs.get [['k'], ['u']] = some (.link "f".toList { mode := 0o777, uid := 0, gid := 0, mtime := .fresh }) ∧
    (w1.fs.get [['k'], ['u']]).map (eraseV (kp [['k']])) = (uncleanDisk.get [['b'], ['u']]).map (eraseV (kp [['b']])) ∧
    (rollback cfg w1).2 = .ok false ∧
    (rollback cfg w1).1.fs.get [['b'], ['u']] = some (.link "f".toList { mode := 0o777, uid := 0, gid := 0, mtime := .fresh }) := by
  decide +kernel

set_option maxRecDepth 100000 in
/-- **The fault-free hypothesis of `backup_holds_only_exact_copies_…` is forced** in these fragments too: the
witness of the link-free file (`Props.C02.failed_copy_leaves_inexact_orphan`: one refused `Chmod` inside
`copyFile`) is a covered history of the symlink-leaves fragment as well; the untracked, inexact orphan
`/k/s` (mode 0755 instead of 06755) is left in the backup. -/
theorem failed_copy_leaves_inexact_orphan_symlink_leaves :
    L.CoveredHist (osCfg [['b']] [['k']]) osSimL_example { fs := exDiskX, faults := exFaultX } [.chmod "/s".toList 0o600] ∧
    exOrphanX.infos.lookup "/s".toList = none ∧
    exOrphanX.fs.get [['k'], ['s']] =
      some (.file "secret" { mode := 0o755, uid := 1000, gid := 1000, mtime := .fresh }) ∧
    exOrphanX.fs.get [['k'], ['s']] ≠ exDiskX.get [['b'], ['s']] := by
  have hK : PKey [['s']] := by decide
  have hc : clean "/s".toList = kp [['s']] := by decide
  refine ⟨⟨⟨by decide, Props.C01L.covered_key hK hc ⟨Props.C01L.noLinkAnc_top ⟨Props.C01L.rootE, by decide +kernel⟩, ?_⟩⟩,
    trivial⟩, by decide +kernel, by decide +kernel, by decide +kernel⟩
  rintro ⟨t, mt, h⟩
  have : osSimL_example.view .base ({ fs := exDiskX, faults := exFaultX } : World).fs [['s']] =
      some (.file "secret" { mode := 0o6755, uid := 1000, gid := 1000, mtime := .old 12345 }) := by decide +kernel
  rw [this] at h; cases h

end Props.C02
