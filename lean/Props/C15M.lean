import Props.C15D
import Props.C15L
import Props.C06L
/-!
# C15 (disk level, disks WITH SYMLINKS) — a visible call through HiddenFS is the same call on the base

`Props.C15.nonhidden_effect_equal` (`Props/C15D.lean`) is stated over ANY inner filesystem and ANY
state; it never looks at the disk.  It therefore holds verbatim on disks with symlinks anywhere —
well-formed or not, whatever the links point to, also for names that run THROUGH symlinks (into a
hidden directory too: that is where C06 fails, and exactly because HiddenFS does what its base does).
This file only instantiates it for the layering of `Props/C06L.lean` and exhibits it on the disk
with symlinks used there.  `RemoveAll` (the one method that is a program of its own) on disks with
symlinks is `Props.C15.removeAll_transparent_with_links_partial` (`Props/C15L.lean`).
-/
namespace Props.C15
open BFS BFS.D BFS.HiddenFS

/-- D15.1L `nonhidden_effect_equal_os_with_links`: HiddenFS over `PrefixFS(kp bk)` over the OS model,
EVERY disk `m` (symlinks anywhere, no well-formedness needed), every call but `RemoveAll` none of
whose guarded names is hidden (for `Rename`: nor an ancestor of a hidden path): same disk afterwards
(every key, exactly), same result up to the remembered open name of a handle.  No route hypothesis:
both sides follow the same symlinks. -/
theorem nonhidden_effect_equal_os_with_links (bk : Key) (hiddenPaths : List Path) (c : Call) (m : MFS)
    (hnra : ∀ n, c ≠ .removeAll n)
    (hvis : ∀ n ∈ guardedNames c, isHidden n (mk hiddenPaths) = .ok false)
    (hanc : ∀ o n, c = .rename o n →
      isParentOfHidden o (mk hiddenPaths) = .ok false ∧ isParentOfHidden n (mk hiddenPaths) = .ok false) :
    ((hiddenFS hiddenPaths (prefixFS (kp bk) osfs)).call m c).1 = ((prefixFS (kp bk) osfs).call m c).1 ∧
    ((hiddenFS hiddenPaths (prefixFS (kp bk) osfs)).call m c).2 =
      ((prefixFS (kp bk) osfs).call m c).2.map (hiddenPost c (delegated c)) :=
  nonhidden_effect_equal_prefix (kp bk) hiddenPaths c m hnra hvis hanc

/-- … in particular the two disks agree at every key -/
theorem nonhidden_disk_equal_with_links (bk : Key) (hiddenPaths : List Path) (c : Call) (m : MFS)
    (hnra : ∀ n, c ≠ .removeAll n)
    (hvis : ∀ n ∈ guardedNames c, isHidden n (mk hiddenPaths) = .ok false)
    (hanc : ∀ o n, c = .rename o n →
      isParentOfHidden o (mk hiddenPaths) = .ok false ∧ isParentOfHidden n (mk hiddenPaths) = .ok false)
    (K : Key) :
    ((hiddenFS hiddenPaths (prefixFS (kp bk) osfs)).call m c).1.get K =
      ((prefixFS (kp bk) osfs).call m c).1.get K := by
  rw [(nonhidden_effect_equal_os_with_links bk hiddenPaths c m hnra hvis hanc).1]

/-! ## non-vacuity: the disk `Props.C06.exDiskL` (hidden `/hid`, symlink `/in -> hid` into it, leaf
symlink `/v/l -> ../hid/x`, `/v/g -> f`, `/w -> v`) -/

/-- the hypotheses hold of calls next to, on, and THROUGH the symlinks -/
example :
    (∀ n ∈ guardedNames (.lchown "/v/l".toList 7 7), isHidden n (mk ([[['h', 'i', 'd']]].map kp)) = .ok false) ∧
    (∀ n ∈ guardedNames (.remove "/in".toList), isHidden n (mk ([[['h', 'i', 'd']]].map kp)) = .ok false) ∧
    (∀ n ∈ guardedNames (.create "/in/y".toList), isHidden n (mk ([[['h', 'i', 'd']]].map kp)) = .ok false) ∧
    (∀ n ∈ guardedNames (.chmod "/w/g".toList 0o600), isHidden n (mk ([[['h', 'i', 'd']]].map kp)) = .ok false) ∧
    (∀ n ∈ guardedNames (.symlink "f".toList "/v/g2".toList), isHidden n (mk ([[['h', 'i', 'd']]].map kp)) = .ok false) := by
  decide +kernel

/-- `Create("/in/y")` runs through the symlink into the hidden directory: HiddenFS and its base
create the same file (`/b/hid/y`) — equal disks, as the theorem says (and C06's route hypothesis
fails: `Props.C06.proper_ancestor_symlink_reaches_hidden`) -/
example :
    (Props.C06.exFS.call Props.C06.exDiskL (.create "/in/y".toList)).1 =
      ((prefixFS (kp [['b']]) osfs).call Props.C06.exDiskL (.create "/in/y".toList)).1 ∧
    (((prefixFS (kp [['b']]) osfs).call Props.C06.exDiskL (.create "/in/y".toList)).1.get
      [['b'], ['h', 'i', 'd'], ['y']]).isSome = true :=
  ⟨(nonhidden_effect_equal_os_with_links [['b']] ([[['h', 'i', 'd']]].map kp) (.create "/in/y".toList)
      Props.C06.exDiskL (fun _ e => by cases e) (by decide +kernel) (fun _ _ e => by cases e)).1,
   by decide +kernel⟩

/-- `Lchown("/v/l")` on the leaf symlink, `Remove("/in")` of the symlink into the hidden directory:
same result and disk as on the base -/
example :
    (Props.C06.exFS.call Props.C06.exDiskL (.lchown "/v/l".toList 7 7)).2 = .ok .unit ∧
    (Props.C06.exFS.call Props.C06.exDiskL (.remove "/in".toList)).1 =
      ((prefixFS (kp [['b']]) osfs).call Props.C06.exDiskL (.remove "/in".toList)).1 :=
  ⟨by decide +kernel,
   (nonhidden_effect_equal_os_with_links [['b']] ([[['h', 'i', 'd']]].map kp) (.remove "/in".toList)
      Props.C06.exDiskL (fun _ e => by cases e) (by decide +kernel) (fun _ _ e => by cases e)).1⟩

end Props.C15
