import Lemmas.LFRollback
import Lemmas.LFGTx
import Props.C09
import Props.C07L
/-!
# C09 (symlinks as leaves, names through flat links) — Rollback never reports success unless it restored

The main clause of C09 — "if any primitive call on the base or backup filesystem fails during
Rollback, then either Rollback returns an error or the base filesystem is nevertheless fully
restored; Rollback never returns nil while an entry of the transaction is left unrestored" — for the
two symlink fragments of C01:

* `success_means_restored_symlink_leaves_partial` / `unrestored_means_error_symlink_leaves_partial`:
  the fragment of `Props.C01L.rollback_restores_symlink_leaves_partial` (trees with symlinks as leaves
  that the transaction never traverses; `L.Op.Covered`);
* `success_means_restored_through_flat_links_partial` / `unrestored_means_error_through_flat_links_partial`:
  the fragment of `Props.C01.rollback_restores_through_flat_links_partial` (names through FLAT links;
  `L.G.Op.Covered`).

Setting as in `Props.C09.success_means_restored_linkfree_partial`: the OS model behind two `PrefixFS`
layers, any well-formed disk, any covered history — itself run under ANY fault plan (`w.faults` is
arbitrary) —, then Rollback run under ANY fault plan `plan` (any primitive on either side — `Lstat`,
`Readlink`, `Remove`, `RemoveAll`, `MkdirAll`, `Chmod`, `Chown`, `Lchown`, `Chtimes`, `Symlink`, `Open`,
`OpenFile`, and `Stat`/`Read`/`Write`/`Close` on handles — refused with EIO, any number of times, at
any occurrence): if it returns nil (`.ok false`), every entry of the base below its root is what it
was before the first operation, in the view `L.eraseV` of C01L (same paths, types, contents,
permission bits, owners, file modification times, and for a symlink the target text `Readlink`
reports through the base `PrefixFS` and its owner).

The proof (Lemmas/LFBase.lean, LFPhase12.lean, LFPhase34.lean, LFRollback.lean, LFGTx.lean) redoes the
phases of the healthy-filesystems proof Lemmas/LRestore.lean with "this per-path act returned ok" (a
consequence of the `false` flag: `Props.C09.success_means_every_step_succeeded`) instead of "the fault
plan is empty" — what Lemmas/RestoreF.lean does for the link-free proof.  New with respect to the
link-free fragment:
* the symlink phase (`restoreLinkAct` → `restoreSymlink`): `Lstat` on the backup (a refused call or a
  missing copy is an error of the act), `Lstat` on the base, `Remove` — since the D22 fix a plain
  `Remove`, not `RemoveAll` — of whatever sits at the path (the re-targeted link, a file, or a directory
  that is empty by then: everything the transaction created below it went in the first phase),
  `copySymlink` = `Readlink` on the backup, `Symlink` and `Lchown` on the base: when all of them returned
  ok the key holds the link with the original target text and owner;
* the make-room `Remove`s of `restoreDirAct` (a file *or symlink* in the way of a directory) and of
  `restoreFile` (a *symlink* or directory in the way of a file);
* every `Lstat`/`Remove` of Rollback is issued on a path none of whose proper ancestors is a symlink in
  the state it is issued in (so nothing is redirected) — from the invariant's `blink` clause and the
  progress made so far, not from the fault plan.

No error is swallowed on the way.  The two places where the Go code drops an error are harmless:
* the deferred `Close` of the backup handle in `restoreFile` (ignored; the disk is not affected) —
  witnessed below by a plan that fires there while Rollback returns nil and the base is restored;
* `ignoreChownError`/`ignoreChtimesError` (`ignorePerm`) around `Chown`, `Lchown`, `Chtimes` drop
  *permission* errors only; an I/O fault is of class `.io` and is propagated
  (`ignorePerm_propagates_io`; witnessed below: EIO on the `Lchown` of `copySymlink` makes Rollback
  report an error).

Scope (`_partial`): what `L.Op.Covered` / `L.G.Op.Covered` exclude (see Props/C01L.lean, Props/C01G.lean),
and the start condition on the backup directory (`hbl`: every symlink below the backup root sits at a
key where the base holds a symlink too — e.g. the backup subtree holds no symlink).
-/
namespace Props.C09
open BFS BFS.BackupFS BFS.L

/-! ## Model-independent facts, re-stated for these fragments

`rollback_total`, `success_means_every_step_succeeded`, `restoreFile_propagates_open_error`,
`restoreSymlink_propagates_lstat_error` of Props/C09.lean are statements about `rollback cfg` for an
arbitrary configuration `cfg` and an arbitrary world (any disk, any tracked map, any fault plan): they
hold verbatim for trees with symlinks and names through links.  Two more of the same kind, about the
symlink phase: -/

/-- `ignoreChownError`/`ignoreChtimesError` drop permission errors only: an injected I/O fault (class
`.io`) — and any other non-permission error — is propagated -/
theorem ignorePerm_propagates_non_permission (x : M Unit) (w w' : World) (e : Err)
    (h : x w = (w', .error e)) (he : e.isPermission = false) :
    ignorePerm x w = (w', .error e) := by
  unfold ignorePerm
  have ha : attempt x w = (w', .ok (.error e)) := by rw [attempt_apply, h]
  rw [M.bind_ok ha]
  simp only [he, Bool.false_eq_true, if_false]
  rfl

theorem ignorePerm_propagates_io (x : M Unit) (w w' : World) (h : x w = (w', .error .io)) :
    ignorePerm x w = (w', .error .io) :=
  ignorePerm_propagates_non_permission x w w' .io h rfl

/-- a missing backup copy of a symlink is an error of `restoreSymlink` (never silently skipped) -/
theorem restoreSymlink_missing_copy_is_error (cfg : Cfg) (name : Path) (fi : Info) (w w' : World)
    (h : lexists cfg .backup name w = (w', .ok none)) :
    restoreSymlink cfg name fi w = (w', .error .notExist) := by
  unfold restoreSymlink
  rw [M.bind_ok h]
  rfl

/-- the structural half for these fragments: it is `success_means_every_step_succeeded`, which does not
depend on the model of the filesystems — in particular every `restoreLinkAct` returned ok in turn -/
theorem success_means_every_link_restored_ok (cfg : Cfg) (w w' : World)
    (h : rollback cfg w = (w', .ok false)) :
    ∃ (pl : RollbackPlan) (w4 w5 : World), pl.failed = false ∧
      AllOk (restoreLinkAct cfg w.infos) (sortStrings pl.links) w4 w5 := by
  obtain ⟨pl, w1, w2, w3, w4, w5, w6, w7, w8, _, hf, _, _, _, h4, _⟩ :=
    success_means_every_step_succeeded cfg w w' h
  exact ⟨pl, w4, w5, hf, h4⟩

/-! ## The main clause -/

/-- T09L.generic  for any model of the filesystem contract with symlinks `LSim`: from a state
satisfying the transaction invariant `L.Inv`, under ANY fault plan, `rollback` returning `.ok false`
implies that the disk is well-formed, every key of the base view except the root shows its original
node, and the backup view has gained no symlink. -/
theorem success_means_restored_symlinks_generic {cfg : Cfg} (S : LSim cfg) {v0 : View} {w : World}
    (hinv : L.Inv S v0 w) :
    (rollback cfg w).2 = .ok false →
      S.G (rollback cfg w).1.fs ∧ (∀ k, k ≠ [] → S.view .base (rollback cfg w).1.fs k = v0 k) ∧
        LinkMono (S.view .backup w.fs) (S.view .backup (rollback cfg w).1.fs) :=
  (L.sat_rollbackF (cfg := cfg) hinv).elim

/-- T09L.main  "Rollback never returns nil while an entry of the transaction is left unrestored" —
trees with symlinks as leaves.  Any covered history run under any fault plan, then Rollback run under
ANY fault plan `plan`: if it reports success, every entry of the base below its root is what it was
before the first operation (symlinks: target text as `Readlink` reports it, and owner). -/
theorem success_means_restored_symlink_leaves_partial (bk kk : Key) (hbk : PKey bk) (hkk : PKey kk)
    (hne1 : bk ≠ []) (hne2 : kk ≠ []) (hd1 : ¬ bk <+: kk) (hd2 : ¬ kk <+: bk)
    (w : World) (hg : OSGoodL bk kk w.fs) (hinfos : w.infos = [])
    (hbl : ∀ k, (∃ t mt, w.fs.get (kk ++ k) = some (.link t mt)) → ∃ t mt, w.fs.get (bk ++ k) = some (.link t mt))
    (ops : List Op)
    (hcov : L.CoveredHist (osCfg bk kk) (osSimL bk kk hbk hkk hne1 hne2 hd1 hd2) w ops)
    (plan : List Fault) :
    (rollback (osCfg bk kk) { runOps (osCfg bk kk) w ops with faults := plan }).2 = .ok false →
    ∀ k, k ≠ [] →
      ((rollback (osCfg bk kk) { runOps (osCfg bk kk) w ops with faults := plan }).1.fs.get (bk ++ k)).map (eraseV (kp bk))
        = (w.fs.get (bk ++ k)).map (eraseV (kp bk)) :=
  L.tx_success_means_restored (S := osSimL bk kk hbk hkk hne1 hne2 hd1 hd2) hg hinfos
    (fun k hl => Props.C01L.isLinkAt_osViewL.mpr (hbl k (Props.C01L.isLinkAt_osViewL.mp hl))) ops hcov plan

/-- T09L.main, contrapositive reading: if some entry below the root differs from the original after
Rollback, Rollback reported an error (it never throws: `rollback_total`). -/
theorem unrestored_means_error_symlink_leaves_partial (bk kk : Key) (hbk : PKey bk) (hkk : PKey kk)
    (hne1 : bk ≠ []) (hne2 : kk ≠ []) (hd1 : ¬ bk <+: kk) (hd2 : ¬ kk <+: bk)
    (w : World) (hg : OSGoodL bk kk w.fs) (hinfos : w.infos = [])
    (hbl : ∀ k, (∃ t mt, w.fs.get (kk ++ k) = some (.link t mt)) → ∃ t mt, w.fs.get (bk ++ k) = some (.link t mt))
    (ops : List Op)
    (hcov : L.CoveredHist (osCfg bk kk) (osSimL bk kk hbk hkk hne1 hne2 hd1 hd2) w ops)
    (plan : List Fault) (k : Key) (hk : k ≠ [])
    (hdiff : ((rollback (osCfg bk kk) { runOps (osCfg bk kk) w ops with faults := plan }).1.fs.get (bk ++ k)).map (eraseV (kp bk))
        ≠ (w.fs.get (bk ++ k)).map (eraseV (kp bk))) :
    (rollback (osCfg bk kk) { runOps (osCfg bk kk) w ops with faults := plan }).2 = .ok true := by
  obtain ⟨b, hb⟩ := BackupFS.rollback_total (osCfg bk kk) { runOps (osCfg bk kk) w ops with faults := plan }
  cases b with
  | true => exact hb
  | false =>
    exact absurd (success_means_restored_symlink_leaves_partial bk kk hbk hkk hne1 hne2 hd1 hd2 w hg hinfos hbl
      ops hcov plan hb k hk) hdiff

/-- the same when Rollback runs under the plan the history ran under (no re-planning); the start
conditions of the next transaction hold again -/
theorem success_means_restored_same_plan_symlink_leaves_partial (bk kk : Key) (hbk : PKey bk) (hkk : PKey kk)
    (hne1 : bk ≠ []) (hne2 : kk ≠ []) (hd1 : ¬ bk <+: kk) (hd2 : ¬ kk <+: bk)
    (w : World) (hg : OSGoodL bk kk w.fs) (hinfos : w.infos = [])
    (hbl : ∀ k, (∃ t mt, w.fs.get (kk ++ k) = some (.link t mt)) → ∃ t mt, w.fs.get (bk ++ k) = some (.link t mt))
    (ops : List Op)
    (hcov : L.CoveredHist (osCfg bk kk) (osSimL bk kk hbk hkk hne1 hne2 hd1 hd2) w ops) :
    (rollback (osCfg bk kk) (runOps (osCfg bk kk) w ops)).2 = .ok false →
    OSGoodL bk kk (runTx (osCfg bk kk) w ops).fs ∧ (runTx (osCfg bk kk) w ops).infos = [] ∧
    (∀ k, (∃ t mt, (runTx (osCfg bk kk) w ops).fs.get (kk ++ k) = some (.link t mt)) →
      ∃ t mt, (runTx (osCfg bk kk) w ops).fs.get (bk ++ k) = some (.link t mt)) ∧
    ∀ k, k ≠ [] →
      ((runTx (osCfg bk kk) w ops).fs.get (bk ++ k)).map (eraseV (kp bk)) = (w.fs.get (bk ++ k)).map (eraseV (kp bk)) := by
  intro h
  obtain ⟨h1, h2, h3, h4⟩ := L.tx_success_means_restored_same_plan (S := osSimL bk kk hbk hkk hne1 hne2 hd1 hd2)
    hg hinfos (fun k hl => Props.C01L.isLinkAt_osViewL.mpr (hbl k (Props.C01L.isLinkAt_osViewL.mp hl))) ops hcov h
  exact ⟨h1, h2, fun k hl => Props.C01L.isLinkAt_osViewL.mp (h3 k (Props.C01L.isLinkAt_osViewL.mpr hl)), h4⟩

/-- T09G.main  the same for operations whose names pass through FLAT symlinks (`L.G.Op.Covered`, the
fragment of `Props.C01.rollback_restores_through_flat_links_partial`): Rollback never resolves a name,
so its half is the symlink-leaves one verbatim; the history — under any fault plan, where a refused
`Lstat`/`Readlink` makes `realPath` fail instead of mis-resolving — keeps the invariant. -/
theorem success_means_restored_through_flat_links_partial (bk kk : Key) (hbk : PKey bk) (hkk : PKey kk)
    (hne1 : bk ≠ []) (hne2 : kk ≠ []) (hd1 : ¬ bk <+: kk) (hd2 : ¬ kk <+: bk)
    (w : World) (hg : OSGoodL bk kk w.fs) (hinfos : w.infos = [])
    (hbl : ∀ k, (∃ t mt, w.fs.get (kk ++ k) = some (.link t mt)) → ∃ t mt, w.fs.get (bk ++ k) = some (.link t mt))
    (ops : List Op)
    (hcov : G.CoveredHist (osCfg bk kk) bk (osSimL bk kk hbk hkk hne1 hne2 hd1 hd2) w ops)
    (plan : List Fault) :
    (rollback (osCfg bk kk) { runOps (osCfg bk kk) w ops with faults := plan }).2 = .ok false →
    ∀ k, k ≠ [] →
      ((rollback (osCfg bk kk) { runOps (osCfg bk kk) w ops with faults := plan }).1.fs.get (bk ++ k)).map (eraseV (kp bk))
        = (w.fs.get (bk ++ k)).map (eraseV (kp bk)) :=
  G.tx_success_means_restored (hbk := hbk) (hkk := hkk) (hne1 := hne1) (hne2 := hne2) (hd1 := hd1) (hd2 := hd2)
    hg hinfos (fun k hl => Props.C01L.isLinkAt_osViewL.mpr (hbl k (Props.C01L.isLinkAt_osViewL.mp hl))) ops hcov plan

/-- T09G.main, contrapositive reading -/
theorem unrestored_means_error_through_flat_links_partial (bk kk : Key) (hbk : PKey bk) (hkk : PKey kk)
    (hne1 : bk ≠ []) (hne2 : kk ≠ []) (hd1 : ¬ bk <+: kk) (hd2 : ¬ kk <+: bk)
    (w : World) (hg : OSGoodL bk kk w.fs) (hinfos : w.infos = [])
    (hbl : ∀ k, (∃ t mt, w.fs.get (kk ++ k) = some (.link t mt)) → ∃ t mt, w.fs.get (bk ++ k) = some (.link t mt))
    (ops : List Op)
    (hcov : G.CoveredHist (osCfg bk kk) bk (osSimL bk kk hbk hkk hne1 hne2 hd1 hd2) w ops)
    (plan : List Fault) (k : Key) (hk : k ≠ [])
    (hdiff : ((rollback (osCfg bk kk) { runOps (osCfg bk kk) w ops with faults := plan }).1.fs.get (bk ++ k)).map (eraseV (kp bk))
        ≠ (w.fs.get (bk ++ k)).map (eraseV (kp bk))) :
    (rollback (osCfg bk kk) { runOps (osCfg bk kk) w ops with faults := plan }).2 = .ok true := by
  obtain ⟨b, hb⟩ := BackupFS.rollback_total (osCfg bk kk) { runOps (osCfg bk kk) w ops with faults := plan }
  cases b with
  | true => exact hb
  | false =>
    exact absurd (success_means_restored_through_flat_links_partial bk kk hbk hkk hne1 hne2 hd1 hd2 w hg hinfos hbl
      ops hcov plan hb k hk) hdiff

/-- through flat links, Rollback under the plan the history ran under; the start conditions of the
next transaction hold again -/
theorem success_means_restored_same_plan_through_flat_links_partial (bk kk : Key) (hbk : PKey bk) (hkk : PKey kk)
    (hne1 : bk ≠ []) (hne2 : kk ≠ []) (hd1 : ¬ bk <+: kk) (hd2 : ¬ kk <+: bk)
    (w : World) (hg : OSGoodL bk kk w.fs) (hinfos : w.infos = [])
    (hbl : ∀ k, (∃ t mt, w.fs.get (kk ++ k) = some (.link t mt)) → ∃ t mt, w.fs.get (bk ++ k) = some (.link t mt))
    (ops : List Op)
    (hcov : G.CoveredHist (osCfg bk kk) bk (osSimL bk kk hbk hkk hne1 hne2 hd1 hd2) w ops) :
    (rollback (osCfg bk kk) (runOps (osCfg bk kk) w ops)).2 = .ok false →
    OSGoodL bk kk (runTx (osCfg bk kk) w ops).fs ∧ (runTx (osCfg bk kk) w ops).infos = [] ∧
    (∀ k, (∃ t mt, (runTx (osCfg bk kk) w ops).fs.get (kk ++ k) = some (.link t mt)) →
      ∃ t mt, (runTx (osCfg bk kk) w ops).fs.get (bk ++ k) = some (.link t mt)) ∧
    ∀ k, k ≠ [] →
      ((runTx (osCfg bk kk) w ops).fs.get (bk ++ k)).map (eraseV (kp bk)) = (w.fs.get (bk ++ k)).map (eraseV (kp bk)) := by
  intro h
  obtain ⟨h1, h2, h3, h4⟩ := G.tx_success_means_restored_same_plan (hbk := hbk) (hkk := hkk) (hne1 := hne1)
    (hne2 := hne2) (hd1 := hd1) (hd2 := hd2)
    hg hinfos (fun k hl => Props.C01L.isLinkAt_osViewL.mpr (hbl k (Props.C01L.isLinkAt_osViewL.mp hl))) ops hcov h
  exact ⟨h1, h2, fun k hl => Props.C01L.isLinkAt_osViewL.mp (h3 k (Props.C01L.isLinkAt_osViewL.mpr hl)), h4⟩

/-! ## Non-vacuity: a disk with a file link and a directory link

`Props.C07.exDiskLB`: base root `/b` with the file `/b/f`, the directory `/b/d`, the file link
`/b/l -> "f"`, the directory link `/b/m -> "d"`; backup root `/k` empty (names below are relative to the
base root).  The transaction removes the file link and RE-TARGETS it (`Symlink("d", "/l")`), removes the
directory link and puts a DIRECTORY in its place (`Mkdir("/m")`: the make-room `Remove` of
`restoreSymlink`), and overwrites the file (`restoreFile`, whose deferred `Close` error is dropped). -/

abbrev cfgX := osCfg [['b']] [['k']]
def wX0 : World := { fs := Props.C07.exDiskLB }
def opsX : List Op :=
  [.remove "/l".toList, .symlink "d".toList "/l".toList, .remove "/m".toList, .mkdir "/m".toList 0o755,
   .write "/f".toList (O_WRONLY ||| O_TRUNC) 0 "y"]
def wX1 := Op.step cfgX wX0 (.remove "/l".toList)
def wX2 := Op.step cfgX wX1 (.symlink "d".toList "/l".toList)
def wX3 := Op.step cfgX wX2 (.remove "/m".toList)
def wX4 := Op.step cfgX wX3 (.mkdir "/m".toList 0o755)

set_option maxRecDepth 100000 in
/-- the example transaction is a covered history of the symlink-leaves fragment -/
theorem opsX_covered : L.CoveredHist cfgX osSimL_example wX0 opsX := by
  have hKl : PKey [['l']] := by decide
  have hKm : PKey [['m']] := by decide
  have hKf : PKey [['f']] := by decide
  have hcl : clean "/l".toList = kp [['l']] := by decide
  have hcm : clean "/m".toList = kp [['m']] := by decide
  have hcf : clean "/f".toList = kp [['f']] := by decide
  have hokl : osSimL_example.LinkOK .base [['l']] ['f'] := Or.inr (by decide +kernel)
  have hokm : osSimL_example.LinkOK .base [['m']] ['d'] := Or.inr (by decide +kernel)
  refine ⟨?_, ?_, ?_, ?_, ?_, trivial⟩
  · -- Remove("/l"): a symlink to a file, which the base accepts
    refine ⟨by decide, by decide, Props.C01L.covered_key hKl hcl
      ⟨Props.C01L.noLinkAnc_top ⟨Props.C01L.rootE, by decide +kernel⟩, ?_⟩⟩
    intro t mt hv
    have : osSimL_example.view .base wX0.fs [['l']] = some (.link ['f'] { exMeta with mode := 0o777, mtime := .fresh }) := by
      decide +kernel
    have hv' := this.symm.trans hv; cases hv'; exact hokl
  · -- Symlink("d", "/l"): nothing is there any more, and nothing tracked lies below
    refine ⟨by decide, Props.C01L.covered_key hKl hcl
      ⟨⟨Props.C01L.noLinkAnc_top ⟨Props.C01L.rootE, by decide +kernel⟩, ?_⟩, ?_⟩⟩
    · intro t mt hv
      have : osSimL_example.view .base wX1.fs [['l']] = none := by decide +kernel
      have hv' := this.symm.trans hv; cases hv'
    · apply Props.C01L.noneBelow_of (l := ["/".toList, "/l".toList]) (by decide +kernel)
      intro p hp j hj e hpre
      simp only [List.mem_cons, List.mem_nil_iff, or_false] at hp
      rcases hp with rfl | rfl
      · have : j = [] := kp_inj hj PKey.nil e.symm
        subst this
        simp at hpre
      · exact kp_inj hj hKl e.symm
  · -- Remove("/m"): a symlink to a directory
    refine ⟨by decide, by decide, Props.C01L.covered_key hKm hcm
      ⟨Props.C01L.noLinkAnc_top ⟨Props.C01L.rootE, by decide +kernel⟩, ?_⟩⟩
    intro t mt hv
    have : osSimL_example.view .base wX2.fs [['m']] = some (.link ['d'] { exMeta with mode := 0o777, mtime := .fresh }) := by
      decide +kernel
    have hv' := this.symm.trans hv; cases hv'; exact hokm
  · -- Mkdir("/m"): a directory where the link was
    refine ⟨by decide, Props.C01L.covered_key hKm hcm
      ⟨Props.C01L.noLinkAnc_top ⟨Props.C01L.rootE, by decide +kernel⟩, ?_⟩⟩
    intro t mt hv
    have : osSimL_example.view .base wX3.fs [['m']] = none := by decide +kernel
    have hv' := this.symm.trans hv; cases hv'
  · -- OpenFile("/f", O_WRONLY|O_TRUNC) + Write: a regular file, not a link
    refine Or.inr ⟨by decide, Props.C01L.covered_key hKf hcf
      ⟨Props.C01L.noLinkAnc_top ⟨Props.C01L.rootE, by decide +kernel⟩, ?_⟩⟩
    rintro ⟨t, mt, hv⟩
    have : osSimL_example.view .base wX4.fs [['f']] = some (.file "hello" { exMeta with mode := 0o644 }) := by
      decide +kernel
    have hv' := this.symm.trans hv; cases hv'

/-- non-vacuity: the hypotheses of `success_means_restored_symlink_leaves_partial` hold of the example
(any fault plan may be chosen for Rollback) -/
example : OSGoodL [['b']] [['k']] wX0.fs ∧ wX0.infos = [] ∧
    (∀ k, (∃ t mt, wX0.fs.get ([['k']] ++ k) = some (.link t mt)) → ∃ t mt, wX0.fs.get ([['b']] ++ k) = some (.link t mt)) ∧
    L.CoveredHist cfgX osSimL_example wX0 opsX := by
  refine ⟨Props.C07.osGoodL_exDiskLB, rfl, ?_, opsX_covered⟩
  rintro k ⟨t, mt, h⟩
  by_cases hk : k = []
  · subst hk
    have : wX0.fs.get ([['k']] ++ []) = some (.dir exMeta) := by decide +kernel
    rw [this] at h; cases h
  · rw [show wX0.fs.get ([['k']] ++ k) = none from Props.C07.exDiskLB_empty k hk] at h; cases h

/-- Rollback of the example transaction under the fault plan `plan` -/
def exRollbackL (plan : List Fault) : World × Except Err Bool :=
  rollback cfgX { runOps cfgX wX0 opsX with faults := plan }

/-- the base entry `/b/k` after Rollback under `plan` is what it was on the example disk (view `eraseV`) -/
def restoredAt (plan : List Fault) (k : Key) : Bool :=
  decide (((exRollbackL plan).1.fs.get ([['b']] ++ k)).map (eraseV (kp [['b']]))
    = (Props.C07.exDiskLB.get ([['b']] ++ k)).map (eraseV (kp [['b']])))

/-- the fault-free run: Rollback returns nil and the file, the directory and both links are back (and
nothing else is there) -/
example : (exRollbackL []).2 = .ok false ∧
    restoredAt [] [['f']] = true ∧ restoredAt [] [['d']] = true ∧ restoredAt [] [['l']] = true ∧
    restoredAt [] [['m']] = true ∧ ((exRollbackL []).1.fs.get [['b'], ['m'], ['x']]).isSome = false := by
  decide +kernel

/-- one fault in `restoreSymlink`, at each of its primitives in turn — the `Lstat` on the backup, the
`Lstat` on the base, the `Remove` of the re-targeted link, the make-room `Remove` of the directory that
took the other link's place, the `Readlink` on the backup, the `Symlink` on the base: the link is left
unrestored and Rollback reports an error.  (Occurrence numbers: the history itself issued `Lstat("/l")`
three times and `Remove("/l")`, `Remove("/m")` once on the base.) -/
example :
    (exRollbackL [⟨⟨.backup, "lstat", ["/l".toList]⟩, 0⟩]).2 = .ok true ∧
      restoredAt [⟨⟨.backup, "lstat", ["/l".toList]⟩, 0⟩] [['l']] = false ∧
    (exRollbackL [⟨⟨.base, "lstat", ["/l".toList]⟩, 3⟩]).2 = .ok true ∧
      restoredAt [⟨⟨.base, "lstat", ["/l".toList]⟩, 3⟩] [['l']] = false ∧
    (exRollbackL [⟨⟨.base, "remove", ["/l".toList]⟩, 1⟩]).2 = .ok true ∧
      restoredAt [⟨⟨.base, "remove", ["/l".toList]⟩, 1⟩] [['l']] = false ∧
    (exRollbackL [⟨⟨.base, "remove", ["/m".toList]⟩, 1⟩]).2 = .ok true ∧
      restoredAt [⟨⟨.base, "remove", ["/m".toList]⟩, 1⟩] [['m']] = false ∧
    (exRollbackL [⟨⟨.backup, "readlink", ["/l".toList]⟩, 0⟩]).2 = .ok true ∧
      restoredAt [⟨⟨.backup, "readlink", ["/l".toList]⟩, 0⟩] [['l']] = false ∧
    (exRollbackL [⟨⟨.base, "symlink", ["f".toList, "/l".toList]⟩, 0⟩]).2 = .ok true ∧
      restoredAt [⟨⟨.base, "symlink", ["f".toList, "/l".toList]⟩, 0⟩] [['l']] = false := by
  decide +kernel

/-- `ignoreChownError` does not swallow the injected fault: EIO on the `Lchown` that ends `copySymlink`
makes Rollback report an error (the link is back with the right owner all the same: either branch of
the property's disjunction may hold, never "nil and unrestored") -/
example : (exRollbackL [⟨⟨.base, "lchown", ["/l".toList, "0".toList, "0".toList]⟩, 0⟩]).2 = .ok true ∧
    restoredAt [⟨⟨.base, "lchown", ["/l".toList, "0".toList, "0".toList]⟩, 0⟩] [['l']] = true := by
  decide +kernel

/-- the second branch of the property with a plan that fires: the deferred `Close` of the backup handle
in `restoreFile` fails (the one error the Go code drops), Rollback returns nil — the hypothesis of
`success_means_restored_symlink_leaves_partial` holds — and the base is restored, links included -/
example : (exRollbackL [⟨⟨.backup, "close", ["/f".toList]⟩, 1⟩]).2 = .ok false ∧
    (exRollbackL [⟨⟨.backup, "close", ["/f".toList]⟩, 1⟩]).1.trace.any (fun e => e.failed) = true ∧
    restoredAt [⟨⟨.backup, "close", ["/f".toList]⟩, 1⟩] [['f']] = true ∧
    restoredAt [⟨⟨.backup, "close", ["/f".toList]⟩, 1⟩] [['d']] = true ∧
    restoredAt [⟨⟨.backup, "close", ["/f".toList]⟩, 1⟩] [['l']] = true ∧
    restoredAt [⟨⟨.backup, "close", ["/f".toList]⟩, 1⟩] [['m']] = true := by
  decide +kernel

/-! ## Non-vacuity through flat links

The flat disk and the first transaction of Props/C01G.lean (`Props.C01.wG0`, `Props.C01.opsG1`:
`Create("/abs/sub/new")` through the directory link `/abs -> /real`, `Chmod("/d/rel/f")` through
`/d/rel -> ../real/./sub`, `Remove("/abs/fl")` — the file link `/real/fl -> sub/f` named through `/abs` —,
`MkdirAll("/d/rel/x/y")`) satisfy the hypotheses of `success_means_restored_through_flat_links_partial`. -/

example : OSGoodL [['b']] [['k']] Props.C01.wG0.fs ∧ Props.C01.wG0.infos = [] ∧
    (∀ k, (∃ t mt, Props.C01.wG0.fs.get ([['k']] ++ k) = some (.link t mt)) →
      ∃ t mt, Props.C01.wG0.fs.get ([['b']] ++ k) = some (.link t mt)) ∧
    G.CoveredHist Props.C01.cfgG [['b']] osSimL_example Props.C01.wG0 Props.C01.opsG1 :=
  ⟨Props.C16.flatDisk_good, rfl, fun k ⟨t, mt, h⟩ => absurd h (Props.C01.wG0_backup_clean k t mt),
    Props.C01.tx1_covered⟩

/-- Rollback of that transaction under the fault plan `plan` -/
def exRollbackG (plan : List Fault) : World × Except Err Bool :=
  rollback Props.C01.cfgG { runOps Props.C01.cfgG Props.C01.wG0 Props.C01.opsG1 with faults := plan }

/-- fault-free: nil, and the removed file link `/real/fl` (named through `/abs`) is back;
one fault in `restoreSymlink` (the `Symlink` call on the base, issued on the RESOLVED name): error,
the link is missing -/
example : (exRollbackG []).2 = .ok false ∧
    ((exRollbackG []).1.fs.get [['b'], "real".toList, "fl".toList]).map (eraseV (kp [['b']]))
      = (Props.C01.wG0.fs.get [['b'], "real".toList, "fl".toList]).map (eraseV (kp [['b']])) ∧
    (exRollbackG [⟨⟨.base, "symlink", ["sub/f".toList, "/real/fl".toList]⟩, 0⟩]).2 = .ok true ∧
    (exRollbackG [⟨⟨.base, "symlink", ["sub/f".toList, "/real/fl".toList]⟩, 0⟩]).1.fs.get
      [['b'], "real".toList, "fl".toList] = none := by
  decide +kernel

end Props.C09
