import Lemmas.NXForceHist
import Lemmas.NSimOS
import Props.C04N
import Props.C17
/-!
# C17 — ForceBackup re-baselines a path: NESTED (README) layering, link-free trees

Setting of `Props.C04.rollback_restores_nested_linkfree_partial` (`N.nestedCfg bk hk`: base =
`HiddenFS [loc]` over `PrefixFS(root)`, backup = `PrefixFS(loc)` over the same `PrefixFS(root)`, ONE
disk).  Any `N`-covered history `ops₁`, a successful `ForceBackup(p)` for a path `p` outside the
location that was not a directory when the transaction began and is not one at the call, whose parent
directory predates the transaction, any `N`-covered history `ops₂`, Rollback: `p` is EXACTLY what it
was at the call; every other entry of the base below its root and outside the location is what it was
when the transaction began.

Proof: Lemmas/NXForce.lean, NXForceWalk.lean, NXForceHist.lean = Lemmas/Force*.lean replayed over the
contract `N.Sim` (re-basing keeps "nothing shows at hidden keys" and "ancestors of the hidden entry are
directories" because `p` was no directory; the `Remove` of the old copy in the backup view meets a
regular file, hence no "ancestor of a hidden entry").
-/
namespace Props.C17
open BFS BFS.BackupFS

theorem nview_isDirAt_of {bk hk : Key} {m : MFS} {k : Key}
    (h : (N.nview bk hk .base m).isDirAt k) : ¬ hk <+: k ∧ ∃ mt, m.get (bk ++ k) = some (.dir mt) := by
  obtain ⟨mt, hmt⟩ := h
  by_cases hh : hk <+: k
  · rw [N.nview_base_hid hh] at hmt; cases hmt
  · refine ⟨hh, ?_⟩
    rw [N.nview_base_vis hh] at hmt
    cases hget : m.get (bk ++ k) with
    | none => rw [hget] at hmt; cases hmt
    | some n =>
      rw [hget] at hmt
      cases n with
      | dir mt' => exact ⟨mt', rfl⟩
      | file c mt' => simp [eraseMt] at hmt
      | link t mt' => simp [eraseMt] at hmt

theorem nview_isDirAt_mk {bk hk : Key} {m : MFS} {k : Key} {mt : Meta} (hvis : ¬ hk <+: k)
    (h : m.get (bk ++ k) = some (.dir mt)) : (N.nview bk hk .base m).isDirAt k :=
  ⟨{ mt with mtime := .fresh }, by rw [N.nview_base_vis hvis, h]; rfl⟩

private theorem vis_dropLast {hk k : Key} (hvis : ¬ hk <+: k) : ¬ hk <+: k.dropLast :=
  fun h => hvis (h.trans (List.dropLast_prefix k))

/-- T17.main-N  ForceBackup re-baselines a non-directory path — nested layering, link-free fragment.
`k` is `p` as a list of components below the base root, outside the location. -/
theorem forceBackup_rebaselines_nested_linkfree_partial (bk hk dd : Key) (hr : N.NRoots bk hk dd)
    (w : World) (hg : N.NGood bk hk dd w.fs) (hinfos : w.infos = []) (hnf : w.faults = [])
    (ops₁ ops₂ : List Op) (name : Path) (k : Key) (hk' : PKey k) (hname : clean name = kp k)
    (hvis : ¬ hk <+: k)
    (hcov1 : N.CoveredHist (N.nestedCfg bk hk) (N.nSim bk hk dd hr) w ops₁)
    -- `p` was not a directory when the transaction began …
    (horig : ∀ mt, w.fs.get (bk ++ k) ≠ some (.dir mt))
    -- … and is not one at the moment of the call;
    (hnow : ∀ mt, (runOps (N.nestedCfg bk hk) w ops₁).fs.get (bk ++ k) ≠ some (.dir mt))
    -- its parent directories predate the transaction;
    (hpar : k ≠ [] ∧ ∃ mt, w.fs.get (bk ++ k.dropLast) = some (.dir mt))
    -- the ForceBackup succeeds
    (hok : (Op.exec (N.nestedCfg bk hk) (.force name) (runOps (N.nestedCfg bk hk) w ops₁)).2 = .ok .unit)
    (hcov2 : N.CoveredHist (N.nestedCfg bk hk) (N.nSim bk hk dd hr)
      (Op.step (N.nestedCfg bk hk) (runOps (N.nestedCfg bk hk) w ops₁) (.force name)) ops₂) :
    -- `p` is exactly what it was at the moment of the ForceBackup call …
    (runTx (N.nestedCfg bk hk) w (ops₁ ++ .force name :: ops₂)).fs.get (bk ++ k) =
      (runOps (N.nestedCfg bk hk) w ops₁).fs.get (bk ++ k) ∧
    -- … and every other visible path is rolled back as usual
    ∀ j, j ≠ [] → j ≠ k → ¬ hk <+: j →
      ((runTx (N.nestedCfg bk hk) w (ops₁ ++ .force name :: ops₂)).fs.get (bk ++ j)).map eraseMt =
        (w.fs.get (bk ++ j)).map eraseMt := by
  have key := N.force_in_history_rollback_full (S := N.nSim bk hk dd hr) hg hinfos hnf
    ops₁ ops₂ (name := name) hk' hname hcov1
    (fun h => by obtain ⟨_, mt, hmt⟩ := nview_isDirAt_of h; exact horig mt hmt)
    (fun h => by obtain ⟨_, mt, hmt⟩ := nview_isDirAt_of h; exact hnow mt hmt)
    ⟨hpar.1, (by obtain ⟨mt, hmt⟩ := hpar.2; exact nview_isDirAt_mk (vis_dropLast hvis) hmt)⟩
    hok hcov2
  have e1 : ∀ (m : MFS) (j : Key), ¬ hk <+: j →
      (N.nSim bk hk dd hr).view .base m j = (m.get (bk ++ j)).map eraseMt :=
    fun m j hj => N.nview_base_vis hj
  constructor
  · have := key k hpar.1
    rw [if_pos rfl, e1 _ _ hvis, e1 _ _ hvis] at this
    exact eraseMt_exact this hnow
  · intro j hj hjk hjv
    have := key j hj
    rw [if_neg hjk, e1 _ _ hjv, e1 _ _ hjv] at this
    exact this

/-- T17.faults-N  the same under any fault plan: whatever failed among the operations before and after
the ForceBackup, once the filesystem is healthy again Rollback leaves every other visible path as it
was when the transaction began, `p` in one of the two states (original / at the call), and — if the
ForceBackup succeeded — as it was at the call. -/
theorem forceBackup_rebaselines_after_faults_nested_linkfree_partial (bk hk dd : Key) (hr : N.NRoots bk hk dd)
    (w : World) (hg : N.NGood bk hk dd w.fs) (hinfos : w.infos = [])
    (ops₁ ops₂ : List Op) (name : Path) (k : Key) (hk' : PKey k) (hname : clean name = kp k)
    (hvis : ¬ hk <+: k)
    (hcov1 : N.CoveredHist (N.nestedCfg bk hk) (N.nSim bk hk dd hr) w ops₁)
    (horig : ∀ mt, w.fs.get (bk ++ k) ≠ some (.dir mt))
    (hnow : ∀ mt, (runOps (N.nestedCfg bk hk) w ops₁).fs.get (bk ++ k) ≠ some (.dir mt))
    (hpar : k ≠ [] ∧ ∃ mt, w.fs.get (bk ++ k.dropLast) = some (.dir mt))
    (hcov2 : N.CoveredHist (N.nestedCfg bk hk) (N.nSim bk hk dd hr)
      (Op.step (N.nestedCfg bk hk) (runOps (N.nestedCfg bk hk) w ops₁) (.force name)) ops₂) :
    let final := (rollback (N.nestedCfg bk hk)
      { runOps (N.nestedCfg bk hk) w (ops₁ ++ .force name :: ops₂) with faults := [] }).1
    (∀ j, j ≠ [] → j ≠ k → ¬ hk <+: j →
      (final.fs.get (bk ++ j)).map eraseMt = (w.fs.get (bk ++ j)).map eraseMt) ∧
    (final.fs.get (bk ++ k) = w.fs.get (bk ++ k) ∨
      final.fs.get (bk ++ k) = (runOps (N.nestedCfg bk hk) w ops₁).fs.get (bk ++ k)) ∧
    ((Op.exec (N.nestedCfg bk hk) (.force name) (runOps (N.nestedCfg bk hk) w ops₁)).2 = .ok .unit →
      final.fs.get (bk ++ k) = (runOps (N.nestedCfg bk hk) w ops₁).fs.get (bk ++ k)) := by
  intro final
  obtain ⟨hstep, hiff⟩ := force_step (N.nestedCfg bk hk) name (runOps (N.nestedCfg bk hk) w ops₁)
  have hrun : runOps (N.nestedCfg bk hk) w (ops₁ ++ .force name :: ops₂) =
      runOps (N.nestedCfg bk hk) (forceBackup (N.nestedCfg bk hk) name (runOps (N.nestedCfg bk hk) w ops₁)).1 ops₂ := by
    rw [runOps_append, ← hstep]; rfl
  rw [hstep] at hcov2
  obtain ⟨h1, h2, h3⟩ := N.force_then_rollback_after_faults_full (S := N.nSim bk hk dd hr) hg hinfos
    ops₁ ops₂ (name := name) hk' hname hcov1
    (fun h => by obtain ⟨_, mt, hmt⟩ := nview_isDirAt_of h; exact horig mt hmt)
    (fun h => by obtain ⟨_, mt, hmt⟩ := nview_isDirAt_of h; exact hnow mt hmt)
    ⟨hpar.1, (by obtain ⟨mt, hmt⟩ := hpar.2; exact nview_isDirAt_mk (vis_dropLast hvis) hmt)⟩
    hcov2
  rw [← hrun] at h1 h2 h3
  have e1 : ∀ (m : MFS) (j : Key), ¬ hk <+: j →
      (N.nSim bk hk dd hr).view .base m j = (m.get (bk ++ j)).map eraseMt :=
    fun m j hj => N.nview_base_vis hj
  refine ⟨?_, ?_, ?_⟩
  · intro j hj hjk hjv
    have := h1 j hj hjk
    rw [e1 _ _ hjv, e1 _ _ hjv] at this
    exact this
  · rcases h2 with h | h
    · rw [e1 _ _ hvis, e1 _ _ hvis] at h
      exact Or.inl (eraseMt_exact h horig)
    · rw [e1 _ _ hvis, e1 _ _ hvis] at h
      exact Or.inr (eraseMt_exact h hnow)
  · intro hok
    have h := h3 (hiff.mp hok)
    rw [e1 _ _ hvis, e1 _ _ hvis] at h
    exact eraseMt_exact h hnow

/-- T17.many-N  any number of (successful) ForceBackups in one history, also of the same path, all
outside the location: after Rollback a visible path no ForceBackup worked on is as it was when the
transaction began, and a forced path is exactly as it was at the moment of its LAST ForceBackup. -/
theorem forceBackup_rebaselines_many_nested_linkfree_partial (bk hk dd : Key) (hr : N.NRoots bk hk dd)
    (w : World) (hg : N.NGood bk hk dd w.fs) (hinfos : w.infos = []) (hnf : w.faults = [])
    (ops : List Op)
    (hcov : N.CoveredHistF (N.nestedCfg bk hk) (N.nSim bk hk dd hr) (N.nview bk hk .base w.fs) w ops) :
    (∀ j, j ≠ [] → ¬ hk <+: j → (∀ name, Op.force name ∈ ops → forceKey name ≠ j) →
      ((runTx (N.nestedCfg bk hk) w ops).fs.get (bk ++ j)).map eraseMt = (w.fs.get (bk ++ j)).map eraseMt) ∧
    (∀ ops₁ name ops₂, ops = ops₁ ++ .force name :: ops₂ → ¬ hk <+: forceKey name →
      (∀ name', Op.force name' ∈ ops₂ → forceKey name' ≠ forceKey name) →
      (runTx (N.nestedCfg bk hk) w ops).fs.get (bk ++ forceKey name) =
        (runOps (N.nestedCfg bk hk) w ops₁).fs.get (bk ++ forceKey name)) := by
  obtain ⟨h1, h2⟩ := N.forces_then_rollback (S := N.nSim bk hk dd hr) hg hinfos hnf ops hcov
  have e1 : ∀ (m : MFS) (j : Key), ¬ hk <+: j →
      (N.nSim bk hk dd hr).view .base m j = (m.get (bk ++ j)).map eraseMt :=
    fun m j hj => N.nview_base_vis hj
  refine ⟨?_, ?_⟩
  · intro j hj hjv hun
    have := h1 j hj hun
    rw [e1 _ _ hjv, e1 _ _ hjv] at this
    exact this
  · intro ops₁ name ops₂ he hfv hlast
    have hv := h2 ops₁ name ops₂ he hlast
    subst he
    have hc := (N.coveredHistF_append (cfg := N.nestedCfg bk hk) hcov).1
    have hnow : ¬ (N.nview bk hk .base (runOps (N.nestedCfg bk hk) w ops₁).fs).isDirAt (forceKey name) := hc.2.2.1
    rw [e1 _ _ hfv, e1 _ _ hfv] at hv
    exact eraseMt_exact hv (fun mt e => hnow (nview_isDirAt_mk hfv e))

/-! ### non-vacuity: the example disk of Props/C04N.lean, location `/b/d` -/

/-- the history overwrites `/f`, forces a backup of it, then removes it and makes a directory in its
place: every hypothesis of `forceBackup_rebaselines_nested_linkfree_partial` holds -/
example :
    let cfg := N.nestedCfg [['b']] [['d']]
    let S := N.nSim [['b']] [['d']] [['k']] Props.C04.nroots_example
    let w : World := { fs := exDisk }
    let ops₁ : List Op := [.write "/f".toList (O_WRONLY ||| O_TRUNC) 0 "y"]
    let ops₂ : List Op := [.remove "/f".toList, .mkdir "//f/".toList 0o755, .creat "/f/x".toList "z"]
    N.NGood [['b']] [['d']] [['k']] w.fs ∧ w.infos = [] ∧ w.faults = [] ∧
    PKey [['f']] ∧ clean "/f".toList = kp [['f']] ∧ ¬ [['d']] <+: [['f']] ∧
    N.CoveredHist cfg S w ops₁ ∧
    (∀ mt, w.fs.get ([['b']] ++ [['f']]) ≠ some (.dir mt)) ∧
    (∀ mt, (runOps cfg w ops₁).fs.get ([['b']] ++ [['f']]) ≠ some (.dir mt)) ∧
    ([['f']] ≠ [] ∧ ∃ mt, w.fs.get ([['b']] ++ [['f']].dropLast) = some (.dir mt)) ∧
    (Op.exec cfg (.force "/f".toList) (runOps cfg w ops₁)).2 = .ok .unit ∧
    N.CoveredHist cfg S (Op.step cfg (runOps cfg w ops₁) (.force "/f".toList)) ops₂ := by
  refine ⟨⟨osGood_example, ⟨_, rfl⟩⟩, rfl, rfl, (by decide), (by decide), (by decide), ⟨?_, trivial⟩, ?_, ?_,
    ⟨(by decide), ⟨_, rfl⟩⟩, ?_, ⟨?_, ?_, ?_, trivial⟩⟩
  · show isAbs _ = true; decide
  · exact notDir_spec (by decide +kernel)
  · exact notDir_spec (by decide +kernel)
  · exact isOkUnit_eq (by decide +kernel)
  · show isAbs _ = true ∧ clean _ ≠ rootP; decide
  · show isAbs _ = true; decide
  · show isAbs _ = true; decide

/-- the run itself, kernel-evaluated: after Rollback `/b/f` holds the content it had at the ForceBackup
("y", not the original "hello"), `/b/f/x` is gone, and the location is empty again -/
example :
    let cfg := N.nestedCfg [['b']] [['d']]
    let ops : List Op := [.write "/f".toList (O_WRONLY ||| O_TRUNC) 0 "y", .force "/f".toList,
      .remove "/f".toList, .mkdir "//f/".toList 0o755, .creat "/f/x".toList "z"]
    let r := rollback cfg (runOps cfg { fs := exDisk } ops)
    r.2 = .ok false ∧
    (r.1.fs.get [['b'], ['f']]).map (fun n => match n with | .file c _ => c | _ => "") = some "y" ∧
    r.1.fs.get [['b'], ['f'], ['x']] = none ∧
    r.1.fs.get [['b'], ['d'], ['f']] = none ∧ (r.1.fs.get [['b'], ['d']]).isSome := by
  decide +kernel

/-- `N.Op.CoveredF` of a ForceBackup from checks that can be evaluated -/
theorem coveredF_force_of_nested {bk hk dd : Key} {hr : N.NRoots bk hk dd} {w0 w : World} {name : Path} {k : Key}
    (hkey : forceKey name = k) (habs : isAbs name = true) (hvis : ¬ hk <+: k)
    (h0 : notDir (w0.fs.get (bk ++ k)) = true) (h1 : notDir (w.fs.get (bk ++ k)) = true)
    (hkne : k ≠ []) (hp : isDirB (w0.fs.get (bk ++ k.dropLast)) = true)
    (hok : isOkUnit (Op.exec (N.nestedCfg bk hk) (.force name) w).2 = true) :
    N.Op.CoveredF (N.nestedCfg bk hk) (N.nSim bk hk dd hr) (N.nview bk hk .base w0.fs) w (.force name) := by
  show _ ∧ _ ∧ _ ∧ _ ∧ _
  rw [hkey]
  refine ⟨habs, ?_, ?_, ⟨hkne, ?_⟩, isOkUnit_eq hok⟩
  · intro h; obtain ⟨_, mt, hmt⟩ := nview_isDirAt_of h; exact notDir_spec h0 mt hmt
  · intro h; obtain ⟨_, mt, hmt⟩ := nview_isDirAt_of h; exact notDir_spec h1 mt hmt
  · obtain ⟨mt, hmt⟩ := isDirB_spec hp; exact nview_isDirAt_mk (vis_dropLast hvis) hmt

/-- three ForceBackups, two of the same path, the third of a path that does not exist: every
hypothesis of `forceBackup_rebaselines_many_nested_linkfree_partial` holds -/
example :
    let cfg := N.nestedCfg [['b']] [['d']]
    let w : World := { fs := exDisk }
    N.NGood [['b']] [['d']] [['k']] w.fs ∧ w.infos = [] ∧ w.faults = [] ∧
    N.CoveredHistF cfg (N.nSim [['b']] [['d']] [['k']] Props.C04.nroots_example)
      (N.nview [['b']] [['d']] .base w.fs) w
      [.write "/f".toList (O_WRONLY ||| O_TRUNC) 0 "y", .force "/f".toList,
       .write "/f".toList (O_WRONLY ||| O_TRUNC) 0 "z", .force "//f/".toList, .remove "/f".toList,
       .force "/n".toList, .creat "/n".toList "q"] := by
  refine ⟨⟨osGood_example, ⟨_, rfl⟩⟩, rfl, rfl, ?_, ?_, ?_, ?_, ?_, ?_, ?_, trivial⟩
  · show isAbs _ = true; decide
  · exact coveredF_force_of_nested (k := [['f']]) (by decide) (by decide) (by decide) (by decide +kernel)
      (by decide +kernel) (by decide) (by decide +kernel) (by decide +kernel)
  · show isAbs _ = true; decide
  · exact coveredF_force_of_nested (k := [['f']]) (by decide) (by decide) (by decide) (by decide +kernel)
      (by decide +kernel) (by decide) (by decide +kernel) (by decide +kernel)
  · show isAbs _ = true ∧ clean _ ≠ rootP; decide
  · exact coveredF_force_of_nested (k := [['n']]) (by decide) (by decide) (by decide) (by decide +kernel)
      (by decide +kernel) (by decide) (by decide +kernel) (by decide +kernel)
  · show isAbs _ = true; decide

end Props.C17
