import Lemmas.FlowCheck
/-!
# C13 — facts about the CURRENT Go sources (regenerated on every run), decided by the kernel

`Generated.flowFacts` is written by the harness (`vharness -stream astfacts`, go/ast) from /repo's
working tree before every build; the predicates are defined in `Lemmas/FlowCheck.lean`.  A change to
the sources that alters how names flow through the methods changes the facts, and these theorems no
longer build — whether or not a generated input happens to exhibit the difference.
-/
namespace Props.C13
open Flow Generated

/-- the clean-up of Rollback deletes from the backup with `Remove` only, the removal phase deletes from
the base with `Remove` only, and `restoreSymlink` makes room with `Remove` (no `RemoveAll` anywhere on
these paths: content the transaction did not create makes the call fail instead of disappearing) -/
theorem source_cleanup_uses_remove_only : cleanupUsesRemoveOnly flowFacts = true := by decide +kernel

/-- during Rollback the writing helpers are pointed at `fsys.base` and read from `fsys.backup` -/
theorem source_restore_helpers_write_base_only : restoreHelpersWriteBaseOnly flowFacts = true := by decide +kernel

end Props.C13
