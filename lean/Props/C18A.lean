import Lemmas.FlowCheck
/-!
# C18 — facts about the CURRENT Go sources (regenerated on every run), decided by the kernel

`Generated.flowFacts` is written by the harness (`vharness -stream astfacts`, go/ast) from /repo's
working tree before every build; the predicates are defined in `Lemmas/FlowCheck.lean`.  A change to
the sources that alters how names flow through the methods changes the facts, and these theorems no
longer build — whether or not a generated input happens to exhibit the difference.
-/
namespace Props.C18
open Flow Generated

/-- every VolumeFS method issues exactly one base call, of its own name, on `prefixPath(<parameter>)`;
the link text of `Symlink` is `prefixPath(oldname)` or `oldname` verbatim -/
theorem source_same_call_on_volume_path : prefixedBeforeDelegation "VolumeFS" flowFacts methodParams = true := by decide +kernel

end Props.C18
