import Lemmas
import Props.C06
/-!
# C11 — HiddenFS listings and recursive operations respect hidden paths

Listings: `hiddenReaddirnames` models `hiddenFile.Readdirnames`/`Readdir` over the directory
stream of the underlying handle (the entries not yet returned, in the order the base returns
them).  The theorem quantifies over every directory content, every hidden set and **every
sequence of counts** (negative, zero, positive, beyond the size), i.e. every batching.
`NoErr` = the hidden check can relate each entry to the hidden paths (`filepath.Rel` does not
fail), which holds whenever the directory was opened by a rooted name and the hidden paths are
rooted.
-/
namespace Props.C11
open BFS

/-- T11.1 Whatever the sequence of `Readdirnames(n)` / `Readdir(n)` calls on one handle: no call
fails; the batches returned, concatenated in call order, followed by the visible entries still in
the stream, are exactly the visible entries of the directory in base order — so every non-hidden
entry is returned exactly once, in order, no hidden entry ever is, and a final draining call
returns all that is left. -/
theorem listing_stream (hs : List Path) (dir : Path) (entries : List Name) (counts : List Int)
    (hne : NoErr hs dir entries) :
    (∀ o ∈ (runCalls hs dir counts entries).1, ∀ e, o ≠ .failed e) ∧
    (runCalls hs dir counts entries).1.flatMap outNames ++ visible hs dir (runCalls hs dir counts entries).2
      = visible hs dir entries :=
  runCalls_spec hs dir counts entries hne _ rfl

/-- T11.1b `io.EOF` is reported only with an empty batch and only when no visible entry is left;
a call with `n ≤ 0` never reports it. -/
theorem eof_only_when_exhausted (hs : List Path) (dir : Path) (count : Int) (rem : List Name)
    (hne : NoErr hs dir rem) (h : (hiddenReaddirnames hs dir count rem).1 = .eof) :
    visible hs dir rem = [] :=
  (call_spec hs dir count rem hne _ rfl).2.2.1 h

/-- T11.1c a draining call (`n ≤ 0`) returns every visible entry that is left -/
theorem drain_returns_all (hs : List Path) (dir : Path) (count : Int) (rem : List Name)
    (hc : count ≤ 0) (hne : NoErr hs dir rem) :
    hiddenReaddirnames hs dir count rem = (.names (visible hs dir rem), []) := by
  unfold hiddenReaddirnames
  simp only [hc, if_true]
  have hb : baseReaddirnames rem count = (rem, [], false) := by
    unfold baseReaddirnames; simp [hc]
  rw [hb]
  simp only [hiddenFilter_ok hs dir rem hne]

/-- T11.1d what is listed is visible in the sense of C06/C15: component-wise outside every hidden
path -/
theorem listed_is_outside (hs : List Path) (dir : Path) (n : Name) (l : List Name)
    (h : n ∈ visible hs dir l) : ∀ hp ∈ hs, ¬ Within hp (join dir n) := by
  unfold visible at h
  have hv := (List.mem_filter.mp h).2
  unfold visibleName at hv
  cases hh : HiddenFS.isHidden (join dir n) hs with
  | error e => rw [hh] at hv; cases hv
  | ok b =>
    cases b with
    | true => rw [hh] at hv; cases hv
    | false => exact isHidden_false hh

/-- T11.3 no operation can relocate hidden content by renaming one of its ancestors: `Rename` of a
name that `isParentOfHidden` recognises is refused without any base call. -/
theorem rename_ancestor_refused (hs : List Path) (o n : Path)
    (hvis : HiddenFS.isHidden o hs = .ok false) (hanc : HiddenFS.isParentOfHidden o hs = .ok true) :
    HiddenFS.translate hs (.rename o n) = .error .hiddenPerm := by
  simp only [HiddenFS.translate, bind, Except.bind, hguard_of_visible _ hvis, hanc]

/-- T11.3b nor can content be brought TO a hidden location: `Rename` onto a (missing) parent
directory of a hidden path is refused without any base call (repair D21: before it, renaming a
directory `/x` containing `h` onto a missing `/a` with `/a/h` hidden made `/a/h` exist). -/
theorem rename_onto_ancestor_refused (hs : List Path) (o n : Path)
    (hvo : HiddenFS.isHidden o hs = .ok false) (hpo : HiddenFS.isParentOfHidden o hs = .ok false)
    (hvn : HiddenFS.isHidden n hs = .ok false) (hanc : HiddenFS.isParentOfHidden n hs = .ok true) :
    HiddenFS.translate hs (.rename o n) = .error .hiddenPerm := by
  simp only [HiddenFS.translate, bind, Except.bind, hguard_of_visible _ hvo, hpo,
    hguard_of_visible _ hvn, hanc]

/-! non-vacuity -/
example : HiddenFS.translate (HiddenFS.mk ["/a/h".toList]) (.rename "/x".toList "/a".toList)
    = .error .hiddenPerm := by decide
example : runCalls (HiddenFS.mk ["/d/h".toList]) "/d".toList [2, 2, 2]
    ["a".toList, "h".toList, "b".toList, "c".toList]
    = ([.names ["a".toList, "b".toList], .names ["c".toList], .eof], []) := by decide
example : HiddenFS.translate (HiddenFS.mk ["/var/opt/backups".toList]) (.rename "/var/opt".toList "/x".toList)
    = .error .hiddenPerm := by decide

/-!
### C11 / C15, the `RemoveAll` clause

"RemoveAll on an ancestor of a hidden path removes everything except the hidden entries and the
directories leading to them" (C11); "RemoveAll spares hidden entries and their ancestors" is the
only intended difference from the underlying filesystem for visible names (C15).

Proved for the model's `hiddenRemoveAll` (= `HiddenFS.RemoveAll`: hidden check, `Lstat`, `Walk`
with the collecting walk function, removal of the collected directories deepest-first), generically
over an abstract inner filesystem (`Lemmas/HiddenRA.lean`, `Lemmas/HiddenRB.lean`) and instantiated
here for the OS model behind `PrefixFS` (base root `bk`), for every well-formed link-free disk,
every hidden set given by keys `hks` (hidden path list: whatever `NewHiddenFS` stores for the paths
`kp h`), every argument `kp k` below the root (`k ≠ []`), every fuel.

`HidK hks j` = some hidden key is a prefix of `j` (a hidden entry or something below one);
`ParK hks j` = `j` is a proper prefix of some hidden key (leads to a hidden entry).

Not covered: the root itself as argument (`k = []`: with an empty hidden set the code calls
`Remove("/")` on the inner filesystem), trees with symlinks, relative names.
-/


/-- the lexical checks on absolute cleaned names, in terms of keys -/
theorem hidden_checks_on_keys (hks : List Key) (hp : ∀ h ∈ hks, PKey h) (j : Key) (hj : PKey j) :
    HiddenFS.isHidden (kp j) (HiddenFS.mk (hks.map kp)) = .ok (decide (∃ h ∈ hks, h <+: j)) ∧
    HiddenFS.isParentOfHidden (kp j) (HiddenFS.mk (hks.map kp)) = .ok (decide (∃ h ∈ hks, j <+: h ∧ j ≠ h)) :=
  ⟨isHidden_kp (hidKeys_mk hp) hj, isParentOfHidden_kp (hidKeys_mk hp) hj⟩

/-- T11b.A  safety, whatever `RemoveAll` returns and whatever the walk's depth bound: the disk stays
well-formed, the backup side is untouched, nothing outside the subtree of the argument is touched,
every hidden entry and everything below it is untouched, and every directory leading to a hidden
entry is untouched (types, contents, permission bits, owners, file times; directory timestamps are
not part of the view).  If the argument itself is hidden nothing happens and the error is
`ErrHiddenNotExist`. -/
theorem removeAll_spares_hidden (bk kk : Key) (hbk : PKey bk) (hkk : PKey kk)
    (hne1 : bk ≠ []) (hne2 : kk ≠ []) (hd1 : ¬ bk <+: kk) (hd2 : ¬ kk <+: bk)
    (hks : List Key) (hp : ∀ h ∈ hks, PKey h) (k : Key) (hk : PKey k) (hne : k ≠ [])
    (m : MFS) (hg : OSGood bk kk m) (fuel : Nat) :
    let res := hiddenRemoveAll (HiddenFS.mk (hks.map kp)) ((osCfg bk kk).side .base) fuel m (kp k)
    OSGood bk kk res.1 ∧
    osView bk kk .backup res.1 = osView bk kk .backup m ∧
    (∀ j, ¬ k <+: j → osView bk kk .base res.1 j = osView bk kk .base m j) ∧
    (∀ j, (∃ h ∈ hks, h <+: j) → osView bk kk .base res.1 j = osView bk kk .base m j) ∧
    (∀ j, (∃ h ∈ hks, j <+: h ∧ j ≠ h) → (osView bk kk .base m).isDirAt j →
      osView bk kk .base res.1 j = osView bk kk .base m j) ∧
    ((∃ h ∈ hks, h <+: k) → res = (m, .error .hiddenNotExist)) :=
  hiddenRemoveAll_safe (osSim bk kk hbk hkk hne1 hne2 hd1 hd2) (hidKeys_mk hp) hk hne hg fuel

/-- T11b.B  completeness: if `RemoveAll` returns nil, every entry of the subtree of the argument is
gone, except the hidden entries (with what is below them) and the directories leading to them.  A
*file* whose name is a lexical ancestor of a hidden path is removed like any other file. -/
theorem removeAll_removes_the_rest (bk kk : Key) (hbk : PKey bk) (hkk : PKey kk)
    (hne1 : bk ≠ []) (hne2 : kk ≠ []) (hd1 : ¬ bk <+: kk) (hd2 : ¬ kk <+: bk)
    (hks : List Key) (hp : ∀ h ∈ hks, PKey h) (k : Key) (hk : PKey k) (hne : k ≠ [])
    (m : MFS) (hg : OSGood bk kk m) (fuel : Nat)
    (hok : (hiddenRemoveAll (HiddenFS.mk (hks.map kp)) ((osCfg bk kk).side .base) fuel m (kp k)).2 = .ok ()) :
    ∀ j, k <+: j → ¬ (∃ h ∈ hks, h <+: j) →
      ¬ ((∃ h ∈ hks, j <+: h ∧ j ≠ h) ∧ (osView bk kk .base m).isDirAt j) →
      osView bk kk .base
        (hiddenRemoveAll (HiddenFS.mk (hks.map kp)) ((osCfg bk kk).side .base) fuel m (kp k)).1 j = none :=
  hiddenRemoveAll_complete (osSim bk kk hbk hkk hne1 hne2 hd1 hd2) (osSimDir bk kk hbk hkk hne1 hne2 hd1 hd2)
    (hidKeys_mk hp) hk hne hg fuel hok

/-- T11b.C  success: if the argument exists on the base side, is not hidden, and the walk's depth
bound exceeds the height of the subtree below it, `RemoveAll` returns nil (so T11b.B applies).  In
particular a spared entry never makes the removal of a directory fail: the directories of the
second phase are removed deepest-first and the skipped ones are never inside a removed one. -/
theorem removeAll_succeeds (bk kk : Key) (hbk : PKey bk) (hkk : PKey kk)
    (hne1 : bk ≠ []) (hne2 : kk ≠ []) (hd1 : ¬ bk <+: kk) (hd2 : ¬ kk <+: bk)
    (hks : List Key) (hp : ∀ h ∈ hks, PKey h) (k : Key) (hk : PKey k) (hne : k ≠ [])
    (m : MFS) (hg : OSGood bk kk m) (fuel : Nat)
    (hvis : ¬ ∃ h ∈ hks, h <+: k) (hex : osView bk kk .base m k ≠ none)
    (hht : ∀ j, k <+: j → osView bk kk .base m j ≠ none → j.length < k.length + fuel) :
    (hiddenRemoveAll (HiddenFS.mk (hks.map kp)) ((osCfg bk kk).side .base) fuel m (kp k)).2 = .ok () :=
  hiddenRemoveAll_ok (osSim bk kk hbk hkk hne1 hne2 hd1 hd2) (osSimDir bk kk hbk hkk hne1 hne2 hd1 hd2)
    (hidKeys_mk hp) hk hne hg fuel hvis hex hht

/-- the program the theorems speak about is what the `RemoveAll` method of the layer
`hiddenFS` runs (depth bound 64) -/
theorem hiddenFS_removeAll (hiddenPaths : List Path) (inner : FSI MFS) (m : MFS) (n : Path) :
    (hiddenFS hiddenPaths inner).call m (.removeAll n) =
      liftU (hiddenRemoveAll (HiddenFS.mk hiddenPaths) inner 64 m (rmName n)) := rfl

/-- … and on the key paths the theorems are stated for, that name is the caller's (`RemoveAll` cleans
its name first — since the repair of D23, which made uncleaned spellings such as `//./d` or `/x/../d`
behave like the cleaned one —; a key path is in cleaned form) -/
theorem hiddenFS_removeAll_kp (hiddenPaths : List Path) (inner : FSI MFS) (m : MFS) {k : Key} (hk : PKey k) :
    (hiddenFS hiddenPaths inner).call m (.removeAll (kp k)) =
      liftU (hiddenRemoveAll (HiddenFS.mk hiddenPaths) inner 64 m (kp k)) := by
  rw [hiddenFS_removeAll, rmName_kp hk]

/-- the views of the two theorems, spelled out on the disk: key `j` of the base side is the node
at `bk ++ j`, with directory timestamps erased -/
theorem view_spelled_out (bk kk : Key) (m : MFS) (j : Key) :
    osView bk kk .base m j = (m.get (bk ++ j)).map eraseMt := rfl

/-! ## non-vacuity: the disk of `Lemmas/SimOS.lean` (`/b/f`, `/b/d`; base root `/b`), hidden path
`/d/h`, `RemoveAll("/d")` -/
example : OSGood [['b']] [['k']] exDisk ∧ (∀ h ∈ [[['d'], ['h']]], PKey h) ∧ PKey [['d']] ∧
    (∃ h ∈ [[['d'], ['h']]], [['d']] <+: h ∧ [['d']] ≠ h) ∧
    (osView [['b']] [['k']] .base exDisk).isDirAt [['d']] :=
  ⟨osGood_example, by decide, by decide, by decide, ⟨_, rfl⟩⟩

theorem exDisk_height (k j : Key) (hv : osView [['b']] [['k']] .base exDisk j ≠ none) :
    j.length < k.length + 64 := by
  obtain ⟨n0, h0⟩ := osView_ne_none hv
  have hl : (osRoot [['b']] [['k']] .base ++ j).length ≤ 2 := by
    rcases exDisk_live h0 with ⟨e, _⟩ | ⟨e, _⟩ | ⟨e, _⟩ | ⟨e, _⟩ | ⟨e, _⟩ <;> (rw [e]; decide)
  simp only [List.length_append] at hl
  omega

/-- on that disk `RemoveAll("/d")` returns nil and `/d`, which leads to the hidden `/d/h`, is
still a directory afterwards, while `RemoveAll("/f")` returns nil and `/f` is gone -/
example :
    (hiddenRemoveAll (HiddenFS.mk ([[['d'], ['h']]].map kp)) ((osCfg [['b']] [['k']]).side .base) 64 exDisk
      (kp [['d']])).2 = .ok () ∧
    (osView [['b']] [['k']] .base
      (hiddenRemoveAll (HiddenFS.mk ([[['d'], ['h']]].map kp)) ((osCfg [['b']] [['k']]).side .base) 64 exDisk
        (kp [['d']])).1).isDirAt [['d']] ∧
    (hiddenRemoveAll (HiddenFS.mk ([[['d'], ['h']]].map kp)) ((osCfg [['b']] [['k']]).side .base) 64 exDisk
      (kp [['f']])).2 = .ok () ∧
    osView [['b']] [['k']] .base
      (hiddenRemoveAll (HiddenFS.mk ([[['d'], ['h']]].map kp)) ((osCfg [['b']] [['k']]).side .base) 64 exDisk
        (kp [['f']])).1 [['f']] = none := by
  have hd : (osView [['b']] [['k']] .base exDisk).isDirAt [['d']] := ⟨_, rfl⟩
  have hpk : ∀ h ∈ [[['d'], ['h']]], PKey h := by decide
  have hA := removeAll_spares_hidden [['b']] [['k']] (by decide) (by decide) (by decide) (by decide) (by decide)
    (by decide) [[['d'], ['h']]] hpk [['d']] (by decide) (by decide) exDisk osGood_example 64
  have hC1 := removeAll_succeeds [['b']] [['k']] (by decide) (by decide) (by decide) (by decide) (by decide)
    (by decide) [[['d'], ['h']]] hpk [['d']] (by decide) (by decide) exDisk osGood_example 64 (by decide)
    (by obtain ⟨mt, e⟩ := hd; rw [e]; simp) (fun j _ hv => exDisk_height _ j hv)
  have hf : osView [['b']] [['k']] .base exDisk [['f']] ≠ none := by
    show (exDisk.get ([['b']] ++ [['f']])).map eraseMt ≠ none
    decide
  have hC2 := removeAll_succeeds [['b']] [['k']] (by decide) (by decide) (by decide) (by decide) (by decide)
    (by decide) [[['d'], ['h']]] hpk [['f']] (by decide) (by decide) exDisk osGood_example 64 (by decide)
    hf (fun j _ hv => exDisk_height _ j hv)
  have hB2 := removeAll_removes_the_rest [['b']] [['k']] (by decide) (by decide) (by decide) (by decide) (by decide)
    (by decide) [[['d'], ['h']]] hpk [['f']] (by decide) (by decide) exDisk osGood_example 64 hC2
    [['f']] (List.prefix_refl _) (by decide) (fun hc => absurd hc.1 (by decide))
  refine ⟨hC1, ?_, hC2, hB2⟩
  obtain ⟨mt, e⟩ := hd
  exact ⟨mt, (hA.2.2.2.2.1 [['d']] (by decide) ⟨mt, e⟩).trans e⟩

end Props.C11
