import Lemmas
import Props.C06
/-!
# C11 — HiddenFS listings and recursive operations respect hidden paths

Listings: `hiddenReaddirnames` models `hiddenFile.Readdirnames`/`Readdir` over the directory
stream of the underlying handle (the entries not yet returned, in the order the base returns
them).  The theorem quantifies over every directory content, every hidden set and **every
sequence of counts** (negative, zero, positive, beyond the size), i.e. every batching.
`NoErr` = the hidden check can relate each entry to the hidden paths (`filepath.Rel` does not
fail), which holds whenever the directory was opened by a rooted name and the hidden paths are
rooted.
-/
namespace Props.C11
open BFS

/-- T11.1 Whatever the sequence of `Readdirnames(n)` / `Readdir(n)` calls on one handle: no call
fails; the batches returned, concatenated in call order, followed by the visible entries still in
the stream, are exactly the visible entries of the directory in base order — so every non-hidden
entry is returned exactly once, in order, no hidden entry ever is, and a final draining call
returns all that is left. -/
theorem listing_stream (hs : List Path) (dir : Path) (entries : List Name) (counts : List Int)
    (hne : NoErr hs dir entries) :
    (∀ o ∈ (runCalls hs dir counts entries).1, ∀ e, o ≠ .failed e) ∧
    (runCalls hs dir counts entries).1.flatMap outNames ++ visible hs dir (runCalls hs dir counts entries).2
      = visible hs dir entries :=
  runCalls_spec hs dir counts entries hne _ rfl

/-- T11.1b `io.EOF` is reported only with an empty batch and only when no visible entry is left;
a call with `n ≤ 0` never reports it. -/
theorem eof_only_when_exhausted (hs : List Path) (dir : Path) (count : Int) (rem : List Name)
    (hne : NoErr hs dir rem) (h : (hiddenReaddirnames hs dir count rem).1 = .eof) :
    visible hs dir rem = [] :=
  (call_spec hs dir count rem hne _ rfl).2.2.1 h

/-- T11.1c a draining call (`n ≤ 0`) returns every visible entry that is left -/
theorem drain_returns_all (hs : List Path) (dir : Path) (count : Int) (rem : List Name)
    (hc : count ≤ 0) (hne : NoErr hs dir rem) :
    hiddenReaddirnames hs dir count rem = (.names (visible hs dir rem), []) := by
  unfold hiddenReaddirnames
  simp only [hc, if_true]
  have hb : baseReaddirnames rem count = (rem, [], false) := by
    unfold baseReaddirnames; simp [hc]
  rw [hb]
  simp only [hiddenFilter_ok hs dir rem hne]

/-- T11.1d what is listed is visible in the sense of C06/C15: component-wise outside every hidden
path -/
theorem listed_is_outside (hs : List Path) (dir : Path) (n : Name) (l : List Name)
    (h : n ∈ visible hs dir l) : ∀ hp ∈ hs, ¬ Within hp (join dir n) := by
  unfold visible at h
  have hv := (List.mem_filter.mp h).2
  unfold visibleName at hv
  cases hh : HiddenFS.isHidden (join dir n) hs with
  | error e => rw [hh] at hv; cases hv
  | ok b =>
    cases b with
    | true => rw [hh] at hv; cases hv
    | false => exact isHidden_false hh

/-- T11.3 no operation can relocate hidden content by renaming one of its ancestors: `Rename` of a
name that `isParentOfHidden` recognises is refused without any base call. -/
theorem rename_ancestor_refused (hs : List Path) (o n : Path)
    (hvis : HiddenFS.isHidden o hs = .ok false) (hanc : HiddenFS.isParentOfHidden o hs = .ok true) :
    HiddenFS.translate hs (.rename o n) = .error .hiddenPerm := by
  simp only [HiddenFS.translate, bind, Except.bind, hguard_of_visible _ hvis, hanc]

/-! non-vacuity -/
example : runCalls (HiddenFS.mk ["/d/h".toList]) "/d".toList [2, 2, 2]
    ["a".toList, "h".toList, "b".toList, "c".toList]
    = ([.names ["a".toList, "b".toList], .names ["c".toList], .eof], []) := by decide
example : HiddenFS.translate (HiddenFS.mk ["/var/opt/backups".toList]) (.rename "/var/opt".toList "/x".toList)
    = .error .hiddenPerm := by decide

end Props.C11
