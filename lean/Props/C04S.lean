import Lemmas.S4Ops
import Lemmas.S4Prim
import Lemmas.S4RA
import Lemmas.S4SealOps
import Lemmas.S4Ex
import Props.C04N
import Props.C06D
/-!
# C04 (disk level) — the backup location is sealed off in the documented layering

Setting: `N.nestedCfg bk hk = newWithFS (prefixFS (kp bk) osfs) (kp hk)` (`nested_is_newWithFS`): the
BackupFS the real constructor `NewWithFS(PrefixFS(osfs, kp bk), kp hk)` builds — base =
`HiddenFS [kp hk]`, backup = `PrefixFS (kp hk)`, both over `PrefixFS (kp bk)` over the OS model.  The
location directory is the OS key `bk ++ hk`; names are the client's (relative to the base root).
Disks: `N.NGood bk hk dd m` — well-formed, no symlink at or below `bk`, the location is a directory
(`dd` is the unrelated second root of `OSGood`, as in `Props.C04.rollback_restores_nested_linkfree_partial`).

## S1 — operations naming the location or anything below it

What is TRUE of the model (evaluated first on `S4.deepDisk`, then proved):

* every operation FAILS (`RemoveAll`: returns nil, as for a path that does not exist), for every
  tracked map and every fault plan, and nothing outside the location's subtree — in particular
  nothing of the visible base tree — changes, exactly (`loc_mutators_refused`, `loc_readonly_refused`,
  `loc_removeAll_nil`);
* BUT a mutator is NOT a no-op on the disk when the location lies two or more levels below the
  base root: `prepare = realPath; tryBackup` runs before the refused base call, treats the refusal
  `ErrHiddenNotExist` of the hidden name as "does not exist", records the hidden name(s) as *absent*
  in `baseInfos`, and backs up the location's not-yet-tracked proper ANCESTORS into the backup:
  directories `bk ++ hk ++ a` (`a` a proper prefix of `hk`) appear and the location directory is
  stamped (`refused_mkdir_backs_up_ancestors`, kernel-checked).  Nothing AT OR BELOW the location is
  copied.  These are the only keys that can change (`ParPos`).
* If every proper ancestor of the location other than the root is already tracked — always so for
  a location directly below the base root, the README layout — the disk is exactly unchanged, and
  without faults the error is exactly the class of `Props.C06.refusal`: `hiddenPerm` for creating
  operations, `hiddenNotExist` for the others; the outcome is then a closed term that does not
  mention the disk ("cannot see": `loc_outcome_independent_of_content`).
-/
namespace Props.C04
open BFS BFS.BackupFS BFS.S4

/-- both names of the configuration denote the same thing -/
theorem nested_is_newWithFS (bk hk : Key) :
    N.nestedCfg bk hk = newWithFS (prefixFS (kp bk) osfs) (kp hk) := rfl

/-- a name, in any absolute spelling, at or below the location is the path of a key below `hk` -/
theorem atLoc_of_within {hk : Key} (hhk : PKey hk) {p : Path} (hp : isAbs p = true) (hw : Within (kp hk) p) :
    ∃ k, PKey k ∧ clean p = kp k ∧ hk <+: k := by
  obtain ⟨h1, h2⟩ := Props.C06.abs_clean_key hp
  refine ⟨_, h1, h2, ?_⟩
  rw [← within_kp hhk h1, ← h2]
  unfold Within at hw ⊢
  rw [cleanC_clean]
  exact hw

/-- a location directly below the base root has no ancestor but the root -/
theorem ancTracked_of_depth1 {hk : Key} (h1 : hk.length = 1) (w : World) : AncTracked hk w := by
  intro a ha hne hn0
  exfalso
  have hl := ha.length_le
  have : a.length ≠ hk.length := fun e => hne (ha.eq_of_length e)
  have : a.length = 0 := by omega
  exact hn0 (List.length_eq_zero_iff.mp this)

/-- the error of a result, if any -/
def errOf {α : Type} : Except Err α → Option Err
  | .error e => some e
  | .ok _ => none

/-- **S1, mutators** (`Create`, `OpenFile` with a writing flag, `Mkdir`, `MkdirAll`, `Remove`, `Chmod`,
`Chown`, `Lchown`, `Chtimes`, `Symlink` located there — `mutName op = some p`), name `p` at or below
the location in any spelling, ANY tracked map, ANY fault plan:
1. the operation fails;
2. every key of the whole disk that is not the backup position `bk ++ hk ++ a` of a proper ancestor
   `a` of the location holds exactly the same node afterwards — so the visible base tree, everything
   outside the base root, and every entry at or below the location other than those copies of
   ancestors are untouched; the disk stays well-formed;
3. if the location's proper ancestors other than the root are tracked (`AncTracked`): the disk is
   unchanged altogether, and without faults the error is exactly `locRefusal op`;
4. what the operation newly records at or below the location is recorded as *absent*: no entry
   there ever gets a `FileInfo`;
5. what was tracked stays tracked unchanged. -/
theorem loc_mutators_refused (bk hk dd : Key) (hr : N.NRoots bk hk dd) (w : World)
    (hg : N.NGood bk hk dd w.fs) (op : Op) (p : Path) (hm : mutName op = some p)
    (k : Key) (hk' : PKey k) (hname : clean p = kp k) (hloc : hk <+: k) :
    let r := Op.exec (N.nestedCfg bk hk) op w
    (∃ e, r.2 = .error e) ∧
    (∀ j, ¬ ParPos bk hk j → r.1.fs.get j = w.fs.get j) ∧ N.NGood bk hk dd r.1.fs ∧
    (AncTracked hk w → r.1.fs = w.fs) ∧
    (w.faults = [] → AncTracked hk w → r.2 = .error (locRefusal op)) ∧
    (∀ k', PKey k' → hk <+: k' →
      r.1.infos.lookup (kp k') = w.infos.lookup (kp k') ∨ r.1.infos.lookup (kp k') = some none) ∧
    (∀ q x, w.infos.lookup q = some x → r.1.infos.lookup q = some x) := by
  obtain ⟨hf, he, hx⟩ := (sat_mut_hid hr hm hk' hname hloc hg).elim
  exact ⟨he, hf.other, hf.good, hf.exact, hx, hf.newHid, hf.keep⟩

/-- the keys S1 allows to change are positions strictly inside the location's own subtree on the
path to the copy of the location's parent — never a key of the visible base tree, never a key at
or below `loc/loc` -/
theorem parPos_inside {bk hk j : Key} (h : ParPos bk hk j) :
    bk ++ hk <+: j ∧ ¬ (bk ++ hk ++ hk <+: j) := by
  obtain ⟨a, ha, hne, rfl⟩ := h
  refine ⟨List.prefix_append _ _, ?_⟩
  intro hp
  have : hk <+: a := (List.prefix_append_right_inj (bk ++ hk)).mp hp
  exact hne (N.prefix_antisymm ha this)

/-- **S1, README layout** (location directly below the base root): a mutator on a name at or below
the location is a no-op on the disk, for every tracked map and every fault plan, and without faults
fails with exactly the hidden error class. -/
theorem loc_mutators_refused_depth1 (bk hk dd : Key) (hr : N.NRoots bk hk dd) (h1 : hk.length = 1) (w : World)
    (hg : N.NGood bk hk dd w.fs) (op : Op) (p : Path) (hm : mutName op = some p)
    (k : Key) (hk' : PKey k) (hname : clean p = kp k) (hloc : hk <+: k) :
    (Op.exec (N.nestedCfg bk hk) op w).1.fs = w.fs ∧
    (∃ e, (Op.exec (N.nestedCfg bk hk) op w).2 = .error e) ∧
    (w.faults = [] → (Op.exec (N.nestedCfg bk hk) op w).2 = .error (locRefusal op)) := by
  obtain ⟨he, _, _, hx, hc, _, _⟩ := loc_mutators_refused bk hk dd hr w hg op p hm k hk' hname hloc
  exact ⟨hx (ancTracked_of_depth1 h1 w), he, fun hnf => hc hnf (ancTracked_of_depth1 h1 w)⟩

/-- **S1, read-only operations** (`Stat`, `Lstat`, `Readlink`, `OpenFile(O_RDONLY)` — `roName op = some p`)
on a name at or below the location, ANY world (no well-formedness needed), any fault plan: the disk,
the tracked map and the fault plan are unchanged, and the result is the error `hiddenNotExist`
(or the injected fault). -/
theorem loc_readonly_refused (bk hk dd : Key) (hr : N.NRoots bk hk dd) (w : World)
    (op : Op) (p : Path) (hm : roName op = some p)
    (k : Key) (hk' : PKey k) (hname : clean p = kp k) (hloc : hk <+: k) :
    let r := Op.exec (N.nestedCfg bk hk) op w
    r.1.fs = w.fs ∧ r.1.infos = w.infos ∧
    (r.2 = .error .hiddenNotExist ∨ (w.faults ≠ [] ∧ r.2 = .error .io)) := by
  obtain ⟨hs, hres⟩ := (sat_ro_hid hr hm hk' hname hloc (w := w)).elim
  refine ⟨hs.fs, hs.infos, ?_⟩
  have : locRefusal op = .hiddenNotExist := by
    cases op <;> simp only [roName] at hm <;> first | (cases hm; done) | skip
    case write q f pm d =>
      split at hm
      · rename_i hf; simp [locRefusal, hf]
      · cases hm
    all_goals rfl
  rw [this] at hres
  exact hres

/-- **S1, `RemoveAll`** of a name at or below the location: returns nil (the refusal counts as "does
not exist"), the disk and the tracked map are unchanged; an error can only be an injected fault. -/
theorem loc_removeAll_nil (bk hk dd : Key) (hr : N.NRoots bk hk dd) (w : World)
    (hg : N.NGood bk hk dd w.fs) (p : Path)
    (k : Key) (hk' : PKey k) (hname : clean p = kp k) (hloc : hk <+: k) :
    let r := Op.exec (N.nestedCfg bk hk) (.removeAll p) w
    r.1.fs = w.fs ∧ r.1.infos = w.infos ∧ (w.faults = [] → r.2 = .ok .unit) ∧
    (∀ e, r.2 = .error e → w.faults ≠ []) := by
  obtain ⟨hs, h1, h2⟩ := (sat_removeAll_hid hr hk' hname hloc hg).elim
  exact ⟨hs.fs, hs.infos, h1, h2⟩

/-- **S1, "cannot see"**: whatever two disks hold at the location (one where the named entry exists,
one where it does not, …), with equally many ancestors tracked and no fault planned the operation
returns the same error on both and changes neither. -/
theorem loc_outcome_independent_of_content (bk hk dd : Key) (hr : N.NRoots bk hk dd) (w w' : World)
    (hg : N.NGood bk hk dd w.fs) (hg' : N.NGood bk hk dd w'.fs)
    (hnf : w.faults = []) (hnf' : w'.faults = []) (ht : AncTracked hk w) (ht' : AncTracked hk w')
    (op : Op) (p : Path) (hm : mutName op = some p)
    (k : Key) (hk' : PKey k) (hname : clean p = kp k) (hloc : hk <+: k) :
    (Op.exec (N.nestedCfg bk hk) op w).2 = (Op.exec (N.nestedCfg bk hk) op w').2 ∧
    (Op.exec (N.nestedCfg bk hk) op w).1.fs = w.fs ∧ (Op.exec (N.nestedCfg bk hk) op w').1.fs = w'.fs := by
  obtain ⟨_, _, _, hx, hc, _, _⟩ := loc_mutators_refused bk hk dd hr w hg op p hm k hk' hname hloc
  obtain ⟨_, _, _, hx', hc', _, _⟩ := loc_mutators_refused bk hk dd hr w' hg' op p hm k hk' hname hloc
  exact ⟨by rw [hc hnf ht, hc' hnf' ht'], hx ht, hx' ht'⟩

/-- **S1, two-name operations.**  `Rename` one of whose names is at or below the location, or is a
proper ancestor of it (`rename_ancestor_refused` at the level of BackupFS), and `Symlink` whose
lexical effective target is at or below the location: the operation fails — after `tryBackup` of
the visible name(s), an ordinary backup — the transaction invariant is kept and the base view is
unchanged at every key (world after any covered history: `N.Inv`). -/
theorem loc_rename_refused (bk hk dd : Key) (hr : N.NRoots bk hk dd) (v0 : View) (w : World)
    (hinv : N.Inv (N.nSim bk hk dd hr) v0 w) (o n : Path) (ko kn : Key) (hko : PKey ko) (hkn : PKey kn)
    (ho : clean o = kp ko) (hn : clean n = kp kn)
    (hbad : hk <+: ko ∨ (ko <+: hk ∧ ko ≠ hk) ∨ hk <+: kn ∨ (kn <+: hk ∧ kn ≠ hk)) :
    let r := Op.exec (N.nestedCfg bk hk) (.rename o n) w
    (∃ e, r.2 = .error e) ∧ N.Inv (N.nSim bk hk dd hr) v0 r.1 ∧
    N.nview bk hk .base r.1.fs = N.nview bk hk .base w.fs := by
  obtain ⟨he, hadv⟩ := (sat_rename_hid hr hinv hko hkn ho hn hbad).elim
  exact ⟨he, hadv.inv, hadv.base⟩

theorem loc_symlink_target_refused (bk hk dd : Key) (hr : N.NRoots bk hk dd) (v0 : View) (w : World)
    (hinv : N.Inv (N.nSim bk hk dd hr) v0 w) (o n : Path) (kn : Key) (hkn : PKey kn) (hn : clean n = kp kn)
    (he : HiddenFS.isHidden (if isAbs o then o else join (dir (kp kn)) o) (N.nhs hk) = .ok true) :
    let r := Op.exec (N.nestedCfg bk hk) (.symlink o n) w
    (∃ e, r.2 = .error e) ∧ N.Inv (N.nSim bk hk dd hr) v0 r.1 ∧
    N.nview bk hk .base r.1.fs = N.nview bk hk .base w.fs := by
  obtain ⟨he', hadv⟩ := (sat_symlink_target_hid hr hinv hkn hn he).elim
  exact ⟨he', hadv.inv, hadv.base⟩

/-! ## S2 — operations on OTHER names: the base side never reaches the location

Primitive level, raw disk, ANY call and ANY name strings (`loc_never_changed_by_base_side`): whatever
BackupFS issues on its base side — `Remove`, `Rename`, `Chmod`, the whole `HiddenFS.RemoveAll` program … —
every node at or below the location is exactly as before.  Writes through handles the base side
returned go to a visible key.  Listings through the base side omit the location.  So everything
that changes at or below the location during an operation comes from BackupFS's own backup-side
calls (the copies it takes and, at Rollback, removes). -/

/-- **S2** every primitive call on the base side leaves every key at or below the location exactly
unchanged (type, content, mode, owner, mtime) -/
theorem loc_never_changed_by_base_side (bk hk dd : Key) (hr : N.NRoots bk hk dd) (m : MFS)
    (hg : N.NGood bk hk dd m) (c : Call) :
    ∀ j, hk <+: j → (((N.nestedCfg bk hk).side .base).call m c).1.get (bk ++ j) = m.get (bk ++ j) :=
  base_call_spares_loc hr hg c

/-- … and so does every write through a handle the base side returned for `Create`/`OpenFile(kp k)`:
such a handle refers to the visible key `bk ++ k` -/
theorem loc_never_changed_by_base_handle (bk hk dd : Key) (hr : N.NRoots bk hk dd) (m m' : MFS)
    (hg : N.NGood bk hk dd m) (k : Key) (hk' : PKey k) (flag perm : Nat) (hd : Handle)
    (he : ((N.nestedCfg bk hk).side .base).call m (.openFile (kp k) flag perm) = (m', .ok (.handle hd))) :
    hd.key = bk ++ k ∧ ¬ hk <+: k ∧
    ∀ (s : Side) (m2 : MFS) (off : Nat) (d : String) (j : Key), hk <+: j →
      (((N.nestedCfg bk hk).side s).hwrite m2 hd off d).1.get (bk ++ j) = m2.get (bk ++ j) := by
  have hH := (N.n_openFile_frame (s := .base) hr hg hk' he).2.2.2 hd rfl
  exact ⟨hH.1, hH.2, fun s m2 off d => base_handle_write_spares_loc hH s m2 off d⟩

/-- **S2, listings** `Readdirnames` through a base-side handle opened as `kp a` returns no name `n`
with `a ++ [n]` at or below the location … -/
theorem listing_omits_loc (bk hk dd : Key) (hr : N.NRoots bk hk dd) (m : MFS) (hg : N.NGood bk hk dd m)
    (hd : Handle) (a : Key) (ha : PKey a) (hl : hd.lname = kp a) (ns : List Name)
    (he : ((N.nestedCfg bk hk).side .base).hreaddirnames m hd = .ok ns) :
    ∀ n ∈ ns, ¬ hk <+: a ++ [n] :=
  S4.listing_omits_loc hr hg ha hl he

/-- … in particular the listing of the location's parent does not contain the location's name -/
theorem listing_of_parent_omits_loc (bk hk dd : Key) (hr : N.NRoots bk hk dd) (m : MFS) (hg : N.NGood bk hk dd m)
    (hd : Handle) (hl : hd.lname = kp hk.dropLast) (ns : List Name)
    (he : ((N.nestedCfg bk hk).side .base).hreaddirnames m hd = .ok ns) :
    hk.getLast hr.nh ∉ ns :=
  S4.listing_of_parent_omits_loc hr hg hl he

/-- **S2, backup side** the mutating calls of `copyDir` on the backup side change nothing outside the
location's subtree, and inside it only keys between the location and the copy's position -/
theorem backup_side_confined_to_loc (bk hk dd : Key) (hr : N.NRoots bk hk dd) (m : MFS) (hg : N.NGood bk hk dd m)
    (a : Key) (ha : PKey a) (hne : a ≠ []) (c : Call)
    (hc : (∃ p, c = .mkdirAll (kp a) p) ∨ (∃ md, c = .chmod (kp a) md) ∨ (∃ u g, c = .chown (kp a) u g) ∨
      (∃ x t, c = .chtimes (kp a) x t)) :
    ∀ j, ¬ (bk ++ hk <+: j ∧ j <+: bk ++ hk ++ a) →
      (((N.nestedCfg bk hk).side .backup).call m c).1.get j = m.get j :=
  backup_frame hr hg ha hne hc

/-! ## operations on ANCESTORS of the location -/

/-- **`RemoveAll` of a proper ancestor of the location** (not the root), world after any covered
history: BackupFS's own walk never names the location (the listing omits it), removes what is
visible, and then fails to remove the ancestor directory itself — `HiddenFS.Remove`, unlike
`HiddenFS.RemoveAll`, knows no "parent of hidden" exemption, so the OS reports ENOTEMPTY.  The operation
ALWAYS returns an error (every fault plan); the transaction invariant holds afterwards, the
location is still a directory, so Rollback restores everything (`rollback_restores_nested_linkfree_partial`). -/
theorem removeAll_of_ancestor_spares_loc (bk hk dd : Key) (hr : N.NRoots bk hk dd) (v0 : View) (w : World)
    (hinv : N.Inv (N.nSim bk hk dd hr) v0 w) (p : Path) (a : Key) (ha : PKey a) (hne : a ≠ [])
    (hpar : a <+: hk ∧ a ≠ hk) (hname : clean p = kp a) :
    let r := Op.exec (N.nestedCfg bk hk) (.removeAll p) w
    (∃ e, r.2 = .error e) ∧ N.Inv (N.nSim bk hk dd hr) v0 r.1 ∧
    (∃ mt, r.1.fs.get (bk ++ hk) = some (.dir mt)) ∧ r.1.faults = w.faults := by
  have hs : Sat (Op.exec (N.nestedCfg bk hk) (.removeAll p)) w (fun w' r =>
      N.Kept (N.nSim bk hk dd hr) v0 w w' ∧ ∃ e, r = .error e) := by
    unfold Op.exec
    apply Sat.bind
    apply (sat_removeAll_par hr hinv ha hne hpar hname).mono
    intro w1 r1 ⟨hk1, e, he⟩
    subst he
    exact ⟨hk1, e, rfl⟩
  obtain ⟨hk1, he⟩ := hs.elim
  exact ⟨he, hk1.inv, hk1.inv.good.loc, hk1.faults⟩

/-- `Rename` of a proper ancestor of the location (either argument): see `loc_rename_refused`. -/
theorem rename_of_ancestor_refused (bk hk dd : Key) (hr : N.NRoots bk hk dd) (v0 : View) (w : World)
    (hinv : N.Inv (N.nSim bk hk dd hr) v0 w) (o n : Path) (ko kn : Key) (hko : PKey ko) (hkn : PKey kn)
    (ho : clean o = kp ko) (hn : clean n = kp kn) (hpar : ko <+: hk ∧ ko ≠ hk) :
    ∃ e, (Op.exec (N.nestedCfg bk hk) (.rename o n) w).2 = .error e :=
  (loc_rename_refused bk hk dd hr v0 w hinv o n ko kn hko hkn ho hn (Or.inr (Or.inl hpar))).1

/-- the reason, kernel-checked on `deepDisk` (location `/d/k`): `Remove("/d")` through the base side is
`os.Remove` of a non-empty directory; and an instance of `removeAll_of_ancestor_spares_loc`:
`RemoveAll("/d")` on that disk returns an error.  (`#eval` of the model: the error is ENOTEMPTY, `/d/g` was
backed up to `/b/d/k/d/g` and removed, `/b/d/k/x` is untouched, no event of the trace names a path
at or below `/d/k`; the walk is a well-founded recursion the kernel does not unfold, hence no `decide`.) -/
theorem remove_of_parent_enotempty :
    ((N.nestedCfg [['b']] [['d'], ['k']]).side .base).call deepDisk (.remove "/d".toList) =
      (deepDisk, .error .notEmpty) :=
  S4.remove_par_notEmpty deepRoots deepDisk_good (a := [['d']]) (by decide) ⟨by decide, by decide⟩

example : ∃ e, (Op.exec (N.nestedCfg [['b']] [['d'], ['k']]) (.removeAll "/d".toList) { fs := deepDisk }).2 = .error e :=
  (removeAll_of_ancestor_spares_loc [['b']] [['d'], ['k']] [['k']] deepRoots _ { fs := deepDisk }
    (N.Inv.init (S := N.nSim [['b']] [['d'], ['k']] [['k']] deepRoots) deepDisk_good rfl)
    "/d".toList [['d']] (by decide) (by decide) ⟨by decide, by decide⟩ (by decide)).1

/-! ## S3 (first half) — nothing at or below the location is ever tracked with a `FileInfo` -/

/-- **S3, tracking.**  After any covered history from a world with nothing tracked: every tracked
path that lies at or below the location (component-wise, `Within`) is tracked as ABSENT — no entry
at or below the location is ever recorded with a `FileInfo`, so Rollback never restores, removes or
copies anything there (an "absent" entry only makes `Rollback` `Lstat` the name through the base,
which is refused).  Hidden names DO get recorded as absent (S1), so "never tracked" is false. -/
theorem loc_never_backed_up (bk hk dd : Key) (hr : N.NRoots bk hk dd)
    (w : World) (hg : N.NGood bk hk dd w.fs) (hinfos : w.infos = []) (ops : List Op)
    (hcov : N.CoveredHist (N.nestedCfg bk hk) (N.nSim bk hk dd hr) w ops) :
    ∀ p oi, (p, oi) ∈ (runOps (N.nestedCfg bk hk) w ops).infos → Within (kp hk) p → oi = none := by
  intro p oi hmem hw
  have inv := nested_invariant_after_history bk hk dd hr w hg hinfos ops hcov
  obtain ⟨k, hk', rfl⟩ := inv.keys p oi hmem
  have hh : hk <+: k := (within_kp hr.ph hk').mp hw
  cases oi with
  | none => rfl
  | some i =>
    exfalso
    have hl := N.lookup_of_mem inv.nodup hmem
    obtain ⟨n, hn, _⟩ := inv.saved k i hk' hl
    have : N.nview bk hk .base w.fs k = none := N.nview_base_hid hh
    rw [this] at hn
    cases hn

/-! ## S3 (second half) and S2 for whole operations — no recursive growth

`loc/loc`: the keys `bk ++ hk ++ y` with `hk <+: y` — where, inside the backup, a copy of something at
or below the location would go.  Operations with absolute names (`AbsOp`: the class `N.Op.Covered`
without its restriction on `Rename`), ANY tracked map, ANY fault plan.  Proof (`Lemmas/S4Seal*.lean`,
relation `RS`): base-side primitives never touch the location's subtree (S2); a backup-side call is
only ever issued for a name whose `Lstat` through the base just succeeded — a visible key `x` —
and changes only keys between `loc` and `loc ++ x` (`Lemmas/S4Base.lean`). -/

/-- **S3/S2, one operation**: from any world with a well-formed disk, the operation leaves every
key at or below `loc/loc` exactly as it is, and the disk well-formed (the location still a directory) -/
theorem op_never_copies_loc (bk hk dd : Key) (hr : N.NRoots bk hk dd) (w : World) (hg : N.NGood bk hk dd w.fs)
    (op : Op) (hc : AbsOp op) :
    N.NGood bk hk dd (Op.exec (N.nestedCfg bk hk) op w).1.fs ∧
    ∀ y, hk <+: y → (Op.exec (N.nestedCfg bk hk) op w).1.fs.get (bk ++ hk ++ y) = w.fs.get (bk ++ hk ++ y) :=
  let r := (op_rs hr hc (RS.refl hg)).elim
  ⟨r.good, r.nest⟩

/-- **S3, histories** `no_recursive_growth`: after any history of operations with absolute names the
keys at or below `loc/loc` hold exactly what they held at the start — the backup never receives a
copy of itself, however often ancestors of the location are operated on -/
theorem no_recursive_growth (bk hk dd : Key) (hr : N.NRoots bk hk dd) (w : World) (hg : N.NGood bk hk dd w.fs)
    (ops : List Op) (hc : AbsHist ops) :
    N.NGood bk hk dd (runOps (N.nestedCfg bk hk) w ops).fs ∧
    ∀ y, hk <+: y → (runOps (N.nestedCfg bk hk) w ops).fs.get (bk ++ hk ++ y) = w.fs.get (bk ++ hk ++ y) :=
  let r := history_rs hr ops w w (RS.refl hg) hc
  ⟨r.good, r.nest⟩

/-- in particular: if the backup holds no `loc/loc/…` entry at the start (e.g. it is empty), it never
will: the backup tree holds only keys that are not themselves at or below the location -/
theorem backup_holds_no_copy_of_loc (bk hk dd : Key) (hr : N.NRoots bk hk dd) (w : World)
    (hg : N.NGood bk hk dd w.fs) (hempty : ∀ y, hk <+: y → w.fs.get (bk ++ hk ++ y) = none)
    (ops : List Op) (hc : N.CoveredHist (N.nestedCfg bk hk) (N.nSim bk hk dd hr) w ops) :
    ∀ y, hk <+: y → (runOps (N.nestedCfg bk hk) w ops).fs.get (bk ++ hk ++ y) = none := by
  intro y hy
  rw [(no_recursive_growth bk hk dd hr w hg ops (AbsHist.of_covered ops w hc)).2 y hy]
  exact hempty y hy

/-- non-vacuity: a history on `deepDisk` that names hidden entries, the location, its parent and
visible entries (both the `AbsHist` hypothesis and, kernel-checked for the walk-free part, the run) -/
example : AbsHist [.mkdir "/d/k/x2".toList 0o755, .creat "/d/n".toList "x", .remove "/d/g".toList,
    .removeAll "/d".toList, .rename "/d".toList "/e".toList, .chmod "/d//k/../k".toList 0, .stat "d/k".toList] := by
  refine ⟨?_, ?_, ⟨?_, ?_⟩, ⟨?_, ?_⟩, ⟨?_, ?_⟩, ?_, trivial, trivial⟩ <;>
    first | (show isAbs _ = true; decide) | decide

example :
    let w := runOps (N.nestedCfg [['b']] [['d'], ['k']]) { fs := deepDisk }
      [.mkdir "/d/k/x2".toList 0o755, .creat "/d/n".toList "x", .remove "/d/g".toList,
       .rename "/d".toList "/e".toList, .chmod "/d//k/../k".toList 0]
    w.fs.get [['b'], ['d'], ['k'], ['d'], ['k']] = none ∧
    w.fs.get [['b'], ['d'], ['k'], ['d'], ['g']] = some (.file "gg" { exMeta with mode := 0o600 }) ∧
    w.fs.get [['b'], ['d'], ['g']] = none ∧ (w.fs.get [['b'], ['d'], ['n']]).isSome := by
  decide +kernel

/-! ## non-vacuity and the witness of the surprise -/

/-- `deepDisk`: base root `/b`, location `/b/d/k` two levels down holding `x`.  `Mkdir("/d/k/x2")`:
refused with `hiddenPerm`; BEFORE the refusal the location's parent `/d` was copied into the backup
(`/b/d/k/d` appears with `/d`'s mode and owner, the location directory is stamped), the hidden names
`/d/k/x2` and `/d/k` were recorded as absent, `/` and `/d` as directories; the visible tree and the
location's own content are untouched. -/
theorem refused_mkdir_backs_up_ancestors :
    let r := Op.exec (N.nestedCfg [['b']] [['d'], ['k']]) (.mkdir "/d/k/x2".toList 0o755) { fs := deepDisk }
    errOf r.2 = some .hiddenPerm ∧
    deepDisk.get [['b'], ['d'], ['k'], ['d']] = none ∧
    r.1.fs.get [['b'], ['d'], ['k'], ['d']] = some (.dir { exMeta with mode := 0o750, uid := 7 }) ∧
    r.1.fs.get [['b'], ['d'], ['k']] = some (.dir { exMeta with mtime := .fresh }) ∧
    r.1.fs.get [['b'], ['d'], ['k'], ['x']] = deepDisk.get [['b'], ['d'], ['k'], ['x']] ∧
    r.1.fs.get [['b'], ['d'], ['k'], ['x', '2']] = none ∧
    r.1.fs.get [['b'], ['d']] = deepDisk.get [['b'], ['d']] ∧
    r.1.infos.map (fun e => (e.1, e.2.map (·.kind))) =
      [("/d/k/x2".toList, none), ("/".toList, some .dir), ("/d".toList, some .dir), ("/d/k".toList, none)] := by
  decide +kernel

/-- the hypotheses of `loc_mutators_refused` hold of that run -/
example : N.NRoots [['b']] [['d'], ['k']] [['k']] ∧ N.NGood [['b']] [['d'], ['k']] [['k']] deepDisk ∧
    mutName (.mkdir "/d/k/x2".toList 0o755) = some "/d/k/x2".toList ∧
    PKey [['d'], ['k'], ['x', '2']] ∧ clean "/d/k/x2".toList = kp [['d'], ['k'], ['x', '2']] ∧
    [['d'], ['k']] <+: [['d'], ['k'], ['x', '2']] ∧
    ParPos [['b']] [['d'], ['k']] [['b'], ['d'], ['k'], ['d']] ∧
    ¬ AncTracked [['d'], ['k']] { fs := deepDisk } :=
  ⟨deepRoots, deepDisk_good, rfl, by decide, by decide, by decide, ⟨[['d']], by decide, by decide, rfl⟩,
    fun h => h [['d']] (by decide) (by decide) (by decide) rfl⟩

/-- the same disk with the location `/b/d` directly below the base root: `Create("/d/k/x")` — of an
entry that exists — and `Mkdir("/d/new")` — of one that does not — are refused alike and the disk
is unchanged (instances of `loc_mutators_refused_depth1`); `RemoveAll("/d")` returns nil; `Stat`
reports `hiddenNotExist` -/
example :
    let cfg := N.nestedCfg [['b']] [['d']]
    errOf (Op.exec cfg (.creat "/d/k/x".toList "zz") { fs := deepDisk }).2 = some .hiddenPerm ∧
    errOf (Op.exec cfg (.mkdir "/d//new/".toList 0o700) { fs := deepDisk }).2 = some .hiddenPerm ∧
    errOf (Op.exec cfg (.remove "/d/g".toList) { fs := deepDisk }).2 = some .hiddenNotExist ∧
    errOf (Op.exec cfg (.removeAll "/d".toList) { fs := deepDisk }).2 = none ∧
    errOf (Op.exec cfg (.stat "/d/g".toList) { fs := deepDisk }).2 = some .hiddenNotExist ∧
    (Op.exec cfg (.creat "/d/k/x".toList "zz") { fs := deepDisk }).1.fs.get [['b'], ['d'], ['k'], ['x']] =
      some (.file "secret" { exMeta with mode := 0o600 }) := by
  decide +kernel

example : (Op.exec (N.nestedCfg [['b']] [['d']]) (.creat "/d/k/x".toList "zz") { fs := deepDisk }).1.fs = deepDisk :=
  (loc_mutators_refused_depth1 [['b']] [['d']] [['k']] deepRoots1 rfl { fs := deepDisk } deepDisk_good1
    (.creat "/d/k/x".toList "zz") "/d/k/x".toList rfl [['d'], ['k'], ['x']] (by decide) (by decide) (by decide)).1

end Props.C04
