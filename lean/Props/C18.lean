import Lemmas
/-!
# C18 — VolumeFS is the identity layer where there are no volumes

On linux `filepath.VolumeName ≡ ""` (validated by the `pure`/`layers` streams for every volume
argument), so `NewVolumeFS(volume, base)` stores `""` and every method cleans its path and
delegates.  The parenthesised half of the property (volume platforms) cannot be executed here and
is not claimed.
-/
namespace Props.C18
open BFS BFS.VolumeFS

/-- T18.1 every method delegates the same call on the cleaned path; a relative link target passes
unchanged, an absolute one is cleaned. There is no refusal. -/
theorem volume_identity (c : Call) :
    translate c = .ok (c.mapPaths clean (fun o => if isAbs o then clean o else o)) := by
  cases c <;> rfl

/-- T18.2 link targets are returned lexically cleaned -/
theorem readlink_cleaned (linked : Path) : readlinkPost linked = clean linked := by
  simp [readlinkPost, trimPrefix]

/-- T18.3 names pass through: no name override ever fires, because a cleaned path is never
empty -/
theorem names_pass_through (name baseName : Path) :
    reportedName (clean name) baseName = baseName := by
  simp [reportedName, PrefixFS.reportedName, clean_ne_nil, hasPrefix]

example : translate (.symlink "a//b".toList "/x//y/".toList) = .ok (.symlink "a//b".toList "/x/y".toList) := by
  decide
example : translate (.open_ "C:/x/../y".toList) = .ok (.open_ "C:/y".toList) := by decide

end Props.C18
