import Lemmas
import Props.C02
import Lemmas.R2Recover
import Lemmas.R2Trace
/-!
# C02 — originals stay recoverable: the per-entry form, and crash points inside Rollback

`Props/C02.lean` proves the ordering facts and the crash-point form for crashes inside operations
("Rollback on the frozen disk restores").  This file adds, on the link-free fragment of C01 (OS model
behind two `PrefixFS` layers, covered histories):

1. the **literal per-entry disjunction** of the property, read off the transaction invariant
   (`recoverable_of_inv`, every fault plan; `recoverable_of_invB`, healthy filesystems, which adds the
   directory copies and "the backup holds nothing else"), and its instance for crash points inside
   operations (`recoverable_at_every_crash_point_in_operations_linkfree_partial`);
2. **crash points inside Rollback**: `recoverable_at_every_crash_point_in_rollback_linkfree_partial`
   (+ `…_healthy_…`, `…_dichotomy_…`): let the process die after any number `n` of the primitive
   calls Rollback issues; on the disk it leaves behind every original is intact in the base or copied
   in the backup;
3. what is true about **I/O faults (not crashes) inside Rollback**: the clean-up loops run although
   a restore step failed, so an original can end up in neither place
   (`fault_in_rollback_loses_original`, a kernel-checked run of the model).

What "copy" means here is what the invariants of C01/C07 record (see NOTES): for a regular file a
regular file with the same *content* at the same path of the backup; for a directory a directory at
the same path of the backup, and that only for histories run on healthy filesystems (`InvB` is
maintained for `faults = []` only).  The tracked map additionally holds a `FileInfo` describing the
original exactly (type, 12 mode bits, uid, gid, file mtime: `InfoFor`), which is what Rollback
restores the metadata from.
-/
namespace Props.C02
open BFS BFS.BackupFS

/-! ### vocabulary -/

/-- the backup tree (root `kk`) of disk `m` holds a copy of `node` at key `k`: a regular file with
the same content, resp. a directory -/
def BackupHolds (m : MFS) (kk k : Key) : Node → Prop
  | .file c _ => ∃ mt, m.get (kk ++ k) = some (.file c mt)
  | .dir _ => ∃ mt, m.get (kk ++ k) = some (.dir mt)
  | .link _ _ => False

/-- the same, claiming nothing about directories (what `Inv` alone gives, under any fault plan) -/
def BackupHoldsFile (m : MFS) (kk k : Key) : Node → Prop
  | .file c _ => ∃ mt, m.get (kk ++ k) = some (.file c mt)
  | _ => True

/-- the base tree (root `bk`) of disk `m` still shows `node` at `k` (directory timestamps erased, as
in C01) -/
def BaseShows (m : MFS) (bk k : Key) (node : Node) : Prop :=
  (m.get (bk ++ k)).map eraseMt = some (eraseMt node)

theorem crashOnly_crashPlan (n : Nat) : CrashOnly (crashPlan n) := by
  intro f hf
  simp only [crashPlan, List.mem_singleton] at hf
  subst hf; rfl

/-- before the crash point the crash plan refuses nothing: the world is not crashed … -/
theorem crashPlan_not_crashed (w : World) (n : Nat) (h : w.faults = crashPlan n) (hn : w.trace.length < n) :
    crashed w = false := by
  unfold crashed; rw [h]; simp [crashPlan]; omega

/-- … and a primitive issued in a world that is not crashed is executed exactly as on healthy
filesystems (same result, same effect on the disk, same bookkeeping) -/
theorem crashPlan_transparent_before_crash (cfg : Cfg) (side : Side) (c : Call) (w : World) (n : Nat)
    (hw : w.faults = []) (hnc : crashed (primCall cfg side c (withFaults (crashPlan n) w)).1 = false) :
    primCall cfg side c (withFaults (crashPlan n) w) =
      (withFaults (crashPlan n) (primCall cfg side c w).1, (primCall cfg side c w).2) :=
  (CS.primCall (crashOnly_crashPlan n) cfg side c).sim w hw hnc

private theorem map_erase_file {x : Option Node} {c : String} {mt : Meta}
    (h : x.map eraseMt = some (.file c mt)) : x = some (.file c mt) := by
  cases x with
  | none => cases h
  | some n =>
    cases n with
    | file c' mt' => simpa [eraseMt] using h
    | dir md => simp [eraseMt] at h
    | link t md => simp [eraseMt] at h

private theorem map_erase_dir {x : Option Node} {md : Meta}
    (h : x.map eraseMt = some (.dir md)) : ∃ md', x = some (.dir md') := by
  cases x with
  | none => cases h
  | some n =>
    cases n with
    | file c' mt' => simp [eraseMt] at h
    | dir md' => exact ⟨md', rfl⟩
    | link t md' => simp [eraseMt] at h

/-! ### 1. the per-entry disjunction from the invariant -/

section
variable (bk kk : Key) (hbk : PKey bk) (hkk : PKey kk)
  (hne1 : bk ≠ []) (hne2 : kk ≠ []) (hd1 : ¬ bk <+: kk) (hd2 : ¬ kk <+: bk)

/-- generic step: from `Inv` at `w` for the original view of `w0`, a statement about a disk `m`
whose backup view is that of `w` and whose base view agrees with `w`'s at untracked originals -/
private theorem entry_of_inv {w0 w : World} {m : MFS}
    (hinv : Inv (osSim bk kk hbk hkk hne1 hne2 hd1 hd2) (osView bk kk .base w0.fs) w)
    (hbackup : ∀ j, osView bk kk .backup m j = osView bk kk .backup w.fs j)
    (hbase : ∀ j, w.infos.lookup (kp j) = none → osView bk kk .base w0.fs j ≠ none →
      osView bk kk .base m j = osView bk kk .base w.fs j)
    (k : Key) (node : Node) (horig : w0.fs.get (bk ++ k) = some node) :
    BaseShows m bk k node ∨
      (∃ i, w.infos.lookup (kp k) = some (some i) ∧ InfoFor i (eraseMt node) ∧ BackupHoldsFile m kk k node) := by
  have hv : osView bk kk .base w0.fs k = some (eraseMt node) := by
    show (w0.fs.get (bk ++ k)).map eraseMt = _
    rw [horig]; rfl
  rcases hinv.recoverable hv with ⟨hu, hb⟩ | ⟨i, hts, hfor, hcopy⟩
  · left
    have := hbase k hu (by rw [hv]; exact Option.some_ne_none _)
    show osView bk kk .base m k = _
    rw [this]; exact hb
  · right
    refine ⟨i, hts, hfor, ?_⟩
    cases node with
    | file c mt =>
      obtain ⟨mt', h⟩ := hcopy c mt rfl
      have h' : osView bk kk .backup m k = some (.file c mt') := by rw [hbackup k]; exact h
      exact ⟨mt', map_erase_file h'⟩
    | dir md => trivial
    | link t md => trivial

/-- **(1) the literal form of the property, from the invariant — every fault plan.**
After any covered history run under ANY fault plan (crash plans included), for every entry `k` below
the base root that existed when the transaction began (`node`): EITHER the base still shows it (type,
content, mode, owner, file mtime), OR it is tracked with a `FileInfo` that describes it exactly
(`InfoFor`: type, 12 mode bits, uid, gid, file mtime) and — if it is a regular file — the backup
holds a regular file with the same content at the same path.

Not claimed here (the invariant `Inv` of C01 does not record it, and `InvB` is maintained on healthy
filesystems only): the mode/owner/mtime of the backup copy of a file, and the existence of the
backup copy of a directory; see `recoverable_of_invB`. -/
theorem recoverable_of_inv
    (w0 : World) (hg : OSGood bk kk w0.fs) (hinfos : w0.infos = []) (ops : List Op)
    (hcov : CoveredHist (osCfg bk kk) (osSim bk kk hbk hkk hne1 hne2 hd1 hd2) w0 ops) :
    ∀ k, k ≠ [] → ∀ node, w0.fs.get (bk ++ k) = some node →
      BaseShows (runOps (osCfg bk kk) w0 ops).fs bk k node ∨
      (∃ i, (runOps (osCfg bk kk) w0 ops).infos.lookup (kp k) = some (some i) ∧ InfoFor i (eraseMt node) ∧
        BackupHoldsFile (runOps (osCfg bk kk) w0 ops).fs kk k node) := by
  intro k _ node horig
  have hinv := (history_keeps ops w0 (Inv.init (S := osSim bk kk hbk hkk hne1 hne2 hd1 hd2) hg hinfos) hcov).inv
  exact entry_of_inv bk kk hbk hkk hne1 hne2 hd1 hd2 hinv (fun _ => rfl) (fun _ _ _ => rfl) k node horig

/-- in particular, for regular files the disjunction of the property as it stands: the file is in
the base, or its content is in the backup -/
theorem file_recoverable_of_inv
    (w0 : World) (hg : OSGood bk kk w0.fs) (hinfos : w0.infos = []) (ops : List Op)
    (hcov : CoveredHist (osCfg bk kk) (osSim bk kk hbk hkk hne1 hne2 hd1 hd2) w0 ops) :
    ∀ k, k ≠ [] → ∀ c mt, w0.fs.get (bk ++ k) = some (.file c mt) →
      (runOps (osCfg bk kk) w0 ops).fs.get (bk ++ k) = some (.file c mt) ∨
      ∃ mt', (runOps (osCfg bk kk) w0 ops).fs.get (kk ++ k) = some (.file c mt') := by
  intro k hk c mt horig
  rcases recoverable_of_inv bk kk hbk hkk hne1 hne2 hd1 hd2 w0 hg hinfos ops hcov k hk _ horig with h | ⟨_, _, _, h⟩
  · exact Or.inl (map_erase_file h)
  · exact Or.inr h

/-- **(1, healthy filesystems) with directory copies, and "the backup never holds anything else".**
After any covered history on healthy filesystems (`faults = []`), backup root empty at the start:
every original is in the base or copied in the backup (regular file: same content; directory: a
directory), and whatever the backup holds below its root sits at the path of a tracked original.
Which attributes of a directory copy are guaranteed: `InvB` records the *existence* of the directory
only (its mode/owner are set by `copyDir` before the entry is recorded, but no invariant keeps them). -/
theorem recoverable_of_invB
    (w0 : World) (hg : OSGood bk kk w0.fs) (hinfos : w0.infos = []) (hnf : w0.faults = [])
    (hempty : ∀ k, k ≠ [] → w0.fs.get (kk ++ k) = none) (ops : List Op)
    (hcov : CoveredHist (osCfg bk kk) (osSim bk kk hbk hkk hne1 hne2 hd1 hd2) w0 ops) :
    (∀ k, k ≠ [] → ∀ node, w0.fs.get (bk ++ k) = some node →
      BaseShows (runOps (osCfg bk kk) w0 ops).fs bk k node ∨ BackupHolds (runOps (osCfg bk kk) w0 ops).fs kk k node) ∧
    (∀ k, k ≠ [] → (runOps (osCfg bk kk) w0 ops).fs.get (kk ++ k) ≠ none →
      ∃ i node, (runOps (osCfg bk kk) w0 ops).infos.lookup (kp k) = some (some i) ∧
        w0.fs.get (bk ++ k) = some node ∧ InfoFor i (eraseMt node)) := by
  have hB := (history_keepsB ops w0 (InvB.init (S := osSim bk kk hbk hkk hne1 hne2 hd1 hd2) hg hinfos hnf
    (fun k hk => by show (w0.fs.get (kk ++ k)).map eraseMt = none; rw [hempty k hk]; rfl)) hcov).inv
  refine ⟨?_, ?_⟩
  · intro k hk node horig
    rcases entry_of_inv bk kk hbk hkk hne1 hne2 hd1 hd2 hB.inv (fun _ => rfl) (fun _ _ _ => rfl) k node horig with
      h | ⟨i, hts, hfor, hcopy⟩
    · exact Or.inl h
    · right
      cases node with
      | file c mt => exact hcopy
      | dir md =>
        have hpk : PKey k := hB.inv.v0_pkey (k := k) (by
          show (w0.fs.get (bk ++ k)).map eraseMt ≠ none
          rw [horig]; simp)
        obtain ⟨md', hd⟩ := hB.b.bdirs k i hpk hk hts hfor.1
        exact map_erase_dir hd
      | link t md =>
        exfalso
        exact hg.nolink (bk ++ k) t md (Or.inl (List.prefix_append _ _)) horig
  · intro k hk hp
    have hp' : osView bk kk .backup (runOps (osCfg bk kk) w0 ops).fs k ≠ none := by
      show ((runOps (osCfg bk kk) w0 ops).fs.get (kk ++ k)).map eraseMt ≠ none
      intro e; exact hp (Option.map_eq_none_iff.mp e)
    obtain ⟨i, hts⟩ := hB.b.bonly k hk hp'
    have hpk : PKey k := (osSim bk kk hbk hkk hne1 hne2 hd1 hd2).pkey hB.inv.good hp'
    obtain ⟨n, hn, hfor, _⟩ := hB.inv.ts_node hpk hts
    have hn' : (w0.fs.get (bk ++ k)).map eraseMt = some n := hn
    cases hraw : w0.fs.get (bk ++ k) with
    | none => rw [hraw] at hn'; cases hn'
    | some node =>
      rw [hraw] at hn'
      simp only [Option.map_some, Option.some.injEq] at hn'
      exact ⟨i, node, hts, rfl, hn' ▸ hfor⟩

/-- **(1, crash points inside operations).**  `Inv` holds under every fault plan and `crashPlan n` is
one: let the process die after any number `n` of primitive calls of any covered history (the disk is
frozen from then on: `crashed_frozen`); on the disk it leaves behind every original is in the base,
or tracked with an exact description and — regular files — copied in the backup. -/
theorem recoverable_at_every_crash_point_in_operations_linkfree_partial
    (w0 : World) (hg : OSGood bk kk w0.fs) (hinfos : w0.infos = []) (n : Nat) (hplan : w0.faults = crashPlan n)
    (ops : List Op) (hcov : CoveredHist (osCfg bk kk) (osSim bk kk hbk hkk hne1 hne2 hd1 hd2) w0 ops) :
    ∀ k, k ≠ [] → ∀ node, w0.fs.get (bk ++ k) = some node →
      BaseShows (runOps (osCfg bk kk) w0 ops).fs bk k node ∨
      (∃ i, (runOps (osCfg bk kk) w0 ops).infos.lookup (kp k) = some (some i) ∧ InfoFor i (eraseMt node) ∧
        BackupHoldsFile (runOps (osCfg bk kk) w0 ops).fs kk k node) :=
  recoverable_of_inv bk kk hbk hkk hne1 hne2 hd1 hd2 w0 hg hinfos ops hcov

/-! ### 2. crash points inside Rollback -/

/-- T02R.split  `Rollback` is its restore half (classification loop, then the loops that remove
created paths and restore directories, files, symlinks) followed by its clean-up half (the loops
that delete the backup copies, then the reset of the tracked map) -/
theorem rollback_is_restore_then_cleanup (cfg : Cfg) (w : World) :
    rollback cfg w = (restorePart cfg w.infos >>= cleanupPart cfg) w :=
  rollback_split cfg w

/-- T02R.trace1  (every configuration, world and fault plan) the restore half never issues a
mutating call on the backup filesystem: the copies are only opened, stat'ed, read and closed while
the base is being put back … -/
theorem restore_half_never_writes_backup (cfg : Cfg) (w : World) :
    Extends (fun e => e.sig.side = .base ∨ e.mutating = false) w (restorePart cfg w.infos w).1 :=
  restorePart_logs cfg w.infos w

/-- T02R.trace2  … and the clean-up half never issues a call on the base filesystem -/
theorem cleanup_half_never_touches_base (cfg : Cfg) (r : RestoreRes) (w : World) :
    Extends (fun e => e.sig.side = .backup) w (cleanupPart cfg r w).1 :=
  cleanupPart_logs cfg r w

/-- the world in which Rollback starts and dies after `n` more primitive calls -/
def dieAfter (w : World) (n : Nat) : World := { w with faults := crashPlan (w.trace.length + n) }

theorem dieAfter_not_crashed_yet (w : World) (n : Nat) (hn : 0 < n) : crashed (dieAfter w n) = false :=
  crashPlan_not_crashed _ _ rfl (by show w.trace.length < w.trace.length + n; omega)

/-- **(2, the dichotomy).**  After any covered history (run under any fault plan), start Rollback
and let the process die after `n` more primitive calls, for ANY `n`.  On the disk left behind:
EITHER every entry of the base below its root is what it was when the transaction began (the crash
point lies in the clean-up loops, or Rollback finished), OR the backup tree is exactly what it was
when Rollback began and the base is unchanged at every original entry that is not tracked (the crash
point lies in the restore loops, which never write to the backup). -/
theorem crash_in_rollback_dichotomy_linkfree_partial
    (w0 : World) (hg : OSGood bk kk w0.fs) (hinfos : w0.infos = []) (ops : List Op)
    (hcov : CoveredHist (osCfg bk kk) (osSim bk kk hbk hkk hne1 hne2 hd1 hd2) w0 ops) (n : Nat) :
    (∀ k, k ≠ [] →
      ((rollback (osCfg bk kk) (dieAfter (runOps (osCfg bk kk) w0 ops) n)).1.fs.get (bk ++ k)).map eraseMt =
        (w0.fs.get (bk ++ k)).map eraseMt) ∨
    ((∀ j, ((rollback (osCfg bk kk) (dieAfter (runOps (osCfg bk kk) w0 ops) n)).1.fs.get (kk ++ j)).map eraseMt =
        ((runOps (osCfg bk kk) w0 ops).fs.get (kk ++ j)).map eraseMt) ∧
     (∀ j, (runOps (osCfg bk kk) w0 ops).infos.lookup (kp j) = none → w0.fs.get (bk ++ j) ≠ none →
        ((rollback (osCfg bk kk) (dieAfter (runOps (osCfg bk kk) w0 ops) n)).1.fs.get (bk ++ j)).map eraseMt =
          ((runOps (osCfg bk kk) w0 ops).fs.get (bk ++ j)).map eraseMt)) := by
  have hinv := (history_keeps ops w0 (Inv.init (S := osSim bk kk hbk hkk hne1 hne2 hd1 hd2) hg hinfos) hcov).inv
  obtain ⟨_, h | ⟨hb, hf⟩⟩ := rollback_crash_dichotomy (cfg := osCfg bk kk) hinv
    (crashOnly_crashPlan ((runOps (osCfg bk kk) w0 ops).trace.length + n))
  · exact Or.inl h
  · refine Or.inr ⟨hb, ?_⟩
    intro j hu hv
    apply hf j
    apply hinv.untracked_not_in_foot hu
    show (w0.fs.get (bk ++ j)).map eraseMt ≠ none
    intro e; exact hv (Option.map_eq_none_iff.mp e)

/-- **(2) originals stay recoverable at every crash point inside Rollback.**  Any covered history,
run under any fault plan; then Rollback, the process dying after `n` more primitive calls — in the
classification loop, in the middle of a `restoreFile`, between two loops, in the clean-up, or not at
all (`n` large): on the frozen disk every entry `k` that existed when the transaction began is intact
in the base, or was tracked with an exact description when Rollback began and — regular files — is
copied in the backup. -/
theorem recoverable_at_every_crash_point_in_rollback_linkfree_partial
    (w0 : World) (hg : OSGood bk kk w0.fs) (hinfos : w0.infos = []) (ops : List Op)
    (hcov : CoveredHist (osCfg bk kk) (osSim bk kk hbk hkk hne1 hne2 hd1 hd2) w0 ops) (n : Nat) :
    ∀ k, k ≠ [] → ∀ node, w0.fs.get (bk ++ k) = some node →
      BaseShows (rollback (osCfg bk kk) (dieAfter (runOps (osCfg bk kk) w0 ops) n)).1.fs bk k node ∨
      (∃ i, (runOps (osCfg bk kk) w0 ops).infos.lookup (kp k) = some (some i) ∧ InfoFor i (eraseMt node) ∧
        BackupHoldsFile (rollback (osCfg bk kk) (dieAfter (runOps (osCfg bk kk) w0 ops) n)).1.fs kk k node) := by
  intro k hk node horig
  have hinv := (history_keeps ops w0 (Inv.init (S := osSim bk kk hbk hkk hne1 hne2 hd1 hd2) hg hinfos) hcov).inv
  rcases crash_in_rollback_dichotomy_linkfree_partial bk kk hbk hkk hne1 hne2 hd1 hd2 w0 hg hinfos ops hcov n with
    h | ⟨hb, hf⟩
  · left
    show ((rollback (osCfg bk kk) (dieAfter (runOps (osCfg bk kk) w0 ops) n)).1.fs.get (bk ++ k)).map eraseMt = _
    rw [h k hk, horig]; rfl
  · exact entry_of_inv bk kk hbk hkk hne1 hne2 hd1 hd2 hinv hb
      (fun j hu hv => hf j hu (by
        intro e
        apply hv
        show (w0.fs.get (bk ++ j)).map eraseMt = none
        rw [e]; rfl)) k node horig

/-- for regular files, the disjunction of the property as it stands -/
theorem file_recoverable_at_every_crash_point_in_rollback_linkfree_partial
    (w0 : World) (hg : OSGood bk kk w0.fs) (hinfos : w0.infos = []) (ops : List Op)
    (hcov : CoveredHist (osCfg bk kk) (osSim bk kk hbk hkk hne1 hne2 hd1 hd2) w0 ops) (n : Nat) :
    ∀ k, k ≠ [] → ∀ c mt, w0.fs.get (bk ++ k) = some (.file c mt) →
      (rollback (osCfg bk kk) (dieAfter (runOps (osCfg bk kk) w0 ops) n)).1.fs.get (bk ++ k) = some (.file c mt) ∨
      ∃ mt', (rollback (osCfg bk kk) (dieAfter (runOps (osCfg bk kk) w0 ops) n)).1.fs.get (kk ++ k) = some (.file c mt') := by
  intro k hk c mt horig
  rcases recoverable_at_every_crash_point_in_rollback_linkfree_partial bk kk hbk hkk hne1 hne2 hd1 hd2 w0 hg hinfos
    ops hcov n k hk _ horig with h | ⟨_, _, _, h⟩
  · exact Or.inl (map_erase_file h)
  · exact Or.inr h

/-- **(2, healthy filesystems until the crash) with directory copies**: the history ran without
faults on an initially empty backup; Rollback dies after `n` more primitive calls: every original —
file or directory — is intact in the base or copied in the backup (file: same content; directory: a
directory at the same path). -/
theorem recoverable_at_every_crash_point_in_rollback_healthy_linkfree_partial
    (w0 : World) (hg : OSGood bk kk w0.fs) (hinfos : w0.infos = []) (hnf : w0.faults = [])
    (hempty : ∀ k, k ≠ [] → w0.fs.get (kk ++ k) = none) (ops : List Op)
    (hcov : CoveredHist (osCfg bk kk) (osSim bk kk hbk hkk hne1 hne2 hd1 hd2) w0 ops) (n : Nat) :
    ∀ k, k ≠ [] → ∀ node, w0.fs.get (bk ++ k) = some node →
      BaseShows (rollback (osCfg bk kk) (dieAfter (runOps (osCfg bk kk) w0 ops) n)).1.fs bk k node ∨
      BackupHolds (rollback (osCfg bk kk) (dieAfter (runOps (osCfg bk kk) w0 ops) n)).1.fs kk k node := by
  intro k hk node horig
  have hB := (history_keepsB ops w0 (InvB.init (S := osSim bk kk hbk hkk hne1 hne2 hd1 hd2) hg hinfos hnf
    (fun k hk => by show (w0.fs.get (kk ++ k)).map eraseMt = none; rw [hempty k hk]; rfl)) hcov).inv
  rcases crash_in_rollback_dichotomy_linkfree_partial bk kk hbk hkk hne1 hne2 hd1 hd2 w0 hg hinfos ops hcov n with
    h | ⟨hb, hf⟩
  · left
    show ((rollback (osCfg bk kk) (dieAfter (runOps (osCfg bk kk) w0 ops) n)).1.fs.get (bk ++ k)).map eraseMt = _
    rw [h k hk, horig]; rfl
  · rcases entry_of_inv bk kk hbk hkk hne1 hne2 hd1 hd2 hB.inv hb
      (fun j hu hv => hf j hu (by
        intro e
        apply hv
        show (w0.fs.get (bk ++ j)).map eraseMt = none
        rw [e]; rfl)) k node horig with h | ⟨i, hts, hfor, hcopy⟩
    · exact Or.inl h
    · right
      cases node with
      | file c mt => exact hcopy
      | dir md =>
        have hpk : PKey k := hB.inv.v0_pkey (k := k) (by
          show (w0.fs.get (bk ++ k)).map eraseMt ≠ none
          rw [horig]; simp)
        obtain ⟨md', hd⟩ := hB.b.bdirs k i hpk hk hts hfor.1
        have hd' : ((rollback (osCfg bk kk) (dieAfter (runOps (osCfg bk kk) w0 ops) n)).1.fs.get (kk ++ k)).map eraseMt
            = some (.dir md') := (hb k).trans hd
        exact map_erase_dir hd'
      | link t md =>
        exfalso
        exact hg.nolink (bk ++ k) t md (Or.inl (List.prefix_append _ _)) horig

end

/-! ### non-vacuity: a concrete disk, history and crash points inside Rollback

`exDisk`: `/b` (base root) with the file `/b/f` = "hello" and the directory `/b/d`, `/k` (backup
root, empty).  The transaction overwrites `/f` and creates `/n`.  Rollback then issues 17 primitive
calls: `base.lstat /` (the root is tracked: it has to exist), `base.lstat /n`, `base.remove /n`, `backup.open /f`, `backup.fstat /f`, `base.lstat /f`,
`base.openfile /f` (truncating), `backup.read /f`, `base.write /f`, `backup.read /f`, `base.close /f`,
`base.lstat /f` ×2, `base.chtimes /f`, `backup.close /f` | `backup.lstat /f`, `backup.remove /f`. -/

/-- content of the regular file at an absolute disk key, if there is one -/
def contentAt (m : MFS) (k : Key) : Option String :=
  match m.get k with
  | some (.file c _) => some c
  | _ => none

def exOpsR : List Op := [.write "/f".toList (O_WRONLY ||| O_TRUNC) 0 "y", .creat "/n".toList "x"]

/-- the world after the example history -/
def exAfterOps : World := runOps (osCfg [['b']] [['k']]) { fs := exDisk } exOpsR

/-- Rollback of the example transaction, dying after `n` primitive calls -/
def exCrashRollback (n : Nat) : World := (rollback (osCfg [['b']] [['k']]) (dieAfter exAfterOps n)).1

/-- the hypotheses of the theorems hold of the example -/
example : OSGood [['b']] [['k']] exDisk ∧
    CoveredHist (osCfg [['b']] [['k']]) osSim_example { fs := exDisk } exOpsR ∧
    (∀ k, k ≠ [] → exDisk.get ([['k']] ++ k) = none) := by
  refine ⟨osGood_example, ⟨?_, ?_, trivial⟩, ?_⟩
  · show isAbs _ = true; decide
  · show isAbs _ = true; decide
  · intro k hk
    cases h : exDisk.get ([['k']] ++ k) with
    | none => rfl
    | some n =>
      exfalso
      rcases exDisk_live h with ⟨e, _⟩ | ⟨e, _⟩ | ⟨e, _⟩ | ⟨e, _⟩ | ⟨e, _⟩ <;> simp at e
      exact hk e

/-- crash point in the middle of `restoreFile` (after the truncating `OpenFile`, before the write):
Rollback starts in a world that is not crashed and ends crashed; the base file is *not* the original
(it is empty) — the second disjunct is the one that holds: the backup still has "hello". -/
example : crashed (dieAfter exAfterOps 8) = false ∧ crashed (exCrashRollback 8) = true ∧
    contentAt exDisk [['b'], ['f']] = some "hello" ∧
    contentAt (exCrashRollback 8).fs [['b'], ['f']] = some "" ∧
    contentAt (exCrashRollback 8).fs [['k'], ['f']] = some "hello" ∧
    (exCrashRollback 8).fs.get [['b'], ['n']] = none := by
  decide +kernel

/-- crash point in the clean-up loops (after `backup.lstat /f`, before `backup.remove /f` … and one
call later, after it): the base is completely restored — the first disjunct holds — whether or not
the backup copy is still there. -/
example : crashed (dieAfter exAfterOps 16) = false ∧ crashed (exCrashRollback 16) = true ∧
    (exCrashRollback 16).fs.get [['b'], ['f']] = exDisk.get [['b'], ['f']] ∧
    (exCrashRollback 16).fs.get [['b'], ['n']] = none ∧
    ((exCrashRollback 16).fs.get [['k'], ['f']]).isSome = true ∧
    crashed (exCrashRollback 17) = true ∧
    (exCrashRollback 17).fs.get [['b'], ['f']] = exDisk.get [['b'], ['f']] ∧
    (exCrashRollback 17).fs.get [['k'], ['f']] = none := by
  decide +kernel

/-- and a crash plan that never fires: Rollback runs to its end, not crashed -/
example : crashed (exCrashRollback 18) = false ∧
    (exCrashRollback 18).fs.get [['b'], ['f']] = exDisk.get [['b'], ['f']] := by
  decide +kernel

/-! ### 3. I/O faults (not crashes) inside Rollback: an original can be lost

The property speaks of instants, not of I/O errors, and the theorems above are about crashes.  For
*faults* the analogous statement is false of the code: `Rollback` runs its clean-up loops although a
restore step failed ("in case of a multiError we are not able to restore the previous state anyway"),
so the backup copy of a file that could not be restored is deleted.  Concretely: `/f` = "hello";
the transaction `Create("/f")` + write "x"; during Rollback the base filesystem refuses the
`OpenFile("/f", O_RDWR|O_CREATE|O_TRUNC, 0644)` of `restoreFile` (one EIO).  Rollback reports an error,
the base keeps "x", and the backup copy "hello" is gone: the original is in neither place. -/

def exFaultOps : List Op := [.creat "/f".toList "x"]

/-- the single fault: the first `OpenFile(/f, O_RDWR|O_CREATE|O_TRUNC = 578, 0644 = 420)` on the base -/
def exFault : List Fault := [⟨⟨.base, "openfile", ["/f".toList, "578".toList, "420".toList]⟩, 0⟩]

def exFaultyRollback : World × Except Err Bool :=
  rollback (osCfg [['b']] [['k']])
    { runOps (osCfg [['b']] [['k']]) { fs := exDisk } exFaultOps with faults := exFault }

theorem fault_in_rollback_loses_original :
    -- before Rollback: the original content is in the backup, the base holds the new content
    contentAt exDisk [['b'], ['f']] = some "hello" ∧
    contentAt (runOps (osCfg [['b']] [['k']]) { fs := exDisk } exFaultOps).fs [['k'], ['f']] = some "hello" ∧
    -- Rollback reports an error, exactly one primitive was refused …
    exFaultyRollback.2 = .ok true ∧
    (exFaultyRollback.1.trace.filter (fun e => e.failed)).length = 1 ∧
    -- … the base still holds the transaction's content, and the backup copy has been deleted
    contentAt exFaultyRollback.1.fs [['b'], ['f']] = some "x" ∧
    exFaultyRollback.1.fs.get [['k'], ['f']] = none ∧
    -- and nothing is tracked any more: a second Rollback cannot help
    exFaultyRollback.1.infos = [] := by
  decide +kernel

end Props.C02
