import Lemmas
import Props.C02
import Props.C02R
import Lemmas.X2Ops
/-!
# C02 — the backup copies are EXACT, are never overwritten, and the backup holds nothing else

`Props/C02.lean` / `Props/C02R.lean` prove the per-entry disjunction with "copy" meaning: the tracked
`FileInfo` describes the original exactly and — regular files — the backup holds a file with the same
*content*.  This file closes the gap those files name ("not in any invariant: mode/owner/mtime of the
backup COPIES"), on the same link-free fragment (OS model behind two `PrefixFS` layers, covered
histories), and **for every fault plan** (crash plans included):

* X1 `backup_copies_exact_linkfree_partial` (+ `_fields`, `_dir_`): every non-root key tracked with a
  `FileInfo` holds, at the same path of the backup tree, EXACTLY the node the base tree held when the
  transaction began — type, content, all twelve mode bits (set-uid/set-gid/sticky included), uid, gid
  and, for regular files, the modification time; directory timestamps are exempt (`eraseMt`), as
  everywhere in C01.  Uniform form: `backup_copy_is_original_linkfree_partial`.
* X2 `copy_never_overwritten_linkfree_partial`: once a key is tracked with a `FileInfo`, the backup node
  at that path is the same (up to directory timestamps; exactly the same for regular files) at every
  later state of the history (`runOps` never runs `Rollback`; `ForceBackup` is not a covered operation).
* X3 `backup_holds_only_exact_copies_linkfree_partial`: on HEALTHY filesystems, everything below the
  backup root is such an exact copy of a tracked original.  The fault-free hypothesis is forced:
  `failed_copy_leaves_inexact_orphan` (kernel-checked) — a refused `Chmod` inside `copyFile` leaves an
  untracked backup file with the set-id bits missing.  What survives of X3 under every fault plan:
  `backup_holds_only_entries_at_paths_of_originals_linkfree_partial` (same path, same type).
* X4 `backup_copies_exact_at_every_crash_point_linkfree_partial`: X1 for `crashPlan n`, every `n`.

How (Lemmas/X2*.lean): `Lemmas/Copy.lean` already proves, for every fault plan, that a `copyFile`
(`copyDir`) that RETURNS ok leaves `restoredFile data i` (`restoredDir i`) — content and the four metadata
fields taken from the `FileInfo`; the invariant `Inv` merely forgot the metadata.  The new invariant
`XInv` keeps it: `exact` (backup view at a key tracked with an info = original view there) and `kind`
(orphans of failed copies have the type of the original — needed so that the next copy at that path
still meets the preconditions of the filesystem contract).  A copy is recorded only after it returned
ok, later copies touch other keys only (`Chg (· = k)`; a child's creation touches the parent's mtime
only, which the views erase), base calls do not touch the backup view.

On modification times.  The model's `Time` is `old ns | fresh`; `fresh` stands for "some time stamped
during the case" and two `fresh` values are never compared by the code under test (`timeEq`).  For an
original with `mtime = .old ns` the theorems state the real thing: the copy's mtime is `.old ns`
(`copyFile` runs `Chtimes` LAST, after the write, the chown and the chmod, all of which stamp the file).
For an original whose mtime is `fresh` the equation reads `fresh = fresh` and carries no information
about the two real timestamps (the model executes the `Chtimes(fresh)` but does not log it: `isGhost`).
See `backup_copy_mtime_old`.
-/
namespace Props.C02
open BFS BFS.BackupFS

/-! ### vocabulary -/

/-- below its root `kk` the backup tree of `m` holds only entries that sit at the path of an entry of
the base tree (root `bk`) of the same type; in particular an empty backup root -/
def BackupTyped (m : MFS) (bk kk : Key) : Prop :=
  ∀ k n, k ≠ [] → m.get (kk ++ k) = some n → ∃ n0, m.get (bk ++ k) = some n0 ∧ n0.kind = n.kind

theorem backupTyped_of_empty {m : MFS} {bk kk : Key} (h : ∀ k, k ≠ [] → m.get (kk ++ k) = none) :
    BackupTyped m bk kk := by
  intro k n hk hn
  rw [h k hk] at hn; cases hn

private theorem kind_eraseMt (n : Node) : (eraseMt n).kind = n.kind := by cases n <;> rfl

private theorem map_erase_file' {x : Option Node} {c : String} {mt : Meta}
    (h : x.map eraseMt = some (.file c mt)) : x = some (.file c mt) := by
  cases x with
  | none => cases h
  | some n =>
    cases n with
    | file c' mt' => simpa [eraseMt] using h
    | dir md => simp [eraseMt] at h
    | link t md => simp [eraseMt] at h

private theorem map_erase_dir' {x : Option Node} {md : Meta}
    (h : x.map eraseMt = some (eraseMt (.dir md))) :
    ∃ md', x = some (.dir md') ∧ md'.mode = md.mode ∧ md'.uid = md.uid ∧ md'.gid = md.gid := by
  cases x with
  | none => cases h
  | some n =>
    cases n with
    | file c' mt' => simp [eraseMt] at h
    | dir md' =>
      refine ⟨md', rfl, ?_⟩
      simp only [Option.map_some, eraseMt, Option.some.injEq, Node.dir.injEq, Meta.mk.injEq] at h
      exact ⟨h.1, h.2.1, h.2.2.1⟩
    | link t md' => simp [eraseMt] at h

section
variable (bk kk : Key) (hbk : PKey bk) (hkk : PKey kk)
  (hne1 : bk ≠ []) (hne2 : kk ≠ []) (hd1 : ¬ bk <+: kk) (hd2 : ¬ kk <+: bk)

/-- the invariant `InvX` after any covered history, under any fault plan -/
theorem exactness_invariant_after_history
    (w0 : World) (hg : OSGood bk kk w0.fs) (hinfos : w0.infos = []) (htyped : BackupTyped w0.fs bk kk)
    (ops : List Op) (hcov : CoveredHist (osCfg bk kk) (osSim bk kk hbk hkk hne1 hne2 hd1 hd2) w0 ops) :
    KeptX (osSim bk kk hbk hkk hne1 hne2 hd1 hd2) (osView bk kk .base w0.fs) w0 (runOps (osCfg bk kk) w0 ops) := by
  apply history_keepsX ops w0 _ hcov
  apply InvX.init_typed (S := osSim bk kk hbk hkk hne1 hne2 hd1 hd2) hg hinfos
  intro k n hk hn
  have hn' : (w0.fs.get (kk ++ k)).map eraseMt = some n := hn
  cases hraw : w0.fs.get (kk ++ k) with
  | none => rw [hraw] at hn'; cases hn'
  | some nb =>
    rw [hraw] at hn'
    simp only [Option.map_some, Option.some.injEq] at hn'
    obtain ⟨n0, hn0, hkind⟩ := htyped k nb hk hraw
    refine ⟨eraseMt n0, ?_, ?_⟩
    · show (w0.fs.get (bk ++ k)).map eraseMt = _
      rw [hn0]; rfl
    · rw [kind_eraseMt, hkind, ← hn', kind_eraseMt]

/-! ### X1 — the copies are exact (every fault plan) -/

/-- **X1, uniform form.**  After any covered history run under ANY fault plan, from a backup tree that
is empty (or, more generally, `BackupTyped`): at every non-root key tracked with a `FileInfo` the
backup tree shows the node the base tree showed when the transaction began (directory timestamps
erased on both sides). -/
theorem backup_copy_is_original_linkfree_partial
    (w0 : World) (hg : OSGood bk kk w0.fs) (hinfos : w0.infos = []) (htyped : BackupTyped w0.fs bk kk)
    (ops : List Op) (hcov : CoveredHist (osCfg bk kk) (osSim bk kk hbk hkk hne1 hne2 hd1 hd2) w0 ops) :
    ∀ k i, PKey k → k ≠ [] → (runOps (osCfg bk kk) w0 ops).infos.lookup (kp k) = some (some i) →
      ((runOps (osCfg bk kk) w0 ops).fs.get (kk ++ k)).map eraseMt = (w0.fs.get (bk ++ k)).map eraseMt := by
  intro k i hpk hk hts
  exact (exactness_invariant_after_history bk kk hbk hkk hne1 hne2 hd1 hd2 w0 hg hinfos htyped ops hcov).inv.x.exact
    k i hpk hk hts

/-- **X1 (regular files).**  Every fault plan, backup root empty at the start, any covered history:
if `k ≠ []` is tracked with a `FileInfo` and the original was the regular file `.file c mt`, then the
backup holds `.file c mt` at the same path — same content, all twelve mode bits, uid, gid, mtime. -/
theorem backup_copies_exact_linkfree_partial
    (w0 : World) (hg : OSGood bk kk w0.fs) (hinfos : w0.infos = [])
    (hempty : ∀ k, k ≠ [] → w0.fs.get (kk ++ k) = none)
    (ops : List Op) (hcov : CoveredHist (osCfg bk kk) (osSim bk kk hbk hkk hne1 hne2 hd1 hd2) w0 ops) :
    ∀ k i c mt, k ≠ [] → (runOps (osCfg bk kk) w0 ops).infos.lookup (kp k) = some (some i) →
      w0.fs.get (bk ++ k) = some (.file c mt) →
      (runOps (osCfg bk kk) w0 ops).fs.get (kk ++ k) = some (.file c mt) := by
  intro k i c mt hk hts horig
  have hpk : PKey k := (hg.pkey _ _ horig).right
  have h := backup_copy_is_original_linkfree_partial bk kk hbk hkk hne1 hne2 hd1 hd2 w0 hg hinfos
    (backupTyped_of_empty hempty) ops hcov k i hpk hk hts
  rw [horig] at h
  exact map_erase_file' h

/-- X1 (regular files), field by field, as the property lists them -/
theorem backup_copies_exact_fields_linkfree_partial
    (w0 : World) (hg : OSGood bk kk w0.fs) (hinfos : w0.infos = [])
    (hempty : ∀ k, k ≠ [] → w0.fs.get (kk ++ k) = none)
    (ops : List Op) (hcov : CoveredHist (osCfg bk kk) (osSim bk kk hbk hkk hne1 hne2 hd1 hd2) w0 ops) :
    ∀ k i c mt, k ≠ [] → (runOps (osCfg bk kk) w0 ops).infos.lookup (kp k) = some (some i) →
      w0.fs.get (bk ++ k) = some (.file c mt) →
      ∃ mt', (runOps (osCfg bk kk) w0 ops).fs.get (kk ++ k) = some (.file c mt') ∧
        mt'.mode = mt.mode ∧ mt'.uid = mt.uid ∧ mt'.gid = mt.gid ∧ mt'.mtime = mt.mtime :=
  fun k i c mt hk hts horig =>
    ⟨mt, backup_copies_exact_linkfree_partial bk kk hbk hkk hne1 hne2 hd1 hd2 w0 hg hinfos hempty ops hcov
      k i c mt hk hts horig, rfl, rfl, rfl, rfl⟩

/-- what X1 says about times that mean something: an original last modified at the instant `ns`
(before the case began) has a copy with exactly that modification time -/
theorem backup_copy_mtime_old
    (w0 : World) (hg : OSGood bk kk w0.fs) (hinfos : w0.infos = [])
    (hempty : ∀ k, k ≠ [] → w0.fs.get (kk ++ k) = none)
    (ops : List Op) (hcov : CoveredHist (osCfg bk kk) (osSim bk kk hbk hkk hne1 hne2 hd1 hd2) w0 ops) :
    ∀ k i c mt ns, k ≠ [] → (runOps (osCfg bk kk) w0 ops).infos.lookup (kp k) = some (some i) →
      w0.fs.get (bk ++ k) = some (.file c mt) → mt.mtime = .old ns →
      ∃ mt', (runOps (osCfg bk kk) w0 ops).fs.get (kk ++ k) = some (.file c mt') ∧ mt'.mtime = .old ns :=
  fun k i c mt _ hk hts horig hns =>
    ⟨mt, backup_copies_exact_linkfree_partial bk kk hbk hkk hne1 hne2 hd1 hd2 w0 hg hinfos hempty ops hcov
      k i c mt hk hts horig, hns⟩

/-- **X1 (directories).**  Every fault plan: a non-root key tracked with a `FileInfo` whose original
was a directory is a directory in the backup with the same twelve mode bits (sticky, set-gid
included), uid and gid.  (Directory timestamps are exempt.) -/
theorem backup_dir_copies_exact_linkfree_partial
    (w0 : World) (hg : OSGood bk kk w0.fs) (hinfos : w0.infos = [])
    (hempty : ∀ k, k ≠ [] → w0.fs.get (kk ++ k) = none)
    (ops : List Op) (hcov : CoveredHist (osCfg bk kk) (osSim bk kk hbk hkk hne1 hne2 hd1 hd2) w0 ops) :
    ∀ k i mt, k ≠ [] → (runOps (osCfg bk kk) w0 ops).infos.lookup (kp k) = some (some i) →
      w0.fs.get (bk ++ k) = some (.dir mt) →
      ∃ mt', (runOps (osCfg bk kk) w0 ops).fs.get (kk ++ k) = some (.dir mt') ∧
        mt'.mode = mt.mode ∧ mt'.uid = mt.uid ∧ mt'.gid = mt.gid := by
  intro k i mt hk hts horig
  have hpk : PKey k := (hg.pkey _ _ horig).right
  have h := backup_copy_is_original_linkfree_partial bk kk hbk hkk hne1 hne2 hd1 hd2 w0 hg hinfos
    (backupTyped_of_empty hempty) ops hcov k i hpk hk hts
  rw [horig] at h
  exact map_erase_dir' h

/-- X1 together with what `Inv` says about the tracked `FileInfo`: the copy, the `FileInfo` and the
original agree — the literal second disjunct of the property ("an exact copy: type, content, link
target, mode, owner, file mtime") for every original the base no longer shows. -/
theorem original_intact_or_exactly_copied_linkfree_partial
    (w0 : World) (hg : OSGood bk kk w0.fs) (hinfos : w0.infos = [])
    (hempty : ∀ k, k ≠ [] → w0.fs.get (kk ++ k) = none)
    (ops : List Op) (hcov : CoveredHist (osCfg bk kk) (osSim bk kk hbk hkk hne1 hne2 hd1 hd2) w0 ops) :
    ∀ k, k ≠ [] → ∀ node, w0.fs.get (bk ++ k) = some node →
      ((runOps (osCfg bk kk) w0 ops).fs.get (bk ++ k)).map eraseMt = some (eraseMt node) ∨
      ((∃ i, (runOps (osCfg bk kk) w0 ops).infos.lookup (kp k) = some (some i) ∧ InfoFor i (eraseMt node)) ∧
        ((runOps (osCfg bk kk) w0 ops).fs.get (kk ++ k)).map eraseMt = some (eraseMt node)) := by
  intro k hk node horig
  have hkept := exactness_invariant_after_history bk kk hbk hkk hne1 hne2 hd1 hd2 w0 hg hinfos
    (backupTyped_of_empty hempty) ops hcov
  have hv : osView bk kk .base w0.fs k = some (eraseMt node) := by
    show (w0.fs.get (bk ++ k)).map eraseMt = _
    rw [horig]; rfl
  have hpk : PKey k := (hg.pkey _ _ horig).right
  rcases hkept.inv.inv.recoverable hv with ⟨_, hb⟩ | ⟨i, hts, hfor, _⟩
  · exact Or.inl hb
  · right
    refine ⟨⟨i, hts, hfor⟩, ?_⟩
    have := hkept.inv.x.exact k i hpk hk hts
    exact this.trans hv

/-! ### X4 — crash points -/

/-- **X4.**  Let the process die after any number `n` of the primitive calls of any covered history —
in the middle of a copy, between the write and the chown, between the chmod and the chtimes: on the
disk it leaves behind, every key tracked with a `FileInfo` has its exact copy in the backup (a copy is
recorded only after `copyFile`/`copyDir` returned).  Untracked partial copies may exist: see
`failed_copy_leaves_inexact_orphan`. -/
theorem backup_copies_exact_at_every_crash_point_linkfree_partial
    (w0 : World) (hg : OSGood bk kk w0.fs) (hinfos : w0.infos = [])
    (hempty : ∀ k, k ≠ [] → w0.fs.get (kk ++ k) = none) (n : Nat) (_hplan : w0.faults = crashPlan n)
    (ops : List Op) (hcov : CoveredHist (osCfg bk kk) (osSim bk kk hbk hkk hne1 hne2 hd1 hd2) w0 ops) :
    ∀ k i node, k ≠ [] → (runOps (osCfg bk kk) w0 ops).infos.lookup (kp k) = some (some i) →
      w0.fs.get (bk ++ k) = some node →
      ((runOps (osCfg bk kk) w0 ops).fs.get (kk ++ k)).map eraseMt = some (eraseMt node) := by
  intro k i node hk hts horig
  have hpk : PKey k := (hg.pkey _ _ horig).right
  have h := backup_copy_is_original_linkfree_partial bk kk hbk hkk hne1 hne2 hd1 hd2 w0 hg hinfos
    (backupTyped_of_empty hempty) ops hcov k i hpk hk hts
  rw [h, horig]; rfl

/-- **X4, crash points inside Rollback** (strengthens
`recoverable_at_every_crash_point_in_rollback_linkfree_partial` of Props/C02R.lean from "same content" to
"exact copy", directories included, no health hypothesis).  Any covered history run under any fault
plan from an empty backup; then Rollback, the process dying after `n` more primitive calls, for ANY
`n`: on the frozen disk every entry that existed when the transaction began is intact in the base
(type, content, mode, owner, file mtime) or EXACTLY copied at the same path of the backup. -/
theorem exactly_recoverable_at_every_crash_point_in_rollback_linkfree_partial
    (w0 : World) (hg : OSGood bk kk w0.fs) (hinfos : w0.infos = [])
    (hempty : ∀ k, k ≠ [] → w0.fs.get (kk ++ k) = none) (ops : List Op)
    (hcov : CoveredHist (osCfg bk kk) (osSim bk kk hbk hkk hne1 hne2 hd1 hd2) w0 ops) (n : Nat) :
    ∀ k, k ≠ [] → ∀ node, w0.fs.get (bk ++ k) = some node →
      BaseShows (rollback (osCfg bk kk) (dieAfter (runOps (osCfg bk kk) w0 ops) n)).1.fs bk k node ∨
      ((rollback (osCfg bk kk) (dieAfter (runOps (osCfg bk kk) w0 ops) n)).1.fs.get (kk ++ k)).map eraseMt =
        some (eraseMt node) := by
  intro k hk node horig
  have hkept := exactness_invariant_after_history bk kk hbk hkk hne1 hne2 hd1 hd2 w0 hg hinfos
    (backupTyped_of_empty hempty) ops hcov
  have hv : osView bk kk .base w0.fs k = some (eraseMt node) := by
    show (w0.fs.get (bk ++ k)).map eraseMt = _
    rw [horig]; rfl
  have hpk : PKey k := (hg.pkey _ _ horig).right
  rcases crash_in_rollback_dichotomy_linkfree_partial bk kk hbk hkk hne1 hne2 hd1 hd2 w0 hg hinfos ops hcov n with
    h | ⟨hb, hf⟩
  · left
    show ((rollback (osCfg bk kk) (dieAfter (runOps (osCfg bk kk) w0 ops) n)).1.fs.get (bk ++ k)).map eraseMt = _
    rw [h k hk, horig]; rfl
  · rcases hkept.inv.inv.recoverable hv with ⟨hu, hbase⟩ | ⟨i, hts, _, _⟩
    · left
      show ((rollback (osCfg bk kk) (dieAfter (runOps (osCfg bk kk) w0 ops) n)).1.fs.get (bk ++ k)).map eraseMt = _
      rw [hf k hu (by rw [horig]; simp)]
      exact hbase
    · right
      rw [hb k]
      exact (hkept.inv.x.exact k i hpk hk hts).trans hv

/-! ### X2 — a copy once taken is never overwritten -/

private theorem coveredHist_append {cfg : Cfg} {S : Sim cfg} : ∀ (ops₁ ops₂ : List Op) (w : World),
    CoveredHist cfg S w (ops₁ ++ ops₂) → CoveredHist cfg S w ops₁ ∧ CoveredHist cfg S (runOps cfg w ops₁) ops₂
  | [], _, _, h => ⟨trivial, h⟩
  | op :: rest, ops₂, w, h => by
    obtain ⟨h1, h2⟩ := coveredHist_append rest ops₂ (op.step cfg w) h.2
    exact ⟨⟨h.1, h1⟩, h2⟩

/-- **X2.**  Every fault plan.  Split any covered history at any point: if after `ops₁` the key `k ≠ []`
is tracked with a `FileInfo`, then after `ops₁ ++ ops₂` it still is — with the same `FileInfo` —, and the
backup node at that path is the same as after `ops₁` (directory timestamps erased) — namely the original. -/
theorem copy_never_overwritten_linkfree_partial
    (w0 : World) (hg : OSGood bk kk w0.fs) (hinfos : w0.infos = []) (htyped : BackupTyped w0.fs bk kk)
    (ops₁ ops₂ : List Op)
    (hcov : CoveredHist (osCfg bk kk) (osSim bk kk hbk hkk hne1 hne2 hd1 hd2) w0 (ops₁ ++ ops₂)) :
    ∀ k i, PKey k → k ≠ [] → (runOps (osCfg bk kk) w0 ops₁).infos.lookup (kp k) = some (some i) →
      (runOps (osCfg bk kk) w0 (ops₁ ++ ops₂)).infos.lookup (kp k) = some (some i) ∧
      ((runOps (osCfg bk kk) w0 (ops₁ ++ ops₂)).fs.get (kk ++ k)).map eraseMt =
        ((runOps (osCfg bk kk) w0 ops₁).fs.get (kk ++ k)).map eraseMt ∧
      ((runOps (osCfg bk kk) w0 ops₁).fs.get (kk ++ k)).map eraseMt = (w0.fs.get (bk ++ k)).map eraseMt := by
  intro k i hpk hk hts
  obtain ⟨hc1, hc2⟩ := coveredHist_append ops₁ ops₂ w0 hcov
  have h1 := exactness_invariant_after_history bk kk hbk hkk hne1 hne2 hd1 hd2 w0 hg hinfos htyped ops₁ hc1
  have h2 := history_keepsX ops₂ _ h1.inv hc2
  rw [runOps_append]
  have hex1 := h1.inv.x.exact k i hpk hk hts
  have hts' := h2.mono _ _ hts
  have hex2 := h2.inv.x.exact k i hpk hk hts'
  exact ⟨hts', hex2.trans hex1.symm, hex1⟩

/-- X2 for regular files, without any erasure: the very same node (content, mode, owner, mtime) -/
theorem file_copy_never_overwritten_linkfree_partial
    (w0 : World) (hg : OSGood bk kk w0.fs) (hinfos : w0.infos = [])
    (hempty : ∀ k, k ≠ [] → w0.fs.get (kk ++ k) = none) (ops₁ ops₂ : List Op)
    (hcov : CoveredHist (osCfg bk kk) (osSim bk kk hbk hkk hne1 hne2 hd1 hd2) w0 (ops₁ ++ ops₂)) :
    ∀ k i c mt, k ≠ [] → (runOps (osCfg bk kk) w0 ops₁).infos.lookup (kp k) = some (some i) →
      w0.fs.get (bk ++ k) = some (.file c mt) →
      (runOps (osCfg bk kk) w0 ops₁).fs.get (kk ++ k) = some (.file c mt) ∧
      (runOps (osCfg bk kk) w0 (ops₁ ++ ops₂)).fs.get (kk ++ k) = some (.file c mt) := by
  intro k i c mt hk hts horig
  have hpk : PKey k := (hg.pkey _ _ horig).right
  obtain ⟨_, h21, h10⟩ := copy_never_overwritten_linkfree_partial bk kk hbk hkk hne1 hne2 hd1 hd2 w0 hg hinfos
    (backupTyped_of_empty hempty) ops₁ ops₂ hcov k i hpk hk hts
  rw [horig] at h10
  have h1 := map_erase_file' h10
  rw [h1] at h21
  exact ⟨h1, map_erase_file' h21⟩

/-! ### X3 — the backup holds nothing but exact copies (healthy filesystems) -/

/-- **X3.**  Healthy filesystems (`faults = []`), backup root empty at the start, any covered history:
every entry below the backup root sits at the path of an original that is tracked with a `FileInfo`
describing it exactly, and IS that original (type, content, mode, owner, file mtime; directory
timestamps erased).  This is the second sentence of the property: "the backup filesystem never holds
anything else: only copies of originals and of their parent directories, never content created during
the transaction" (a key created during the transaction is tracked as absent, hence not in the
backup). -/
theorem backup_holds_only_exact_copies_linkfree_partial
    (w0 : World) (hg : OSGood bk kk w0.fs) (hinfos : w0.infos = []) (hnf : w0.faults = [])
    (hempty : ∀ k, k ≠ [] → w0.fs.get (kk ++ k) = none) (ops : List Op)
    (hcov : CoveredHist (osCfg bk kk) (osSim bk kk hbk hkk hne1 hne2 hd1 hd2) w0 ops) :
    ∀ j, j ≠ [] → (runOps (osCfg bk kk) w0 ops).fs.get (kk ++ j) ≠ none →
      ∃ i node, (runOps (osCfg bk kk) w0 ops).infos.lookup (kp j) = some (some i) ∧
        w0.fs.get (bk ++ j) = some node ∧ InfoFor i (eraseMt node) ∧
        ((runOps (osCfg bk kk) w0 ops).fs.get (kk ++ j)).map eraseMt = some (eraseMt node) := by
  intro j hj hp
  have hB := (history_keepsB ops w0 (InvB.init (S := osSim bk kk hbk hkk hne1 hne2 hd1 hd2) hg hinfos hnf
    (fun k hk => by show (w0.fs.get (kk ++ k)).map eraseMt = none; rw [hempty k hk]; rfl)) hcov).inv
  have hX := exactness_invariant_after_history bk kk hbk hkk hne1 hne2 hd1 hd2 w0 hg hinfos
    (backupTyped_of_empty hempty) ops hcov
  have hp' : osView bk kk .backup (runOps (osCfg bk kk) w0 ops).fs j ≠ none := by
    show ((runOps (osCfg bk kk) w0 ops).fs.get (kk ++ j)).map eraseMt ≠ none
    intro e; exact hp (Option.map_eq_none_iff.mp e)
  obtain ⟨i, hts⟩ := hB.b.bonly j hj hp'
  have hpk : PKey j := (osSim bk kk hbk hkk hne1 hne2 hd1 hd2).pkey hB.inv.good hp'
  obtain ⟨n, hn, hfor, _⟩ := hB.inv.ts_node hpk hts
  have hn' : (w0.fs.get (bk ++ j)).map eraseMt = some n := hn
  have hex := hX.inv.x.exact j i hpk hj hts
  cases hraw : w0.fs.get (bk ++ j) with
  | none => rw [hraw] at hn'; cases hn'
  | some node =>
    rw [hraw] at hn'
    simp only [Option.map_some, Option.some.injEq] at hn'
    refine ⟨i, node, hts, rfl, hn' ▸ hfor, ?_⟩
    have : ((runOps (osCfg bk kk) w0 ops).fs.get (kk ++ j)).map eraseMt = (w0.fs.get (bk ++ j)).map eraseMt := hex
    rw [this, hraw]; rfl

/-- X3 for regular files without erasure: a regular file below the backup root IS the original file
of the same path -/
theorem backup_file_is_original_linkfree_partial
    (w0 : World) (hg : OSGood bk kk w0.fs) (hinfos : w0.infos = []) (hnf : w0.faults = [])
    (hempty : ∀ k, k ≠ [] → w0.fs.get (kk ++ k) = none) (ops : List Op)
    (hcov : CoveredHist (osCfg bk kk) (osSim bk kk hbk hkk hne1 hne2 hd1 hd2) w0 ops) :
    ∀ j c mt, j ≠ [] → (runOps (osCfg bk kk) w0 ops).fs.get (kk ++ j) = some (.file c mt) →
      w0.fs.get (bk ++ j) = some (.file c mt) := by
  intro j c mt hj hf
  obtain ⟨i, node, _, horig, _, hex⟩ := backup_holds_only_exact_copies_linkfree_partial bk kk hbk hkk hne1 hne2 hd1 hd2
    w0 hg hinfos hnf hempty ops hcov j hj (by rw [hf]; simp)
  rw [hf] at hex
  cases node with
  | file c' mt' =>
    simp only [Option.map_some, eraseMt, Option.some.injEq, Node.file.injEq] at hex
    rw [horig, hex.1, hex.2]
  | dir md => simp [eraseMt] at hex
  | link t md => simp [eraseMt] at hex

/-- **What survives of X3 under every fault plan**: whatever the backup holds below its root — exact
copies of tracked originals, and the orphans failed copies left behind — sits at the path of an
original of the same type; nothing is ever written at the path of an entry the transaction created. -/
theorem backup_holds_only_entries_at_paths_of_originals_linkfree_partial
    (w0 : World) (hg : OSGood bk kk w0.fs) (hinfos : w0.infos = [])
    (hempty : ∀ k, k ≠ [] → w0.fs.get (kk ++ k) = none) (ops : List Op)
    (hcov : CoveredHist (osCfg bk kk) (osSim bk kk hbk hkk hne1 hne2 hd1 hd2) w0 ops) :
    ∀ j n, j ≠ [] → (runOps (osCfg bk kk) w0 ops).fs.get (kk ++ j) = some n →
      ∃ n0, w0.fs.get (bk ++ j) = some n0 ∧ n0.kind = n.kind := by
  intro j n hj hn
  have hX := exactness_invariant_after_history bk kk hbk hkk hne1 hne2 hd1 hd2 w0 hg hinfos
    (backupTyped_of_empty hempty) ops hcov
  obtain ⟨n0, hn0, hkind⟩ := hX.inv.x.kind j (eraseMt n) hj (by
    show ((runOps (osCfg bk kk) w0 ops).fs.get (kk ++ j)).map eraseMt = _
    rw [hn]; rfl)
  have hn0' : (w0.fs.get (bk ++ j)).map eraseMt = some n0 := hn0
  cases hraw : w0.fs.get (bk ++ j) with
  | none => rw [hraw] at hn0'; cases hn0'
  | some nb =>
    rw [hraw] at hn0'
    simp only [Option.map_some, Option.some.injEq] at hn0'
    exact ⟨nb, rfl, by rw [← kind_eraseMt nb, hn0', hkind, kind_eraseMt]⟩

end

/-! ### non-vacuity and the witness for X3's fault-free hypothesis

`exDiskX`: `/b` (base root) with
* `/b/s` — a set-uid + set-gid executable (mode 06755) owned by the foreign uid/gid 1000, last modified
  at the instant 12345,
* `/b/t` — a sticky directory (mode 01777) of gid 5,
* `/b/t/y` — a file (0600, uid 1000, gid 100) whose mtime was stamped during the case (`fresh`);
`/k` — the backup root, empty; umask 022 (so every create mode is masked and the later `Chmod` has work
to do).  The transaction: `Chmod("/s", 0600)`, `Remove("/t/y")`. -/

def exDiskX : MFS where
  get := fun k =>
    if k = [] then some (.dir exMeta)
    else if k = [['b']] then some (.dir exMeta)
    else if k = [['k']] then some (.dir exMeta)
    else if k = [['b'], ['s']] then some (.file "secret" { mode := 0o6755, uid := 1000, gid := 1000, mtime := .old 12345 })
    else if k = [['b'], ['t']] then some (.dir { mode := 0o1777, uid := 0, gid := 5, mtime := .old 7 })
    else if k = [['b'], ['t'], ['y']] then some (.file "why" { mode := 0o600, uid := 1000, gid := 100, mtime := .fresh })
    else none
  dom := [[], [['b']], [['k']], [['b'], ['s']], [['b'], ['t']], [['b'], ['t'], ['y']]]
  umask := 0o022

theorem exDiskX_live {k : Key} {n : Node} (h : exDiskX.get k = some n) :
    k ∈ [[], [['b']], [['k']], [['b'], ['s']], [['b'], ['t']], [['b'], ['t'], ['y']]] := by
  simp only [exDiskX] at h
  repeat' split at h
  all_goals first | (cases h; done) | (subst_vars; simp)

theorem osGood_exampleX : OSGood [['b']] [['k']] exDiskX := by
  refine ⟨⟨_, rfl⟩, ?_, ?_, ?_, ?_, ⟨_, rfl⟩, ⟨_, rfl⟩, ?_⟩
  · intro k n h
    have := exDiskX_live h
    simp only [List.mem_cons, List.not_mem_nil, or_false] at this
    rcases this with rfl | rfl | rfl | rfl | rfl | rfl <;> decide
  · intro k n h
    exact exDiskX_live h
  · intro k n h
    have := exDiskX_live h
    simp only [List.mem_cons, List.not_mem_nil, or_false] at this
    rcases this with rfl | rfl | rfl | rfl | rfl | rfl <;> (cases h; decide)
  · intro k n h hne
    have := exDiskX_live h
    simp only [List.mem_cons, List.not_mem_nil, or_false] at this
    rcases this with rfl | rfl | rfl | rfl | rfl | rfl
    · exact absurd rfl hne
    all_goals exact ⟨_, rfl⟩
  · intro k t mt _ h
    have := exDiskX_live h
    simp only [List.mem_cons, List.not_mem_nil, or_false] at this
    rcases this with rfl | rfl | rfl | rfl | rfl | rfl <;> cases h

def exOpsX : List Op := [.chmod "/s".toList 0o600, .remove "/t/y".toList]

/-- the world after the example history on healthy filesystems -/
def exAfterX : World := runOps (osCfg [['b']] [['k']]) { fs := exDiskX } exOpsX

/-- the hypotheses of X1–X3 hold of the example -/
example : OSGood [['b']] [['k']] exDiskX ∧
    CoveredHist (osCfg [['b']] [['k']]) osSim_example { fs := exDiskX } exOpsX ∧
    (∀ k, k ≠ [] → exDiskX.get ([['k']] ++ k) = none) := by
  refine ⟨osGood_exampleX, ⟨?_, ⟨?_, ?_⟩, trivial⟩, ?_⟩
  · show isAbs _ = true; decide
  · show isAbs _ = true; decide
  · decide
  · intro k hk
    cases h : exDiskX.get ([['k']] ++ k) with
    | none => rfl
    | some n =>
      exfalso
      have := exDiskX_live h
      simp at this
      exact hk this

/-- … the three keys are tracked with a `FileInfo`, and (by evaluation of the model) the copies are
exact: the set-id bits and the foreign owner of `/s` (the create mode is `06755 & 0777` masked by the
umask, `Chown` would clear the set-id bits, the `Chmod` after it restores all twelve), its mtime; the
sticky bit and the group of `/t`; owner, mode and content of `/t/y`.  The base has moved on. -/
example :
    (exAfterX.infos.lookup "/s".toList).isSome = true ∧ (exAfterX.infos.lookup "/t".toList).isSome = true ∧
    (exAfterX.infos.lookup "/t/y".toList).isSome = true ∧
    exAfterX.fs.get [['k'], ['s']] = exDiskX.get [['b'], ['s']] ∧
    exAfterX.fs.get [['k'], ['s']] =
      some (.file "secret" { mode := 0o6755, uid := 1000, gid := 1000, mtime := .old 12345 }) ∧
    (exAfterX.fs.get [['k'], ['t']]).map eraseMt = (exDiskX.get [['b'], ['t']]).map eraseMt ∧
    (exAfterX.fs.get [['k'], ['t']]).map eraseMt = some (.dir { mode := 0o1777, uid := 0, gid := 5, mtime := .fresh }) ∧
    exAfterX.fs.get [['k'], ['t'], ['y']] = exDiskX.get [['b'], ['t'], ['y']] ∧
    exAfterX.fs.get [['b'], ['s']] =
      some (.file "secret" { mode := 0o600, uid := 1000, gid := 1000, mtime := .old 12345 }) ∧
    exAfterX.fs.get [['b'], ['t'], ['y']] = none := by
  decide +kernel

/-- **The fault-free hypothesis of X3 is forced** (and so is "tracked" in X1).  One injected fault: the
backup filesystem refuses the `Chmod("/s", 06755)` inside `copyFile` (the call that restores the set-id
bits after the `Chown`).  `Chmod("/s", 0600)` through BackupFS then fails, the base is untouched and
`/s` is NOT tracked — yet the backup holds `/k/s`: right content, right owner, but mode 0755 (the
set-uid and set-gid bits are gone) and a `fresh` mtime.  An untracked, inexact orphan: X3 is false under
fault plans; X1 is not contradicted (the key is untracked), and the orphan is a regular file at the
path of a regular file (`backup_holds_only_entries_at_paths_of_originals_linkfree_partial`). -/
def exFaultX : List Fault := [⟨⟨.backup, "chmod", ["/s".toList, "3565".toList]⟩, 0⟩]

def exOrphanX : World := runOps (osCfg [['b']] [['k']]) { fs := exDiskX, faults := exFaultX } [.chmod "/s".toList 0o600]

theorem failed_copy_leaves_inexact_orphan :
    CoveredHist (osCfg [['b']] [['k']]) osSim_example { fs := exDiskX, faults := exFaultX } [.chmod "/s".toList 0o600] ∧
    exOrphanX.infos.lookup "/s".toList = none ∧
    exOrphanX.fs.get [['b'], ['s']] = exDiskX.get [['b'], ['s']] ∧
    exOrphanX.fs.get [['k'], ['s']] =
      some (.file "secret" { mode := 0o755, uid := 1000, gid := 1000, mtime := .fresh }) ∧
    exOrphanX.fs.get [['k'], ['s']] ≠ exDiskX.get [['b'], ['s']] ∧
    (exOrphanX.trace.filter (fun e => e.failed)).length = 1 := by
  refine ⟨⟨?_, trivial⟩, ?_⟩
  · show isAbs _ = true; decide
  · decide +kernel

/-- retrying the operation on healthy filesystems repairs the orphan: the second `copyFile` truncates
and rewrites it, fixes owner, mode and time, and only then is `/s` recorded — with an exact copy -/
example :
    let w := runOps (osCfg [['b']] [['k']]) { exOrphanX with faults := [] } [.chmod "/s".toList 0o600]
    (w.infos.lookup "/s".toList).isSome = true ∧ w.fs.get [['k'], ['s']] = exDiskX.get [['b'], ['s']] := by
  decide +kernel

/-- a crash plan: the process dies after 13 primitive calls of the example history (after the `Chown`
of the copy of `/s`, before the `Chmod` that restores the set-id bits): `/s` is not tracked, the
partial copy is there; X4 speaks about tracked keys only -/
example :
    let w := runOps (osCfg [['b']] [['k']]) { fs := exDiskX, faults := crashPlan 13 } exOpsX
    crashed w = true ∧ w.infos.lookup "/s".toList = none ∧
    w.fs.get [['k'], ['s']] = some (.file "secret" { mode := 0o755, uid := 1000, gid := 1000, mtime := .fresh }) ∧
    w.fs.get [['b'], ['s']] = exDiskX.get [['b'], ['s']] := by
  decide +kernel

end Props.C02
