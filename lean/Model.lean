import Model.Path
import Model.Spec
import Model.Basic
import Model.Layers
import Model.OS
import Model.FSI
import Model.World
import Model.BackupFS
