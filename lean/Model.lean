import Model.Path
import Model.Spec
import Model.Basic
import Model.Layers
