import Model.Path
import Model.Spec
