#!/bin/sh
# tools_seedimport.sh <scratch worktree of a seed agent> <seed id>: copy patch.diff, the demonstration and the notes
# into /verif/seeded/<id>/, confirm them in a fresh worktree, and remove the agent's worktree.
w="$1"; id="$2"; d=/verif/seeded/$id
[ -f "$w/patch.diff" ] && [ -f "$w/zz_seed_demo_test.go" ] || { echo "$id: files missing in $w"; exit 2; }
mkdir -p "$d"
cp "$w/patch.diff" "$d/patch.diff"; cp "$w/zz_seed_demo_test.go" "$d/"; cp "$w/SEED_NOTES.md" "$d/README.md" 2>/dev/null
/verif/tools_seedverify.sh "$d" | tail -1
git -C /repo worktree remove --force "$w"
