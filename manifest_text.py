HOOK_COMMITS = []

NOT_APPLICABLE = {("C%02d" % i): "check not built yet in this round (work in progress; see DESIGN.md section 10 for the order of work)" for i in range(1, 20)}

TEXT = {
    "C19": {
        "level": "Machine-checked proof (Lean 4) for every path string: LessFilePathSeparators is a strict total order; every proper ancestor of a cleaned path sorts before it; ByMost/ByLeast outputs respect ancestry, are permutations, are the unique sorted permutation (so pdqsort and the input order are irrelevant), root last/first; IterateDirTree on a cleaned path visits exactly its ancestor chain for arbitrary Unicode names and stops after the first rejected element. Full strength, no hypothesis beyond the ones the property states (cleaned, distinct).",
        "design_ref": "DESIGN.md section 6, C19",
        "note": "Theorems are about lean/Model/Path.lean; the tie is the `pure` correspondence stream (exhaustive short strings over a path-shaped alphabet incl. multi-byte runes + seeded random) against filepath.Clean/Join/Dir/Rel, IterateDirTree, LessFilePathSeparators and sort.Sort of both comparator types, plus the property oracle on the implementation. Trusted: Lean kernel, the model of path/filepath, sort.Sort returning a sorted permutation. Invalid UTF-8 is outside the model.",
        "technique": "Lean 4 proof (induction over strings/lists) + differential correspondence of the model against the Go code",
    },
    "C05": {
        "level": "Machine-checked proof (Lean 4), for every prefix string and every name string, all 16 path-taking methods: every path PrefixFS hands to its base is the prefix or component-wise inside it (prefix_confines); a refusal is always the escape error and issues no base call (rejected_is_escape, escaping_name_rejected); the lexical effective target of every created symlink stays inside for absolute prefixes and for relative targets (symlink_target_confined_partial). The remaining case (relative prefix + absolute target) is proved to FAIL (symlink_target_confined_full_fails) and is the open known finding K-relprefix-abslink.",
        "design_ref": "DESIGN.md section 6, C05",
        "note": "Theorems are about PrefixFS.translate in lean/Model/Layers.lean; tie: layers stream (all methods x prefixes x name spellings over a stub spy base: the recorded base call or refusal must equal translate's) + oracle on the implementation (component-wise containment of every recorded argument). Trusted: Lean kernel, model of filepath.Clean/Join/Rel/Dir (validated by the pure stream), the spy. Not covered by a theorem: symlinks already inside the prefix whose effective target changes when they are renamed.",
        "technique": "Lean 4 proof over a call-translation model + differential correspondence with a spy base",
    },
    "C06": {
        "level": "Machine-checked proof (Lean 4) of the lexical part for every hidden-path list, every name spelling, all methods: a name that is a hidden path or below one (component-wise, after cleaning) is never reported visible (isHidden_complete), hence never delegated (hidden_never_delegated, which also covers both names of Rename and the lexical effective target of Symlink); the error class is ErrNotExist for access/removal/metadata and ErrPermission for creating calls (hidden_refused, rename_refused, symlink_refused, refusal_classes); no base call is issued, so the outcome cannot depend on whether the entry exists. The clause 'by any route, including through symlinks' is NOT proved: it needs the OS model and is false of the code for link chains (see DESIGN.md, known finding K-hidden-symlink-route once the history streams cover it).",
        "design_ref": "DESIGN.md section 6, C06",
        "note": "Theorems are about HiddenFS.translate/isHidden in lean/Model/Layers.lean; tie: layers stream with a stub spy base (zero base calls + error class for hidden names; exact call otherwise). Comparable hypothesis = filepath.Rel can relate name and hidden path (always true when both are rooted).",
        "technique": "Lean 4 proof over a call-translation model + differential correspondence with a spy base",
    },
    "C14": {
        "level": "Machine-checked proof (Lean 4): for every non-empty stored prefix and every name whose cleaned form keeps no '..', each method delegates exactly the same call at join(prefix, clean(name)), absolute link targets re-rooted the same way, relative ones verbatim (reroot_exact); for absolute prefixes Symlink then Readlink returns the cleaned target, absolute or relative (symlink_readlink_roundtrip_abs/_rel); Readlink either returns the re-rooted remainder of a target inside the prefix or the cleaned text of a target outside it (readlink_no_leak). Not yet proved: File.Name/FileInfo.Name overrides (checked by correspondence and oracle only).",
        "design_ref": "DESIGN.md section 6, C14",
        "note": "Theorems about PrefixFS.translate/readlinkPost; tie: layers stream (exact base call, Readlink results for stored targets inside/at/beside the prefix, File.Name and FileInfo.Name against the model's reportedName). Relative prefixes: the round trip of absolute targets is exercised by correspondence only.",
        "technique": "Lean 4 proof over a call-translation model + differential correspondence with a spy base",
    },
    "C15": {
        "level": "Machine-checked proof (Lean 4) of the lexical part: 'hidden' implies component-wise inside some hidden path, so string-prefix siblings such as backups2 are never hidden (isHidden_sound, visible_of_outside); for visible names every method hands the base exactly the caller's arguments (nonhidden_delegates, arguments_unchanged; Create/Open as the OpenFile calls os.Create/os.Open make). Rename of an ancestor of a hidden path is excluded by hypothesis (refused on purpose, C11). RemoveAll on visible names is covered by the hidden-removeall stream (correspondence with the Lean program model), not by a theorem yet.",
        "design_ref": "DESIGN.md section 6, C15",
        "note": "Tie: layers stream over a stub spy base; oracle: for visible comparable names exactly one base call with unchanged arguments.",
        "technique": "Lean 4 proof over a call-translation model + differential correspondence with a spy base",
    },
    "C18": {
        "level": "Machine-checked proof (Lean 4): on a platform without volume names every VolumeFS method delegates the same call on the cleaned path, relative link targets unchanged and absolute ones cleaned, never refusing (volume_identity); Readlink returns the cleaned target (readlink_cleaned); no name override fires (names_pass_through). The volume-platform half of the property cannot be executed on the linux sandbox and is not claimed.",
        "design_ref": "DESIGN.md section 6, C18",
        "note": "Tie: layers stream with generated volume arguments (C:, UNC, empty, ...) over a stub spy base. Trusted: filepath.VolumeName is empty on linux (exercised, not proved).",
        "technique": "Lean 4 proof over a call-translation model + differential correspondence with a spy base",
    },
}
