HOOK_COMMITS = []

NOT_APPLICABLE = {("C%02d" % i): "check not built yet in this round (work in progress; see DESIGN.md section 10 for the order of work)" for i in range(1, 20)}

TEXT = {
    "C19": {
        "level": "Machine-checked proof (Lean 4) for every path string: LessFilePathSeparators is a strict total order; every proper ancestor of a cleaned path sorts before it; ByMost/ByLeast outputs respect ancestry, are permutations, are the unique sorted permutation (so pdqsort and the input order are irrelevant), root last/first; IterateDirTree on a cleaned path visits exactly its ancestor chain for arbitrary Unicode names and stops after the first rejected element. Full strength, no hypothesis beyond the ones the property states (cleaned, distinct).",
        "design_ref": "DESIGN.md section 6, C19",
        "note": "Theorems are about lean/Model/Path.lean; the tie is the `pure` correspondence stream (exhaustive short strings over a path-shaped alphabet incl. multi-byte runes + seeded random) against filepath.Clean/Join/Dir/Rel, IterateDirTree, LessFilePathSeparators and sort.Sort of both comparator types, plus the property oracle on the implementation. Trusted: Lean kernel, the model of path/filepath, sort.Sort returning a sorted permutation. Invalid UTF-8 is outside the model.",
        "technique": "Lean 4 proof (induction over strings/lists) + differential correspondence of the model against the Go code",
    },
}
